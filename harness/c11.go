package main

// C11 -- no surviving run leaves lock/temp/half-created files; reads modify nothing.
//
// Generated programs (reads, effective and no-op UPDATE/INSERT/DELETE, CREATE TABLE, COMMIT,
// ROLLBACK) are run by the real binary build/csvq under strace -f with every kind of ending:
// success, syntax error, missing table, division by zero in the middle of a statement, duplicate
// CREATE, EXIT, wait timeout against a competing holder's lock / read lock / temp file (made by
// hand before the run), and SIGINT / SIGTERM / SIGQUIT injected at the N-th call of a system call
// class.  The program is translated to the actions of coq/Model/Cleanup.v; Coq (Harness/H11.v)
// requires the observed mutating calls to equal the model's trace (for signalled runs: the trace of
// the run cancelled at some step), the directory found to equal the model's, and evaluates the
// decidable spec: no control file that was not there before, no uncommitted created table, and
// for read-only programs no mutation of a data file (trace, bytes, mtimes).

import (
	"fmt"
	"math/rand"
	"os"
	"path/filepath"
	"sort"
	"strings"
	"sync"
	"time"
)

func init() { runners["C11"] = runC11 }

type c11Stmt struct {
	SQL  string
	Kind string // read readerr update noop upderr create createerr commit rollback exit missread missupd
	Tbl  int
}

type c11Prog struct {
	Id       int
	Scenario string
	Stmts    []c11Stmt
	Syntax   bool // the program text does not parse
	Tables   map[string]int
	Init     map[string]string
	Foreign  map[string]string // extra files made before the run: name -> kind ("lock","rlock","temp")
	Args     []string
	LB       []byte
	Signal   string // "" or SIGINT/SIGTERM/SIGQUIT
	Inject   string // strace inject expression for signalled runs
	OutFile  bool
	RootDir  string
	NameOf   map[int]string // table number -> file name
	Fault    bool           // a system call is made to fail (strace inject=...:error=...)
	Mode     string         // "" program on the command line; "source" --source FILE; "preload" ./csvqrc + a trivial command line
}

type c11Obs struct {
	P      *c11Prog
	Ops    []fsOp
	S0     fsSnap
	Snap   fsSnap
	Res    RunResult
	Trace  traceResult
	Same   bool
	Counts map[string]int
	OutLeft bool
	Calls  []rawCall
}

var c11Tables = map[string]int{"t1.csv": 1, "t2.csv": 2, "t3.csv": 3, "n1.csv": 11, "n2.csv": 12, "nosuch.csv": 9}

func c11Gen(r *rand.Rand, id int, scenario string) *c11Prog {
	p := &c11Prog{Id: id, Scenario: scenario, Tables: c11Tables, Init: map[string]string{}, Foreign: map[string]string{}, LB: []byte("\n")}
	vals := 0
	val := func() string { vals++; return fmt.Sprintf("w%d%c", vals, 'a'+rune(r.Intn(26))) }
	for i := 1; i <= 3; i++ {
		var b strings.Builder
		b.WriteString("k,v\n")
		for k := 1; k <= 1+r.Intn(3); k++ {
			fmt.Fprintf(&b, "%d,%s\n", k, val())
		}
		p.Init[fmt.Sprintf("t%d.csv", i)] = b.String()
	}
	tname := func(t int) string {
		if t >= 11 {
			return fmt.Sprintf("`n%d.csv`", t-10)
		}
		return fmt.Sprintf("t%d", t)
	}
	created := map[int]bool{}
	nextKey := 100
	read := func(t int) c11Stmt {
		return c11Stmt{[]string{"SELECT * FROM %s;", "SELECT COUNT(*) FROM %s;", "SELECT v FROM %s WHERE k = 1;"}[r.Intn(3)], "read", t}
	}
	update := func(t int) c11Stmt {
		nextKey++
		if t >= 11 {
			return c11Stmt{fmt.Sprintf("INSERT INTO %%s VALUES (%d, '%s');", nextKey, val()), "update", t}
		}
		switch r.Intn(3) {
		case 0:
			return c11Stmt{fmt.Sprintf("UPDATE %%s SET v = '%s' WHERE k = 1;", val()), "update", t}
		case 1:
			return c11Stmt{fmt.Sprintf("INSERT INTO %%s VALUES (%d, '%s');", nextKey, val()), "update", t}
		}
		return c11Stmt{fmt.Sprintf("UPDATE %%s SET v = '%s';", val()), "update", t}
	}
	noop := func(t int) c11Stmt {
		return c11Stmt{[]string{"UPDATE %s SET v = 'none' WHERE k = 999;", "DELETE FROM %s WHERE k = 999;"}[r.Intn(2)], "noop", t}
	}
	create := func() (c11Stmt, bool) {
		for t := 11; t <= 12; t++ {
			if !created[t] {
				created[t] = true
				return c11Stmt{"CREATE TABLE %s (a, b);", "create", t}, true
			}
		}
		return c11Stmt{}, false
	}
	anyT := func() int { return 1 + r.Intn(3) }
	body := func(n int, readonly bool) []c11Stmt {
		var out []c11Stmt
		for i := 0; i < n; i++ {
			c := r.Intn(10)
			if readonly {
				c = 0
			}
			switch {
			case c < 3:
				out = append(out, read(anyT()))
			case c < 6:
				out = append(out, update(anyT()))
			case c < 7:
				out = append(out, noop(anyT()))
			case c < 9:
				if s, ok := create(); ok {
					out = append(out, s)
					if r.Intn(2) == 0 {
						out = append(out, update(s.Tbl))
					}
				} else {
					out = append(out, update(anyT()))
				}
			default:
				if r.Intn(2) == 0 {
					out = append(out, c11Stmt{"COMMIT;", "commit", 0})
				} else {
					out = append(out, c11Stmt{"ROLLBACK;", "rollback", 0})
				}
				// created names may be reused only if rolled back; keep it simple: never reuse
			}
		}
		return out
	}
	ender := func(kind string) c11Stmt {
		t := anyT()
		switch kind {
		case "readerr":
			return c11Stmt{"SELECT 1/0 FROM %s;", "readerr", t}
		case "upderr":
			return c11Stmt{"UPDATE %s SET v = 1/0;", "upderr", t}
		case "createerr":
			return c11Stmt{[]string{"CREATE TABLE %s (a, b) AS SELECT 1;", "CREATE TABLE %s (a) AS SELECT nofunc(1);"}[r.Intn(2)], "createerr", 12}
		case "exit":
			return c11Stmt{[]string{"EXIT;", "EXIT 3;"}[r.Intn(2)], "exit", 0}
		case "missread":
			return c11Stmt{"SELECT * FROM nosuch;", "missread", 9}
		case "missupd":
			return c11Stmt{"UPDATE nosuch SET v = 1;", "missupd", 9}
		case "dupcreate":
			if r.Intn(2) == 0 {
				return c11Stmt{"CREATE TABLE `t2.csv` (a, b);", "create", 2}
			}
			return c11Stmt{"CREATE TABLE `n1.csv` (a, b);", "create", 11}
		}
		panic(kind)
	}
	switch scenario {
	case "success", "signal":
		p.Stmts = body(1+r.Intn(5), false)
	case "readonly", "readonly-signal":
		p.Stmts = body(1+r.Intn(4), true)
		if r.Intn(3) == 0 {
			p.Stmts = append(p.Stmts, ender([]string{"readerr", "exit", "missread"}[r.Intn(3)]))
		}
	case "syntax":
		p.Stmts = body(1+r.Intn(3), false)
		p.Syntax = true
	case "timeout":
		p.Stmts = body(1+r.Intn(4), false)
		// a competing holder on one of the tables; the program may or may not touch it
		t := anyT()
		kind := []string{"lock", "rlock", "temp", "lock"}[r.Intn(4)]
		if r.Intn(5) == 0 {
			t = 11 // blocks CREATE TABLE n1
		}
		name := p_nameOf(t)
		switch kind {
		case "lock":
			p.Foreign["."+name+".lock"] = "lock"
		case "temp":
			p.Foreign["."+name+".temp"] = "temp"
		case "rlock":
			p.Foreign["."+name+".AAAAAAAAAAAA.rlock"] = "rlock"
		}
		if t == 11 {
			p.Stmts = append(p.Stmts, c11Stmt{"CREATE TABLE %s (a, b);", "create", 11})
		} else {
			p.Stmts = append(p.Stmts, []c11Stmt{read(t), update(t), noop(t)}[r.Intn(3)])
		}
		p.Stmts = append(p.Stmts, body(r.Intn(2), false)...)
	default: // an error kind
		pre := body(r.Intn(4), false)
		if scenario == "dupcreate" {
			if s, ok := create(); ok && s.Tbl == 11 {
				pre = append(pre, s)
			}
		}
		p.Stmts = append(pre, ender(scenario))
		p.Stmts = append(p.Stmts, body(r.Intn(2), false)...)
	}
	for i := range p.Stmts {
		if strings.Contains(p.Stmts[i].SQL, "%s") {
			p.Stmts[i].SQL = fmt.Sprintf(p.Stmts[i].SQL, tname(p.Stmts[i].Tbl))
		}
	}
	if scenario == "timeout" {
		p.Args = []string{"-w", "0.4"} // everywhere else the default of 10 s: wall-clock stalls must not look like lock timeouts
	}
	switch r.Intn(8) {
	case 0:
		p.LB = []byte("\r\n")
		p.Args = append(p.Args, "--line-break", "CRLF")
	case 1:
		p.LB = nil
		p.Args = append(p.Args, "--strip-ending-line-break")
	}
	if r.Intn(2) == 0 {
		p.Args = append(p.Args, "-q")
	}
	return p
}

func p_nameOf(t int) string {
	for n, i := range c11Tables {
		if i == t {
			return n
		}
	}
	panic("table")
}

func (p *c11Prog) nameOf(t int) string {
	if n, ok := p.NameOf[t]; ok {
		return n
	}
	for n, i := range p.Tables {
		if i == t {
			return n
		}
	}
	return ""
}

// tailOf: the line break COMMIT appends after the records of table t: nothing with
// --strip-ending-line-break, the session's --line-break for a created table, the file's own line
// break (the generator writes LF files) for an existing one
func (p *c11Prog) tailOf(t int) []byte {
	if len(p.LB) == 0 {
		return nil
	}
	if p.isNew(t) {
		return p.LB
	}
	return []byte("\n")
}

// isNew: the table does not exist before the run (the program may create it)
func (p *c11Prog) isNew(t int) bool { _, ok := p.Init[p.nameOf(t)]; return !ok }

// the three name-length classes of the control files of a table file name of n bytes (NAME_MAX 255):
// ".NAME.lock"/".NAME.temp" = n+6, ".NAME.<12 chars>.rlock" = n+20
func lockTooLong(n int) bool  { return n+6 > 255 }
func rlockTooLong(n int) bool { return n+20 > 255 }

// c11GenLong: tables whose file names are so long that the names of their control files do not fit
// into a directory entry (255 bytes): ".NAME.lock" / ".NAME.temp" need len+6, ".NAME.<12>.rlock" len+20
func c11GenLong(r *rand.Rand, id int) *c11Prog {
	p := &c11Prog{Id: id, Scenario: "longname", Tables: map[string]int{"t1.csv": 1}, Init: map[string]string{},
		Foreign: map[string]string{}, LB: []byte("\n"), NameOf: map[int]string{1: "t1.csv"}, Args: []string{"-w", "0.3"}}
	mk := func(n int, ch byte) string { return strings.Repeat(string(ch), n-4) + ".csv" }
	exLens := []int{228, 235, 236, 237, 243, 249, 250, 251, 255}
	newLens := []int{230, 235, 236, 249, 250, 255}
	p.Init["t1.csv"] = "k,v\n1,w1\n2,w2\n"
	var existing []int
	for i := 0; i < 3; i++ {
		n := mk(exLens[r.Intn(len(exLens))], byte('a'+i))
		p.Tables[n], p.NameOf[21+i] = 21+i, n
		p.Init[n] = fmt.Sprintf("k,v\n1,l%d\n", i)
		existing = append(existing, 21+i)
	}
	existing = append(existing, 1)
	for i := 0; i < 2; i++ {
		n := mk(newLens[r.Intn(len(newLens))], byte('x'+i))
		p.Tables[n], p.NameOf[31+i] = 31+i, n
	}
	q := func(t int) string { return "`" + p.NameOf[t] + "`" }
	nst := 1 + r.Intn(4)
	created := 0
	readonly := r.Intn(3) == 0
	for i := 0; i < nst; i++ {
		t := existing[r.Intn(len(existing))]
		c := r.Intn(8)
		if readonly {
			c = 0
		}
		switch {
		case c < 3:
			p.Stmts = append(p.Stmts, c11Stmt{"SELECT * FROM " + q(t) + ";", "read", t})
		case c < 5:
			p.Stmts = append(p.Stmts, c11Stmt{fmt.Sprintf("INSERT INTO %s VALUES (%d, 'n%d');", q(t), 100+i, i), "update", t})
		case c < 6:
			p.Stmts = append(p.Stmts, c11Stmt{"DELETE FROM " + q(t) + " WHERE k = 999;", "noop", t})
		default:
			if created < 2 {
				t = 31 + created
				created++
				p.Stmts = append(p.Stmts, c11Stmt{"CREATE TABLE " + q(t) + " (a, b);", "create", t})
				if r.Intn(2) == 0 {
					p.Stmts = append(p.Stmts, c11Stmt{"INSERT INTO " + q(t) + " VALUES (1, 'z');", "update", t})
				}
			} else {
				p.Stmts = append(p.Stmts, c11Stmt{"SELECT COUNT(*) FROM " + q(t) + ";", "read", t})
			}
		}
	}
	if r.Intn(2) == 0 {
		p.Args = append(p.Args, "-q")
	}
	return p
}

// c11Corpus: fixed programs around COMMIT / ROLLBACK in the middle of a program (run in every tier)
func c11Corpus(id int) []*c11Prog {
	init := map[string]string{"t1.csv": "k,v\n1,a\n2,b\n", "t2.csv": "k,v\n1,c\n", "t3.csv": "k,v\n1,d\n2,e\n3,f\n"}
	rd := func(t int) c11Stmt { return c11Stmt{fmt.Sprintf("SELECT * FROM t%d;", t), "read", t} }
	up := func(t int) c11Stmt { return c11Stmt{fmt.Sprintf("UPDATE t%d SET v = 'x%d';", t, t), "update", t} }
	no := func(t int) c11Stmt { return c11Stmt{fmt.Sprintf("DELETE FROM t%d WHERE k = 999;", t), "noop", t} }
	cr := func(t int) c11Stmt { return c11Stmt{fmt.Sprintf("CREATE TABLE `n%d.csv` (a, b);", t-10), "create", t} }
	in := func(t int) c11Stmt { return c11Stmt{fmt.Sprintf("INSERT INTO `n%d.csv` VALUES (1, 'y');", t-10), "update", t} }
	co := c11Stmt{"COMMIT;", "commit", 0}
	ro := c11Stmt{"ROLLBACK;", "rollback", 0}
	ex := c11Stmt{"EXIT;", "exit", 0}
	lists := [][]c11Stmt{
		{no(1), co, up(2)},
		{no(1), co, no(1), co, rd(1)},
		{rd(1), co, up(1)},
		{up(1), co, no(1), ro, rd(1)},
		{cr(11), ro, cr(11), in(11)},
		{no(1), ro, up(2), co, rd(2), ex},
		{up(1), no(2), rd(3), co, rd(3), no(3), up(2)},
		{cr(11), in(11), no(1), co, up(1), cr(12), ex},
		{no(1), no(2), no(3), co, cr(11)},
		{rd(1), rd(2), co, ro, no(2)},
	}
	var out []*c11Prog
	for i, l := range lists {
		p := &c11Prog{Id: id + i, Scenario: "corpus", Stmts: l, Tables: c11Tables, Init: init, Foreign: map[string]string{}, LB: []byte("\n")}
		if i%2 == 1 {
			p.Args = []string{"-q"}
		}
		out = append(out, p)
	}
	return out
}

// c11CaseCorpus: table names that differ only in case.  The FileContainer (and the view cache) key
// handlers by the upper-cased path, so on a case-sensitive file system a second file collides with a
// handler that is held: the new handler must be released completely (closeIsolatedHandler), the held
// one must stay.  A.csv, b.csv, t3.csv exist; a.csv, B.csv do not.
func c11CaseCorpus(id int) []*c11Prog {
	tables := map[string]int{"A.csv": 1, "b.csv": 2, "t3.csv": 3, "a.csv": 13, "B.csv": 14}
	nameOf := map[int]string{1: "A.csv", 2: "b.csv", 3: "t3.csv", 13: "a.csv", 14: "B.csv"}
	init := map[string]string{"A.csv": "k,v\n1,a\n2,b\n", "b.csv": "k,v\n1,c\n", "t3.csv": "k,v\n1,d\n2,e\n"}
	q := func(t int) string { return "`" + nameOf[t] + "`" }
	up := func(t int) c11Stmt { return c11Stmt{"UPDATE " + q(t) + " SET v = 'x';", "update", t} }
	no := func(t int) c11Stmt { return c11Stmt{"DELETE FROM " + q(t) + " WHERE k = 999;", "noop", t} }
	fu := func(t int) c11Stmt { return c11Stmt{"SELECT * FROM " + q(t) + " FOR UPDATE;", "noop", t} }
	rd := func(t int) c11Stmt { return c11Stmt{"SELECT * FROM " + q(t) + ";", "read", t} }
	cr := func(t int) c11Stmt { return c11Stmt{"CREATE TABLE " + q(t) + " (x, y);", "create", t} }
	in := func(t int) c11Stmt { return c11Stmt{"INSERT INTO " + q(t) + " VALUES (1, 'n');", "update", t} }
	co := c11Stmt{"COMMIT;", "commit", 0}
	lists := [][]c11Stmt{
		{up(1), cr(13)},
		{fu(1), cr(13), up(3)},
		{no(2), up(3), cr(14)},
		{rd(3), up(3), fu(2), cr(14)},
		{cr(14), cr(2)},                 // b.csv exists: refused before anything is made
		{up(1), co, cr(13), in(13)},     // after COMMIT nothing is held: a.csv is created
		{cr(13), in(13), co, no(1)},     // a.csv committed, then A.csv locked
		{up(3), cr(14), in(14), cr(13)}, // nothing collides: A.csv is not held
		{up(1), up(2), cr(14)},
	}
	var out []*c11Prog
	for i, l := range lists {
		p := &c11Prog{Id: id + i, Scenario: "case", Stmts: l, Tables: tables, NameOf: nameOf, Init: init, Foreign: map[string]string{}, LB: []byte("\n")}
		if i%2 == 1 {
			p.Args = []string{"-q"}
		}
		out = append(out, p)
	}
	return out
}

func (p *c11Prog) text() string {
	var s []string
	for _, st := range p.Stmts {
		s = append(s, st.SQL)
	}
	t := strings.Join(s, " ")
	if p.Syntax {
		t += " SELEC oops FROM;"
	}
	return t
}

// c11SetMode: how the program reaches csvq.  A preload file runs before the command line options are
// applied, so such a program runs with the defaults (and must not contain EXIT, which only ends the
// preload file)
func c11SetMode(p *c11Prog, mode string) {
	p.Mode = mode
	if mode == "preload" {
		for _, st := range p.Stmts {
			if st.Kind == "exit" {
				p.Mode = ""
				return
			}
		}
		p.Args, p.LB, p.OutFile = nil, []byte("\n"), false
	}
}

func (p *c11Prog) names(dir string) *repoNames {
	n := &repoNames{Dir: dir, Tables: p.Tables, Foreign: map[string]int{}, Ignore: map[string]bool{"csvqrc": true}}
	for f, k := range p.Foreign {
		if k == "rlock" {
			n.Foreign[f] = 1
		}
	}
	return n
}

const c11TraceSet = straceSyscalls + ",read,flock,newfstatat,fstat,getdents64,lseek"

func (p *c11Prog) run(tag string, inject string) c11Obs {
	dir := filepath.Join(p.RootDir, tag)
	if err := os.MkdirAll(dir, 0755); err != nil {
		panic(err)
	}
	old := time.Now().Add(-48 * time.Hour).Truncate(time.Second)
	for n, c := range p.Init {
		if err := os.WriteFile(filepath.Join(dir, n), []byte(c), 0644); err != nil {
			panic(err)
		}
		_ = os.Chtimes(filepath.Join(dir, n), old, old)
	}
	for n := range p.Foreign {
		if err := os.WriteFile(filepath.Join(dir, n), nil, 0600); err != nil {
			panic(err)
		}
	}
	home := filepath.Join(p.RootDir, "home")
	_ = os.MkdirAll(home, 0755)
	n := p.names(dir)
	s0 := snapshotDir(n)
	args := append([]string{"-r", dir}, p.Args...)
	outPath := filepath.Join(p.RootDir, tag+".out")
	if p.OutFile {
		args = append(args, "-o", outPath)
	}
	cwd := home
	switch p.Mode {
	case "source":
		src := filepath.Join(p.RootDir, tag+".sql")
		if err := os.WriteFile(src, []byte(p.text()), 0644); err != nil {
			panic(err)
		}
		defer os.Remove(src)
		args = append(args, "-s", src)
	case "preload":
		// ./csvqrc is executed before the command line options are applied (no -r yet): the process
		// runs inside the repository; the command line itself is trivial
		if err := os.WriteFile(filepath.Join(dir, "csvqrc"), []byte(p.text()), 0644); err != nil {
			panic(err)
		}
		cwd = dir
		args = []string{"SELECT 1;"}
	default:
		args = append(args, p.text())
	}
	traceFile := filepath.Join(p.RootDir, tag+".strace")
	argv := []string{"strace", "-f", "-o", traceFile, "-s", "200000", "-xx", "-e", "trace=" + c11TraceSet}
	if inject != "" {
		argv = append(argv, "-e", "inject="+inject)
	}
	argv = append(argv, csvqBinary())
	argv = append(argv, args...)
	res := runCmdNoStdin(cwd, argv, 40*time.Second, "HOME="+home)
	b, _ := os.ReadFile(traceFile)
	calls := parseStrace(string(b))
	tr := traceToOps(calls, n)
	o := c11Obs{P: p, Ops: tr.Ops, S0: s0, Snap: snapshotDir(n), Res: res, Trace: tr, Same: true, Counts: map[string]int{}}
	if p.Fault && inject == "" {
		o.Calls = calls
	}
	for _, c := range calls {
		o.Counts[c.Name]++
	}
	for pth, c0 := range s0.Files {
		if pth.Kind != kData {
			continue
		}
		c1, ok := o.Snap.Files[pth]
		if !ok || string(c0) != string(c1) || !o.Snap.MTimes[pth].Equal(s0.MTimes[pth]) {
			o.Same = false
		}
	}
	if fi, err := os.Stat(outPath); err == nil {
		o.OutLeft = fi.Size() == 0
		_ = os.Remove(outPath)
	}
	_ = os.RemoveAll(dir)
	_ = os.Remove(traceFile)
	return o
}

// ---- translation to the model's actions --------------------------------------------------------------
type c11Seg struct{ ordc, ordu, ordi, ordr []int; body map[fsPath][]byte }

func dedupInts(l []int) []int {
	seen := map[int]bool{}
	var out []int
	for _, x := range l {
		if !seen[x] {
			seen[x] = true
			out = append(out, x)
		}
	}
	return out
}

// segments: seg[i] = what happened after the i-th successful lock-file creation of a statement and
// before the next one (seg[0] = before the first)
type c11Retry struct{ tbl, pos int }

// c11Segments also returns the failed read-lock attempts it skipped: create lock(t), close lock(t),
// remove lock(t) directly after one another, with pos = number of lock files made by statements before
func c11Segments(ops []fsOp) ([]c11Seg, []c11Retry) {
	segs := []c11Seg{{body: map[fsPath][]byte{}}}
	var retries []c11Retry
	cur := &segs[0]
	var lastTrunc *fsPath
	for i := 0; i < len(ops); i++ {
		o := ops[i]
		if o.Kind == "create" && o.P.Kind == kLock {
			if i+2 < len(ops) && ops[i+1].Kind == "close" && ops[i+1].P == o.P && ops[i+2].Kind == "remove" && ops[i+2].P == o.P {
				retries = append(retries, c11Retry{o.P.Tbl, len(segs) - 1})
				i += 2
				continue
			}
			segs = append(segs, c11Seg{body: map[fsPath][]byte{}})
			cur = &segs[len(segs)-1]
			lastTrunc = nil
			continue
		}
		switch {
		case o.Kind == "trunc" && o.P.Kind == kData:
			cur.ordc = append(cur.ordc, o.P.Tbl)
			pp := o.P
			lastTrunc = &pp
		case o.Kind == "trunc" && o.P.Kind == kTemp:
			cur.ordu = append(cur.ordu, o.P.Tbl)
			pp := o.P
			lastTrunc = &pp
		case o.Kind == "write":
			if lastTrunc != nil && *lastTrunc == o.P {
				cur.body[o.P] = o.Data
			}
			lastTrunc = nil
		case o.Kind == "remove" && o.P.Kind == kTemp:
			cur.ordi = append(cur.ordi, o.P.Tbl)
		case o.Kind == "close" && o.P.Kind == kData:
			cur.ordr = append(cur.ordr, o.P.Tbl)
		}
	}
	return segs, retries
}

type c11Model struct {
	Blocked bool // the run ends at a statement that waits for a competing holder
	Prog, Fin, Ord string
	Absent, AllNone []int
	Show    []string
}

// translate simulates which statements acquire a lock file (to find the trace segment of every
// COMMIT / ROLLBACK) and renders the actions
func (p *c11Prog) translate(o c11Obs) c11Model {
	segs, retries := c11Segments(o.Ops)
	nRetries := func(t, pos int) int {
		n := 0
		for _, r := range retries {
			if r.tbl == t && r.pos == pos {
				n++
			}
		}
		return n
	}
	nameLen := func(t int) int { return len(p.nameOf(t)) }
	seg := func(i int) c11Seg {
		if i < len(segs) {
			return segs[i]
		}
		return c11Seg{body: map[fsPath][]byte{}}
	}
	var m c11Model
	if p.Syntax {
		m.Prog = "[AError]"
		m.Fin = "ACommit [] [] [] None"
		m.Ord = "[]"
		m.Show = []string{"AError (syntax error: nothing runs)"}
		return m
	}
	exists := map[int]bool{}
	for n := range p.Init {
		exists[p.Tables[n]] = true
	}
	blockedRead, blockedUpd, blockedCreate := map[int]bool{}, map[int]bool{}, map[int]bool{}
	for f, k := range p.Foreign {
		for n, t := range p.Tables {
			if strings.HasPrefix(f, "."+n+".") {
				switch k {
				case "lock":
					blockedRead[t], blockedUpd[t], blockedCreate[t] = true, true, true
				case "rlock":
					blockedUpd[t], blockedCreate[t] = true, true
				case "temp":
					blockedUpd[t] = true
				}
			}
		}
	}
	held, ro := map[int]bool{}, map[int]bool{}
	acq := 0
	type pend struct {
		idx int
		tbl int
		isCreate bool
	}
	var acts []string
	var pending []pend // actions whose body is known only at the next commit
	var createdNow, failedCreate []int
	ended := false
	setBodies := func(s c11Seg) {
		for _, pd := range pending {
			pth := fsPath{Kind: kTemp, Tbl: pd.tbl}
			if p.isNew(pd.tbl) { // tables created by the transaction are written in place
				pth = fsPath{Kind: kData, Tbl: pd.tbl}
			}
			b, seen := s.body[pth]
			if !seen {
				b = []byte("?") // never written in this run: any non-empty payload (an empty one would issue no write call)
			}
			acts[pd.idx] = strings.Replace(acts[pd.idx], "BODY", "("+coqBytes(b)+", "+coqBytes(p.tailOf(pd.tbl))+")", 1)
		}
		pending = nil
	}
	for _, st := range p.Stmts {
		if ended {
			break
		}
		t := st.Tbl
		switch st.Kind {
		case "read", "readerr", "missread":
			if !(held[t] || ro[t]) && exists[t] && !blockedRead[t] {
				// failed attempts to make the read lock (the .rlock name does not fit, or an injected failure)
				if n := nRetries(t, acq); n > 0 {
					acts = append(acts, fmt.Sprintf("ARetryRead %d%%N %d%%nat", t, n))
				}
				if lockTooLong(nameLen(t)) || rlockTooLong(nameLen(t)) {
					acts = append(acts, fmt.Sprintf("ARead %d%%N (Some 0%%nat)", t)) // waits until the timeout
					ended = true
					m.Blocked = true
					break
				}
			}
			acts = append(acts, fmt.Sprintf("ARead %d%%N None", t))
			if !(held[t] || ro[t]) {
				if !exists[t] || blockedRead[t] {
					ended = true
					m.Blocked = exists[t]
					break
				}
				acq++
				ro[t] = true
			}
			if st.Kind == "readerr" {
				acts = append(acts, "AError")
				ended = true
			}
		case "update", "noop", "upderr", "missupd":
			nb := "None"
			if st.Kind == "update" {
				nb = "(Some BODY)"
			}
			if !held[t] && exists[t] && lockTooLong(nameLen(t)) {
				acts = append(acts, fmt.Sprintf("AUpdate %d%%N None (Some 0%%nat)", t)) // the .lock name does not fit: waits until the timeout
				ended = true
				m.Blocked = true
				break
			}
			acts = append(acts, fmt.Sprintf("AUpdate %d%%N %s None", t, nb))
			if st.Kind == "update" {
				pending = append(pending, pend{len(acts) - 1, t, false})
			}
			if !held[t] {
				if !exists[t] || blockedUpd[t] {
					ended = true
					m.Blocked = exists[t]
					break
				}
				acq++
				held[t] = true
				delete(ro, t)
			}
			if st.Kind == "upderr" {
				acts = append(acts, "AError")
				ended = true
			}
		case "create", "createerr":
			f := "None"
			if st.Kind == "createerr" {
				f = "(Some 2%nat)"
			}
			if !exists[t] && !blockedCreate[t] && lockTooLong(nameLen(t)) {
				acts = append(acts, fmt.Sprintf("ACreate %d%%N ([], []) (Some 0%%nat)", t)) // the .lock file cannot be made
				ended = true
				break
			}
			if !exists[t] && !blockedCreate[t] {
				// a held table whose path differs only in case: the lock file and the table file are made,
				// FileContainer.Add refuses ("already opened"), the new handler is released again
				collides := false
				for h := range held {
					if h != t && strings.EqualFold(p.nameOf(h), p.nameOf(t)) {
						collides = true
					}
				}
				if collides {
					acts = append(acts, fmt.Sprintf("ACreate %d%%N ([], []) (Some 2%%nat)", t))
					ended = true
					failedCreate = append(failedCreate, t)
					break
				}
			}
			acts = append(acts, fmt.Sprintf("ACreate %d%%N BODY %s", t, f))
			pending = append(pending, pend{len(acts) - 1, t, true})
			if exists[t] || blockedCreate[t] {
				ended = true
				m.Blocked = !exists[t]
				break
			}
			acq++
			if st.Kind == "createerr" {
				ended = true
				break
			}
			held[t], exists[t] = true, true
			createdNow = append(createdNow, t)
		case "commit":
			s := seg(acq)
			setBodies(s)
			acts = append(acts, fmt.Sprintf("ACommit %s %s %s None", coqNs(dedupInts(s.ordc)), coqNs(dedupInts(s.ordu)), coqNs(dedupInts(s.ordi))))
			held, ro = map[int]bool{}, map[int]bool{}
			createdNow = nil
		case "rollback":
			s := seg(acq)
			setBodies(s)
			acts = append(acts, fmt.Sprintf("ARollback %s", coqNs(dedupInts(s.ordr))))
			for _, c := range createdNow {
				delete(exists, c)
			}
			held, ro = map[int]bool{}, map[int]bool{}
			createdNow = nil
		case "exit":
			acts = append(acts, "AExit")
			ended = true
		}
	}
	last := segs[len(segs)-1] // what the end of the run (auto-COMMIT, deferred release) did
	setBodies(last)
	for i := range acts {
		acts[i] = strings.Replace(acts[i], "BODY", "([63]%N, [])", 1)
	}
	m.Prog = "[" + strings.Join(acts, "; ") + "]"
	m.Fin = fmt.Sprintf("ACommit %s %s %s None", coqNs(dedupInts(last.ordc)), coqNs(dedupInts(last.ordu)), coqNs(dedupInts(last.ordi)))
	m.Ord = coqNs(dedupInts(last.ordr))
	m.Show = acts
	sort.Ints(createdNow)
	if p.Signal != "" || p.Fault {
		m.AllNone = createdNow
	} else if ended {
		m.Absent = append(createdNow, failedCreate...)
	}
	return m
}

var c11RenameOver bool

func (p *c11Prog) coqCase(id int, o c11Obs, m c11Model, readonly bool) string {
	return fmt.Sprintf("mkPC %d%%N (mkCfg "+coqBool(c11RenameOver)+")\n  %s\n  %s\n  (%s) %s %s\n  %s\n  %s\n  %s %s %s %s",
		id, o.S0.coq(), m.Prog, m.Fin, m.Ord, coqBool(p.Signal != "" || p.Fault),
		coqOps(o.Ops), o.Snap.coq(), coqNs(m.Absent), coqNs(m.AllNone), coqBool(readonly), coqBool(o.Same))
}

func runC11(seed int64, tier string, out string) {
	r := rand.New(rand.NewSource(seed))
	meta := newMeta("C11", seed)
	meta.Rule = "programs generated from one seeded PRNG over t1..t3 (existing), n1/n2 (created), nosuch: SELECTs, effective and no-op UPDATE/INSERT/DELETE, CREATE TABLE (+INSERT), COMMIT, ROLLBACK; endings: success, syntax error, missing table (read/update), division by zero inside SELECT / UPDATE / CREATE TABLE AS SELECT, duplicate CREATE, EXIT, wait timeout (-w 0.4) against a hand-made .lock / .rlock / .temp of a competing holder, and SIGINT/SIGTERM/SIGQUIT injected by strace at the N-th call of a system call class (a spread of N in the quick tier, every N in the thorough tier); read-only programs additionally compare bytes and mtimes of every data file. Scenario corpus: ten fixed programs with COMMIT / ROLLBACK in the middle (what is held, released and re-acquired around them). Scenario case: nine fixed programs over A.csv / a.csv / b.csv / B.csv (names that differ only in case: a held table and a CREATE TABLE of its twin, also after SELECT ... FOR UPDATE). Delivery: most programs on the command line, every fifth plain program and every third signalled program through --source FILE, as many through a ./csvqrc preload file with the trivial command line 'SELECT 1' (csvq then runs inside the repository). Scenario longname: tables whose file names have 228..255 bytes, so that .NAME.<12>.rlock (from 236) or .NAME.lock/.NAME.temp (from 250) do not fit into a directory entry, read / updated / created with -w 0.3. Scenario fault: for a read-only program and several updating/creating/committing programs every repository-related openat and every write, ftruncate, renameat and flock is made to fail once (when=N) and from then on (when=N+) with ENOSPC/EACCES/EIO/ENAMETOOLONG by strace; runs with a failing renameat/flock are judged by model-free checks only (no control file left, tables complete old or new, no internal failure), all others also against the model (failure at any step). Each run of build/csvq is one case; it is non-trivial when the run issued at least one mutating call on the repository; distinct = distinct (program, ending, injection point, observed trace) tuples."
	w := &shardWriter{dir: out, prop: "C11", max: 120, meta: meta,
		header: "From Coq Require Import NArith List.\nRequire Import Csvq.Model.Base Csvq.Model.Fs Csvq.Model.Commit Csvq.Model.Cleanup Csvq.Harness.H11.\nOpen Scope list_scope.\n",
		footer: func(ls []string) string {
			return "Definition M := Eval vm_compute in (check_c11 cases).\nPrint M.\n"
		}}
	sc := newScratch()
	defer sc.Close()

	plain := map[string]int{"success": 30, "readonly": 14, "syntax": 3, "missread": 8, "missupd": 8, "readerr": 8, "upderr": 10,
		"createerr": 8, "dupcreate": 10, "exit": 10, "timeout": 30}
	nSig, nSigRO, spread := 10, 4, 10
	if tier == "thorough" {
		for k := range plain {
			plain[k] *= 10
		}
		nSig, nSigRO, spread = 60, 20, 0
	}
	var scen []string
	for k := range plain {
		scen = append(scen, k)
	}
	sort.Strings(scen)
	var progs []*c11Prog
	add := func(p *c11Prog) {
		p.RootDir = sc.Path(fmt.Sprintf("p%d", len(progs)))
		_ = os.MkdirAll(p.RootDir, 0755)
		progs = append(progs, p)
	}
	for _, s := range scen {
		for i := 0; i < plain[s]; i++ {
			p := c11Gen(r, len(progs), s)
			if s != "timeout" && s != "syntax" && r.Intn(6) == 0 {
				p.OutFile = true
			}
			if s != "timeout" && s != "syntax" && s != "exit" {
				c11SetMode(p, []string{"", "", "", "source", "preload"}[i%5])
			}
			add(p)
		}
	}
	for _, p := range c11Corpus(len(progs)) {
		add(p)
	}
	for _, p := range c11CaseCorpus(len(progs)) {
		add(p)
	}
	nLong := 40
	if tier == "thorough" {
		nLong = 400
	}
	for i := 0; i < nLong; i++ {
		add(c11GenLong(r, len(progs)))
	}
	nPlain := len(progs)
	obs := make([]c11Obs, nPlain)
	parallelDo(nPlain, 16, func(i int) { obs[i] = progs[i].run("run", "") })

	// signalled runs: a reference run counts the calls per class, then one run per (signal, class, N)
	type sjob struct {
		p      *c11Prog
		inject string
		sig    string
		tag    string
	}
	var sprogs []*c11Prog
	for i := 0; i < nSig+nSigRO; i++ {
		s := "signal"
		if i >= nSig {
			s = "readonly-signal"
		}
		p := c11Gen(r, nPlain+i, s)
		c11SetMode(p, []string{"", "preload", "source"}[i%3])
		p.RootDir = sc.Path(fmt.Sprintf("s%d", i))
		_ = os.MkdirAll(p.RootDir, 0755)
		sprogs = append(sprogs, p)
	}
	srefs := make([]c11Obs, len(sprogs))
	parallelDo(len(sprogs), 16, func(i int) { srefs[i] = sprogs[i].run("ref", "") })
	classes := []string{"openat", "read", "close", "flock", "newfstatat", "unlinkat", "write", "ftruncate", "renameat", "lseek"}
	sigs := []string{"SIGINT", "SIGTERM", "SIGQUIT"}
	var jobs []sjob
	for i, p := range sprogs {
		for ci, c := range classes {
			total := srefs[i].Counts[c]
			var ns []int
			if spread == 0 || total <= spread {
				for n := 1; n <= total; n++ {
					ns = append(ns, n)
				}
			} else {
				// a fixed number of draws, so that the PRNG stream does not depend on the counts;
				// two thirds of the points in the later half (repository activity is late in the run)
				seen := map[int]bool{}
				for k := 0; k < spread; k++ {
					f := r.Float64()
					if k%3 > 0 {
						f = 0.5 + f/2
					}
					n := 1 + int(f*float64(total))
					if n > total {
						n = total
					}
					if !seen[n] {
						seen[n] = true
						ns = append(ns, n)
					}
				}
			}
			for _, n := range ns {
				sig := sigs[(ci+n)%3]
				jobs = append(jobs, sjob{p, fmt.Sprintf("%s:signal=%s:when=%d", c, sig, n), sig, fmt.Sprintf("%s_%d", c, n)})
			}
		}
	}
	sobs := make([]c11Obs, len(jobs))
	var mu sync.Mutex
	parallelDo(len(jobs), 16, func(j int) {
		q := *jobs[j].p
		q.Signal, q.Inject = jobs[j].sig, jobs[j].inject
		ob := q.run(jobs[j].tag, jobs[j].inject)
		mu.Lock()
		ob.P = &q
		sobs[j] = ob
		mu.Unlock()
	})
	all := append(append([]c11Obs{}, obs...), srefs...)
	all = append(all, sobs...)

	// failing system calls: a reference run lists the calls, then one run per (class, N, once|from N on)
	nFault, fcap := 5, 10
	if tier == "thorough" {
		nFault, fcap = 16, 0
	}
	var fprogs []*c11Prog
	for i := 0; i < nFault; i++ {
		sc11 := "success"
		if i == 0 {
			sc11 = "readonly"
		}
		p := c11Gen(r, nPlain+len(sprogs)+i, sc11)
		p.Scenario = "fault"
		p.Fault = true
		p.Args = append(p.Args, "-w", "0.3")
		p.RootDir = sc.Path(fmt.Sprintf("f%d", i))
		_ = os.MkdirAll(p.RootDir, 0755)
		fprogs = append(fprogs, p)
	}
	frefs := make([]c11Obs, len(fprogs))
	parallelDo(len(fprogs), 16, func(i int) { frefs[i] = fprogs[i].run("ref", "") })
	fclasses := []string{"openat", "write", "ftruncate", "renameat", "flock"}
	errnos := []string{"ENOSPC", "EACCES", "EIO", "ENAMETOOLONG"}
	type fjob struct {
		p      *c11Prog
		ref    int
		inject string
		tag    string
	}
	var fjobs []fjob
	for i, p := range fprogs {
		repo := filepath.Join(p.RootDir, "ref")
		for ci, c := range fclasses {
			first, total := 0, 0
			for _, call := range frefs[i].Calls {
				if call.Name != c {
					continue
				}
				total++
				if first == 0 {
					if c != "openat" {
						first = total
					} else if strs, _ := hexStrings(call.Args); len(strs) > 0 && strings.HasPrefix(strs[0], repo) {
						first = total
					}
				}
			}
			if first == 0 {
				continue
			}
			var ns []int
			for n := first; n <= total; n++ {
				ns = append(ns, n)
			}
			if fcap > 0 && len(ns) > fcap { // an even spread that keeps both ends
				var sel []int
				for k := 0; k < fcap; k++ {
					sel = append(sel, ns[k*(len(ns)-1)/(fcap-1)])
				}
				ns = dedupInts(sel)
			}
			for _, n := range ns {
				e := errnos[(ci+n)%len(errnos)]
				fjobs = append(fjobs, fjob{p, i, fmt.Sprintf("%s:error=%s:when=%d", c, e, n), fmt.Sprintf("%s_%d_once", c, n)})
				fjobs = append(fjobs, fjob{p, i, fmt.Sprintf("%s:error=%s:when=%d+", c, e, n), fmt.Sprintf("%s_%d_on", c, n)})
			}
		}
	}
	fobs := make([]c11Obs, len(fjobs))
	parallelDo(len(fjobs), 16, func(j int) {
		q := *fjobs[j].p
		q.Inject = fjobs[j].inject
		ob := q.run(fjobs[j].tag, fjobs[j].inject)
		mu.Lock()
		ob.P = &q
		fobs[j] = ob
		mu.Unlock()
	})
	all = append(all, frefs...)
	// checks that need no model: whatever call failed, csvq must not fail internally, every table that
	// existed holds its complete old or complete new contents, a created table is absent or complete;
	// runs in which a renameat or flock was made to fail are outside the model (Cleanup.v assumes that
	// renaming / locking a file the process holds succeeds) and are judged here only
	for j, o := range fobs {
		p := o.P
		ref := frefs[fjobs[j].ref]
		cinfo := map[string]interface{}{"program": p.text(), "args": p.Args, "inject": p.Inject, "calls_made_to_fail": o.Trace.Injected,
			"observed_calls": showOps(o.Ops), "directory_found": o.Snap.show(), "exit": o.Res.Code, "stderr": o.Res.Stderr[:minInt(300, len(o.Res.Stderr))]}
		if m := internalFailure(o.Res); m != "" && m != "timeout" {
			meta.Direct = append(meta.Direct, DirectViolation{Key: "fault-internal-failure", What: "a failing system call made csvq fail internally (" + m + ")", Case: cinfo})
		}
		for pth, c := range o.Snap.Files {
			if pth.Kind != kData {
				continue
			}
			if string(c) != string(ref.Snap.Files[pth]) && (p.isNew(pth.Tbl) || string(c) != string(o.S0.Files[pth])) {
				meta.Direct = append(meta.Direct, DirectViolation{Key: "fault-table-incomplete", What: fmt.Sprintf("after a failing system call table %s holds neither its complete old nor its complete new contents", p.nameOf(pth.Tbl)), Case: cinfo})
			}
		}
		for pth := range o.S0.Files {
			if _, ok := o.Snap.Files[pth]; !ok && pth.Kind == kData {
				meta.Direct = append(meta.Direct, DirectViolation{Key: "fault-table-lost", What: fmt.Sprintf("after a failing system call table %s does not exist any more", p.nameOf(pth.Tbl)), Case: cinfo})
			}
		}
		class := strings.SplitN(p.Inject, ":", 2)[0]
		goOnly := (class == "renameat" || class == "flock") && len(o.Trace.Injected) > 0
		meta.Distribution["failing call: "+class]++
		if !goOnly {
			all = append(all, o)
			continue
		}
		meta.Evaluations++
		meta.Distribution["judged without the model (failing "+class+")"]++
		for pth := range o.Snap.Files {
			if _, was := o.S0.Files[pth]; pth.Kind != kData && !was {
				key, what := "fault-leftover-control-file", "after a failing "+class
				if class == "flock" {
					// locking a file that was just made fails (go-file Create = open + flock), or unlocking
					// before the close fails (go-file Close = flock(LOCK_UN) + close): different call sites
					key, what = "flock-failure-leaves-control-file", "after a failing flock(LOCK_EX|LOCK_SH) on a file that had just been made"
					for _, ic := range o.Trace.Injected {
						if strings.HasPrefix(ic, "flock(LOCK_UN)") {
							key, what = "unlock-failure-leaves-control-file", "after a failing flock(LOCK_UN) (the unlock go-file does before it closes a file)"
						}
					}
				}
				meta.Direct = append(meta.Direct, DirectViolation{Key: key, What: fmt.Sprintf("%s the run left the control file %s behind", what, pth), Case: cinfo})
				break
			}
		}
	}

	// which COMMIT variant does the tree implement?  rename over the table (repaired) unless some run
	// removes a table file directly before renaming its temporary file to the same path
	c11RenameOver = true
	for _, o := range all {
		for k := 1; k < len(o.Ops); k++ {
			if o.Ops[k].Kind == "rename" && o.Ops[k-1].Kind == "remove" && o.Ops[k-1].P == o.Ops[k].Q {
				c11RenameOver = false
			}
		}
	}
	meta.Notes = append(meta.Notes, fmt.Sprintf("COMMIT variant detected from the traces: rename_over=%v", c11RenameOver))

	distinct := map[string]bool{}
	id := 0
	for _, o := range all {
		p := o.P
		if len(o.Trace.Strange) > 0 || len(o.Trace.OtherMut) > 0 || len(o.Snap.Unknown) > 0 || o.Res.TimedOut {
			meta.Direct = append(meta.Direct, DirectViolation{Key: "trace-not-understood",
				What: fmt.Sprintf("a run issued calls on the repository outside the model's vocabulary, left an unknown file, or hung: %v %v; unknown files %v; timed out %v", o.Trace.Strange, o.Trace.OtherMut, o.Snap.Unknown, o.Res.TimedOut),
				Case: map[string]interface{}{"program": p.text(), "args": p.Args, "inject": p.Inject}})
			continue
		}
		if o.OutLeft {
			// --out FILE must not survive a run that wrote nothing to it
			meta.Direct = append(meta.Direct, DirectViolation{Key: "out-file-left",
				What: "a run that wrote nothing to its --out file left the empty file behind",
				Case: map[string]interface{}{"program": p.text(), "args": p.Args}})
		}
		readonly := true
		for _, st := range p.Stmts {
			switch st.Kind {
			case "read", "readerr", "missread", "exit":
			default:
				readonly = false
			}
		}
		m := p.translate(o)
		// a wall-clock stall under load can make an unblocked acquisition hit the (short) wait timeout
		// of the timeout scenario; only timeouts the directory explains are modelled: such a run is
		// repeated (a genuine, repeatable spurious timeout is still reported)
		for try := 0; try < 2 && !m.Blocked && !p.Fault && (strings.Contains(o.Res.Stderr, "deadline exceeded") || strings.Contains(o.Res.Stderr, "timeout")); try++ {
			meta.Distribution["repeated after an unexplained wait timeout"]++
			o = p.run(fmt.Sprintf("retry%d", try), p.Inject)
			o.P = p
			m = p.translate(o)
		}
		w.add("cases:pcase", p.coqCase(id, o, m, readonly))
		ending := p.Scenario
		if p.Signal != "" {
			ending = p.Scenario + " " + p.Signal
		}
		if p.Fault && p.Inject != "" {
			ending = "failing " + strings.SplitN(p.Inject, ":", 2)[0]
		}
		delivery := map[string]string{"": "command line", "source": "--source FILE", "preload": "./csvqrc preload file + command line 'SELECT 1;'"}[p.Mode]
		meta.Distribution["delivery: "+delivery]++
		c := map[string]interface{}{"scenario": ending, "program": p.text(), "delivery": delivery, "args": p.Args, "competing_holder_files": p.Foreign,
			"inject": p.Inject, "calls_made_to_fail": o.Trace.Injected, "actions": m.Show, "observed_calls": showOps(o.Ops), "directory_before": o.S0.show(),
			"directory_found": o.Snap.show(), "exit": o.Res.Code, "stderr": o.Res.Stderr[:minInt(200, len(o.Res.Stderr))],
			"data_files_bytes_and_mtimes_unchanged": o.Same}
		meta.Cases[fmt.Sprint(id)] = c
		id++
		meta.Evaluations++
		meta.Distribution["ending: "+ending]++
		if readonly {
			meta.Distribution["read-only programs"]++
		}
		if p.Signal != "" {
			meta.Distribution["signal at "+strings.SplitN(p.Inject, ":", 2)[0]]++
		}
		if len(o.Ops) > 0 {
			distinct[fmt.Sprintf("%d|%s|%s|%v", p.Id, ending, p.Inject, showOps(o.Ops))] = true
		}
		if len(meta.Samples) < 4 && len(o.Ops) > 3 && (len(meta.Samples) == 0 || p.Scenario == "timeout" && len(meta.Samples) == 1 || p.Signal != "" && len(meta.Samples) == 2 || p.Scenario == "upderr") {
			meta.Samples = append(meta.Samples, c)
		}
	}
	w.flush()
	meta.Distinct = len(distinct)
	meta.write(out)
}
