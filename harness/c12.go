package main

// C12: results are a function of the inputs -- independent of --cpu, scheduling and run.
//
// Part A (model correspondence, evaluated inside Coq): GoroutineTaskManager.RecordRange,
// GoroutineManager.AssignRoutineNumber, the NewGoroutineTaskManager/Done life cycle on the shared
// counter and CalcMinimumRequired are called directly and compared with Model/Par.v.
// Part B (end to end, compared here): generated programs are run with the real binary under
// --cpu 1,2,3,4,8,16 and several repetitions; stdout, exit code and every file of the repository
// directory must be byte-identical to the --cpu 1 run.

import (
	"fmt"
	"math/rand"
	"os"
	"path/filepath"
	"sort"
	"strings"
	"sync"
	"time"

	"github.com/mithrandie/csvq/lib/query"
)

func init() { runners["C12"] = runC12 }

// ---- part A ----------------------------------------------------------------------------------------
func c12Ranges(length, n int) []int {
	tm := query.NewGoroutineTaskManager(length, -1, 1) // Number = 1, nothing taken from the shared budget
	tm.Number = n
	out := make([]int, 0, 2*n)
	for i := 0; i < n; i++ {
		s, e := tm.RecordRange(i)
		out = append(out, s, e)
	}
	return out
}

func coqZs(xs []int) string {
	ss := make([]string, len(xs))
	for i, x := range xs {
		if x < 0 {
			ss[i] = fmt.Sprintf("(%d)", x)
		} else {
			ss[i] = fmt.Sprint(x)
		}
	}
	return "[" + strings.Join(ss, ";") + "]%Z"
}

func zz(x int) string {
	if x < 0 {
		return fmt.Sprintf("(%d)%%Z", x)
	}
	return fmt.Sprintf("%d%%Z", x)
}

func c12PartA(r *rand.Rand, tier string, w *shardWriter, meta *Meta, id *int) {
	// RecordRange grid
	lens := map[int]bool{}
	maxLen, maxN := 3000, 32
	if tier == "thorough" {
		for l := 0; l <= maxLen; l++ {
			lens[l] = true
		}
	} else {
		for l := 0; l <= 200; l++ {
			lens[l] = true
		}
		for _, b := range []int{239, 240, 241, 319, 320, 321, 479, 480, 639, 640, 641, 799, 800, 959, 960, 961, 1279, 1280, 1281, 1599, 1600, 2047, 2048, 2559, 2560, 2561, 2999, 3000} {
			lens[b] = true
		}
		for i := 0; i < 40; i++ {
			lens[201+r.Intn(maxLen-200)] = true
		}
	}
	ls := make([]int, 0, len(lens))
	for l := range lens {
		ls = append(ls, l)
	}
	sort.Ints(ls)
	shapes := map[string]bool{}
	for _, l := range ls {
		for n := 1; n <= maxN; n++ {
			obs := c12Ranges(l, n)
			w.add("rcases:rcase", fmt.Sprintf("mkR %s %s %s %s", coqN(*id), zz(l), zz(n), coqZs(obs)))
			c := fmt.Sprintf("RecordRange: recordLen=%d Number=%d observed (start,end) pairs %v", l, n, obs)
			meta.Cases[fmt.Sprint(*id)] = c
			if len(meta.Samples) < 2 && l == 163 && (n == 2 || n == 5) {
				meta.Samples = append(meta.Samples, c)
			}
			meta.Evaluations++
			switch {
			case l < n:
				meta.Distribution["ranges:len<n (calc=0 branch)"]++
			case l%n == 0:
				meta.Distribution["ranges:len multiple of n"]++
			default:
				meta.Distribution["ranges:len not a multiple of n"]++
			}
			if n > 1 && l > 0 {
				shapes[fmt.Sprintf("%d/%d", l, n)] = true
			}
			*id++
		}
	}
	meta.Distribution["distinct:ranges"] = len(shapes)

	// AssignRoutineNumber on a private manager
	alens := []int{0, 1, 79, 80, 81, 159, 160, 161, 239, 240, 300, 449, 450, 799, 800, 1279, 1280, 2000, 2400, 3000, 100000, 1 << 31}
	amins := []int{-1, 0, 1, 7, 80, 150, 1000}
	acpus := []int{1, 2, 3, 4, 8, 16, 64, 0, -2}
	aruns := []int{0, 1, 2, 3, 7, 15, 16, 40}
	asig := map[string]bool{}
	doAssign := func(l, mn, cpu, run int) {
		m := &query.GoroutineManager{Count: run, CountMutex: &sync.Mutex{}, MinimumRequiredPerCore: query.MinimumRequiredPerCPUCore}
		n := m.AssignRoutineNumber(l, mn, cpu)
		w.add("acases:acase", fmt.Sprintf("mkA %s %s %s %s %s %s %s", coqN(*id), zz(l), zz(mn), zz(cpu), zz(run), zz(n), zz(m.Count)))
		c := fmt.Sprintf("AssignRoutineNumber(recordLen=%d, minimumRequiredPerCore=%d, cpuNum=%d) with Count=%d -> %d, Count=%d", l, mn, cpu, run, n, m.Count)
		meta.Cases[fmt.Sprint(*id)] = c
		if len(meta.Samples) < 3 && l == 2000 && mn == -1 && cpu == 8 && run == 3 {
			meta.Samples = append(meta.Samples, c)
		}
		meta.Evaluations++
		meta.Distribution[fmt.Sprintf("assign:number=%s", c12Bucket(n))]++
		asig[fmt.Sprintf("%d|%d|%d|%d", l/80, mn, cpu, run)] = true
		*id++
	}
	for _, l := range alens {
		for _, mn := range amins {
			for _, cpu := range acpus {
				for _, run := range aruns {
					if tier != "thorough" && (l+mn+cpu+run)%3 != 0 {
						continue
					}
					doAssign(l, mn, cpu, run)
				}
			}
		}
	}
	nr := 600
	if tier == "thorough" {
		nr = 6000
	}
	for i := 0; i < nr; i++ {
		doAssign(r.Intn(4000), []int{-1, -1, 1 + r.Intn(300)}[r.Intn(3)], 1+r.Intn(32), r.Intn(20))
	}
	meta.Distribution["distinct:assign"] = len(asig)

	// life cycle through the package-level manager (the one the query pipeline uses)
	g := query.GetGoroutineManager()
	nl := 300
	if tier == "thorough" {
		nl = 3000
	}
	for i := 0; i < nl; i++ {
		l, mn, cpu, run := r.Intn(3000), []int{-1, -1, 1 + r.Intn(200)}[r.Intn(3)], 1+r.Intn(16), r.Intn(12)
		g.CountMutex.Lock()
		g.Count = run
		g.CountMutex.Unlock()
		tm := query.NewGoroutineTaskManager(l, mn, cpu)
		mid := g.Count
		if 1 < tm.Number {
			for k := 0; k < tm.Number; k++ {
				tm.Add()
				tm.Done()
			}
		}
		end := g.Count
		g.CountMutex.Lock()
		g.Count = 0
		g.CountMutex.Unlock()
		w.add("lcases:lcase", fmt.Sprintf("mkL %s %s %s %s %s %s %s %s", coqN(*id), zz(l), zz(mn), zz(cpu), zz(run), zz(tm.Number), zz(mid), zz(end)))
		meta.Cases[fmt.Sprint(*id)] = fmt.Sprintf("NewGoroutineTaskManager(%d,%d,%d) with shared Count=%d -> Number=%d, Count=%d; after %d Done calls Count=%d", l, mn, cpu, run, tm.Number, mid, tm.Number, end)
		meta.Evaluations++
		meta.Distribution["lifecycle"]++
		*id++
	}

	// CalcMinimumRequired
	doMin := func(i1, i2, d int) {
		obs := query.CalcMinimumRequired(i1, i2, d)
		w.add("mcases:mcase", fmt.Sprintf("mkM %s %s %s %s %s", coqN(*id), zz(i1), zz(i2), zz(d), zz(obs)))
		meta.Cases[fmt.Sprint(*id)] = fmt.Sprintf("CalcMinimumRequired(%d,%d,%d) -> %d", i1, i2, d, obs)
		meta.Evaluations++
		meta.Distribution["calc-minimum-required"]++
		*id++
	}
	for i1 := 0; i1 <= 40; i1++ {
		for i2 := 0; i2 <= 40; i2++ {
			if tier == "thorough" || (i1*7+i2)%4 == 0 {
				doMin(i1, i2, query.MinimumRequiredPerCPUCore)
			}
		}
	}
	for i := 0; i < nr; i++ {
		doMin(r.Intn(5000), r.Intn(5000), []int{80, 80, 1 + r.Intn(200)}[r.Intn(3)])
	}
}

func c12Bucket(n int) string {
	switch {
	case n < 1:
		return "<1"
	case n == 1:
		return "1"
	case n <= 4:
		return "2-4"
	case n <= 16:
		return "5-16"
	}
	return ">16"
}

// ---- part B: tables ----------------------------------------------------------------------------------
type c12Table struct {
	Name string
	Size int
}

var c12Words = []string{"apple", "bob", "cat", "dog", "a b", "Zed", "été", "x,y", "q\"t", "42", "4.5", "true", "2012-02-03"}

func c12WriteTable(dir string, name string, size int, seed int64, keyDomain int) {
	r := rand.New(rand.NewSource(seed))
	var b strings.Builder
	b.WriteString("id,k,v,f,s,n\n")
	for i := 0; i < size; i++ {
		s := c12Words[r.Intn(len(c12Words))]
		n := ""
		switch r.Intn(4) {
		case 0:
			n = fmt.Sprint(r.Intn(5))
		case 1:
			n = "\"" + c12Words[r.Intn(4)] + "\""
		}
		fmt.Fprintf(&b, "%d,%d,%d,%.3f,\"%s\",%s\n", i, r.Intn(keyDomain), r.Intn(201)-100, r.Float64()*1000-500, strings.ReplaceAll(s, `"`, `""`), n)
	}
	if err := os.WriteFile(filepath.Join(dir, name+".csv"), []byte(b.String()), 0644); err != nil {
		panic(err)
	}
}

func c12WriteOtherFormats(dir string, size int, seed int64) {
	r := rand.New(rand.NewSource(seed))
	var l, j strings.Builder
	for i := 0; i < size; i++ {
		k, v := r.Intn(9), r.Intn(100)
		// LTSV: some records lack the last labels (padded by the loader in parallel)
		fmt.Fprintf(&l, "id:%d\tk:%d", i, k)
		if i == 0 || r.Intn(3) > 0 {
			fmt.Fprintf(&l, "\tv:%d", v)
		}
		if i == 0 || r.Intn(4) == 0 {
			fmt.Fprintf(&l, "\tw:%s", c12Words[r.Intn(4)])
		}
		l.WriteString("\n")
		if r.Intn(3) > 0 {
			fmt.Fprintf(&j, "{\"id\":%d,\"k\":%d,\"v\":%d}", i, k, v)
		} else {
			fmt.Fprintf(&j, "{\"id\":%d,\"k\":%d,\"w\":\"%s\"}", i, k, c12Words[r.Intn(4)])
		}
		if i < size-1 {
			j.WriteString("\n")
		}
	}
	_ = os.WriteFile(filepath.Join(dir, fmt.Sprintf("l%d.ltsv", size)), []byte(l.String()), 0644)
	_ = os.WriteFile(filepath.Join(dir, fmt.Sprintf("j%d.jsonl", size)), []byte(j.String()), 0644)
}

// ---- part B: programs --------------------------------------------------------------------------------
type c12Program struct {
	ID     int      `json:"id"`
	Class  string   `json:"class"`
	Stream string   `json:"stream"` // general | group-by-order-cpu | replace-map-order
	SQL    string   `json:"sql"`
	Writes bool     `json:"writes"`
	Tables []string `json:"tables"`
}

type c12Gen struct {
	r      *rand.Rand
	big    []c12Table // single-table sizes straddling 80*k
	small  []c12Table // join operands
	others []int      // sizes of ltsv/jsonl files
}

func (g *c12Gen) bigT() c12Table           { return g.big[g.r.Intn(len(g.big))] }
func (g *c12Gen) smallT() c12Table         { return g.small[g.r.Intn(len(g.small))] }
func (g *c12Gen) pick(xs ...string) string { return xs[g.r.Intn(len(xs))] }

func (g *c12Gen) pred(alias string) string {
	p := alias
	if p != "" {
		p += "."
	}
	atoms := []string{
		fmt.Sprintf("%sv %% %d = %d", p, 2+g.r.Intn(5), g.r.Intn(2)),
		fmt.Sprintf("%sk IN (%d, %d, %d)", p, g.r.Intn(12), g.r.Intn(12), g.r.Intn(12)),
		fmt.Sprintf("%sv BETWEEN %d AND %d", p, -g.r.Intn(60), g.r.Intn(60)),
		fmt.Sprintf("%sf > %d.5", p, g.r.Intn(400)-200),
		fmt.Sprintf("%ss LIKE '%s%%'", p, g.pick("a", "b", "c", "d", "Z")),
		fmt.Sprintf("%sn IS NULL", p),
		fmt.Sprintf("%sn IS NOT NULL", p),
		fmt.Sprintf("%sid %% %d <> 0", p, 2+g.r.Intn(7)),
		fmt.Sprintf("%ss = '%s'", p, c12Words[g.r.Intn(len(c12Words)-2)]),
		fmt.Sprintf("%sn = %d", p, g.r.Intn(5)),
	}
	a := atoms[g.r.Intn(len(atoms))]
	switch g.r.Intn(4) {
	case 0:
		return a + " AND " + atoms[g.r.Intn(len(atoms))]
	case 1:
		return "(" + a + " OR " + atoms[g.r.Intn(len(atoms))] + ")"
	case 2:
		return "NOT (" + a + ")"
	}
	return a
}

func (g *c12Gen) program(class string) c12Program {
	t := g.bigT()
	p := c12Program{Class: class, Stream: "general", Tables: []string{t.Name}}
	switch class {
	case "where":
		p.SQL = fmt.Sprintf("SELECT id, k, v * 2 AS w, s FROM %s WHERE %s", t.Name, g.pred(""))
	case "where-error":
		p.SQL = fmt.Sprintf("SELECT id FROM %s WHERE 100 / (id - %d) > 0", t.Name, t.Size/2+g.r.Intn(t.Size/4+1))
	case "order":
		p.SQL = fmt.Sprintf("SELECT id, k, v, s FROM %s WHERE %s ORDER BY %s", t.Name, g.pred(""),
			g.pick("k, v DESC, id", "s NULLS LAST, id", "n, f", "v", "k DESC", "f DESC LIMIT 37", "k, id LIMIT 50 OFFSET 80", "s, v LIMIT 10 PERCENT"))
	case "distinct":
		p.SQL = fmt.Sprintf("SELECT DISTINCT %s FROM %s", g.pick("k", "k, n", "s", "n, s", "v % 7"), t.Name)
	case "aggregate-all":
		p.SQL = fmt.Sprintf("SELECT COUNT(*), SUM(v), AVG(f), MIN(s), MAX(v), MEDIAN(v), COUNT(DISTINCT k) FROM %s WHERE %s", t.Name, g.pred(""))
	case "group-ordered", "group-ordered-incomparable":
		// ORDER BY over keys that are totally ordered (integers, NULL, plain words) pins the result;
		// the column s also holds datetime-, boolean- and number-like texts, which csvq's sort
		// treats as mutually incomparable: the sorted result then still depends on the order in
		// which the groups arrived (same root cause as the unordered GROUP BY, same stream)
		key := g.pick("k", "k, n")
		if class == "group-ordered-incomparable" {
			key = g.pick("s", "n, s")
			p.Stream = "group-by-order-cpu"
		}
		p.SQL = fmt.Sprintf("SELECT %s, COUNT(*) AS c, SUM(v) AS sv, AVG(f) AS af, MIN(id) AS mi, LISTAGG(id, ':') AS l FROM %s GROUP BY %s%s ORDER BY %s",
			key, t.Name, key, g.pick("", " HAVING COUNT(*) > 3"), key)
	case "distinct-aggregates-then-keys":
		// aggregates with DISTINCT build comparison keys through the pooled key buffers; what follows in the same
		// process (or, with hundreds of groups, runs at the same time) builds keys in several goroutines
		if g.r.Intn(2) == 0 {
			p.Writes = true
			p.SQL = fmt.Sprintf("SELECT COUNT(DISTINCT k), COUNT(DISTINCT s) FROM %s; SELECT k, COUNT(*) AS c FROM %s GROUP BY k ORDER BY k; SELECT DISTINCT n, s FROM %s ORDER BY n, s; CREATE TABLE `out.csv` AS SELECT k, n, COUNT(*) AS c FROM %s GROUP BY k, n ORDER BY k, n",
				t.Name, t.Name, t.Name, t.Name)
		} else {
			p.SQL = fmt.Sprintf("SELECT id %% 400 AS g, COUNT(DISTINCT k) AS dk, LISTAGG(DISTINCT s, '|') WITHIN GROUP (ORDER BY s) AS ls, SUM(DISTINCT v) AS sv FROM %s GROUP BY id %% 400 ORDER BY g", t.Name)
		}
	case "group":
		key := g.pick("k", "k, n", "s", "n, s")
		p.SQL = fmt.Sprintf("SELECT %s, COUNT(*) AS c, SUM(v) AS sv, MIN(id) AS mi FROM %s GROUP BY %s", key, t.Name, key)
		p.Stream = "group-by-order-cpu"
	case "join":
		a, b := g.smallT(), g.smallT()
		p.Tables = []string{a.Name, b.Name}
		kind := g.pick("JOIN", "LEFT JOIN", "RIGHT JOIN", "FULL JOIN", "CROSS JOIN")
		switch {
		case kind == "CROSS JOIN":
			p.SQL = fmt.Sprintf("SELECT a.id, b.id, a.v + b.v AS w FROM %s a CROSS JOIN %s b WHERE %s", a.Name, b.Name, g.pred("a"))
		case g.r.Intn(4) == 0 && kind != "FULL JOIN":
			p.SQL = fmt.Sprintf("SELECT id, a.v, b.v, b.s FROM %s a %s %s b USING (id)", a.Name, kind, b.Name)
		default:
			p.SQL = fmt.Sprintf("SELECT a.id, a.k, b.id, b.s FROM %s a %s %s b ON %s AND %s", a.Name, kind, b.Name,
				g.pick("a.k = b.k", "a.v = b.v", "a.id = b.v", "a.k = b.k AND a.v < b.v", "a.s = b.s"), g.pred("b"))
		}
	case "join-big":
		b := g.smallT()
		p.Tables = []string{t.Name, b.Name}
		p.SQL = fmt.Sprintf("SELECT a.id, b.id, b.f FROM %s a %s %s b ON a.v = b.v AND a.k = b.k", t.Name, g.pick("JOIN", "LEFT JOIN", "RIGHT JOIN", "FULL JOIN"), b.Name)
	case "lateral":
		b := g.smallT()
		p.Stream = "subquery-outer-cache"
		p.Tables = []string{t.Name, b.Name}
		p.SQL = fmt.Sprintf("SELECT a.id, x.c, x.m FROM %s a CROSS JOIN LATERAL (SELECT COUNT(*) AS c, MAX(b.v) AS m FROM %s b WHERE b.k = a.k AND b.v < a.v) x", t.Name, b.Name)
	case "subquery":
		b := g.smallT()
		p.Tables = []string{t.Name, b.Name}
		switch g.r.Intn(4) {
		case 0:
			p.SQL = fmt.Sprintf("SELECT id, v FROM %s WHERE v IN (SELECT v FROM %s WHERE %s)", t.Name, b.Name, g.pred(""))
		case 3:
			// an inline table is never cached: every record's evaluation opens the file again, from several goroutines
			p.SQL = fmt.Sprintf("SELECT id, v FROM %s WHERE k IN (SELECT k FROM CSV_INLINE(',', `%s.csv`) WHERE %s)", t.Name, b.Name, g.pred(""))
		case 1:
			p.Stream = "subquery-outer-cache"
			p.SQL = fmt.Sprintf("SELECT a.id FROM %s a WHERE EXISTS (SELECT 1 FROM %s b WHERE b.v = a.v AND b.k = a.k)", t.Name, b.Name)
		default:
			p.Stream = "subquery-outer-cache"
			p.SQL = fmt.Sprintf("SELECT a.id, (SELECT COUNT(*) FROM %s b WHERE b.k = a.k) AS c FROM %s a WHERE %s", b.Name, t.Name, g.pred("a"))
		}
	case "subquery-many-refs":
		// several references to the outer record from an inner query that is itself split over
		// goroutines: the outer record's field-index cache is shared by them (F-C13-4)
		p.Stream = "subquery-outer-cache"
		p.Tables = []string{"s40", t.Name}
		p.SQL = fmt.Sprintf("SELECT a.id, (SELECT COUNT(*) FROM %s b WHERE b.v = a.v OR b.k = a.k OR b.id = a.id OR b.s = a.s OR b.f = a.f OR b.n = a.n) AS c FROM s40 a", t.Name)
	case "analytic":
		fn := g.pick("ROW_NUMBER() OVER (PARTITION BY k ORDER BY v, id)", "RANK() OVER (PARTITION BY k ORDER BY v)", "DENSE_RANK() OVER (ORDER BY k)",
			"SUM(v) OVER (PARTITION BY k)", "AVG(f) OVER (PARTITION BY s)", "LAG(v) OVER (PARTITION BY k ORDER BY id)", "FIRST_VALUE(id) OVER (PARTITION BY n ORDER BY v, id)",
			"NTILE(4) OVER (PARTITION BY k ORDER BY id)", "SUM(v) OVER (PARTITION BY k ORDER BY id ROWS BETWEEN 2 PRECEDING AND CURRENT ROW)", "CUME_DIST() OVER (PARTITION BY k ORDER BY v)",
			// arguments that are evaluated without a current record must not see whatever record the goroutine handled last
			"LAG(v, 1, n) OVER (PARTITION BY k ORDER BY id)", "LEAD(s, 2, k) OVER (PARTITION BY n ORDER BY id)", "NTH_VALUE(v, 2) OVER (PARTITION BY k ORDER BY id)",
			"LISTAGG(s, '/') OVER (PARTITION BY k ORDER BY id)", "COUNT(DISTINCT v) OVER (PARTITION BY n)")
		fn2 := g.pick("", ", MAX(v) OVER (PARTITION BY n) AS m2", ", ROW_NUMBER() OVER (ORDER BY id DESC) AS r2")
		p.SQL = fmt.Sprintf("SELECT id, k, %s AS a1%s FROM %s WHERE %s", fn, fn2, t.Name, g.pred(""))
	case "analytic-ties":
		// several analytic functions whose ORDER BY keys tie: each one sorts the view, so the order in which
		// the functions of the list are evaluated shows in the values (finding analytic-function-map-order)
		fns := []string{"NTILE(4) OVER (ORDER BY k % 2)", "ROW_NUMBER() OVER (ORDER BY n % 3)", "PERCENT_RANK() OVER (ORDER BY v - v)", "JSON_AGG(v) OVER (ORDER BY s = s)",
			"FIRST_VALUE(id) OVER (ORDER BY k % 3)", "LAG(id) OVER (ORDER BY n % 2)", "NTILE(3) OVER (PARTITION BY k % 2 ORDER BY v % 2)", "CUME_DIST() OVER (ORDER BY k % 4)"}
		g.r.Shuffle(len(fns), func(i, j int) { fns[i], fns[j] = fns[j], fns[i] })
		n := 3 + g.r.Intn(3)
		var items []string
		for i, f := range fns[:n] {
			items = append(items, fmt.Sprintf("%s AS a%d", f, i))
		}
		p.SQL = fmt.Sprintf("SELECT %s FROM %s WHERE %s", strings.Join(items, ", "), t.Name, g.pred(""))
	case "setop":
		u := g.bigT()
		p.Tables = []string{t.Name, u.Name}
		p.SQL = fmt.Sprintf("SELECT k, v FROM %s WHERE %s %s SELECT k, v FROM %s WHERE %s", t.Name, g.pred(""), g.pick("UNION", "UNION ALL", "EXCEPT", "INTERSECT"), u.Name, g.pred(""))
	case "ltsv":
		n := g.others[g.r.Intn(len(g.others))]
		p.Tables = []string{fmt.Sprintf("l%d.ltsv", n)}
		p.SQL = fmt.Sprintf("SELECT id, k, v, w FROM `l%d.ltsv` WHERE %s", n, g.pick("k < 5", "v IS NULL", "w IS NOT NULL OR id % 3 = 0"))
	case "jsonl":
		n := g.others[g.r.Intn(len(g.others))]
		p.Tables = []string{fmt.Sprintf("j%d.jsonl", n)}
		p.SQL = fmt.Sprintf("SELECT id, k, v, w FROM `j%d.jsonl` WHERE %s", n, g.pick("k < 5", "v IS NULL", "w IS NOT NULL OR id % 3 = 0"))
	case "insert-select":
		u := g.bigT()
		p.Tables = []string{t.Name, u.Name}
		p.Writes = true
		p.SQL = fmt.Sprintf("INSERT INTO %s SELECT id + 100000, k, v, f, s, n FROM %s WHERE %s; SELECT COUNT(*) FROM %s", t.Name, u.Name, g.pred(""), t.Name)
	case "update":
		p.Writes = true
		p.SQL = fmt.Sprintf("UPDATE %s SET v = v + %d, s = s || '!' WHERE %s", t.Name, 1+g.r.Intn(9), g.pred(""))
	case "delete":
		p.Writes = true
		p.SQL = fmt.Sprintf("DELETE FROM %s WHERE %s; SELECT COUNT(*), SUM(v) FROM %s", t.Name, g.pred(""), t.Name)
	case "create-as":
		p.Writes = true
		p.SQL = fmt.Sprintf("CREATE TABLE `out.csv` AS SELECT id, k, v * 3 AS w, s FROM %s WHERE %s", t.Name, g.pred(""))
	case "alter-add":
		p.Writes = true
		p.SQL = fmt.Sprintf("ALTER TABLE %s ADD (z DEFAULT v * 2 + k) %s", t.Name, g.pick("", "FIRST", "AFTER v"))
	case "mixed":
		p.Writes = true
		p.SQL = fmt.Sprintf("UPDATE %s SET v = v - 1 WHERE %s; DELETE FROM %s WHERE %s; INSERT INTO %s SELECT id + 200000, k, v, f, s, n FROM %s WHERE %s; SELECT k, COUNT(*) AS c FROM %s GROUP BY k ORDER BY k",
			t.Name, g.pred(""), t.Name, g.pred(""), t.Name, t.Name, g.pred(""), t.Name)
	case "replace-one":
		// at most one unmatched row: the appended order cannot vary
		p.Writes = true
		p.SQL = fmt.Sprintf("REPLACE INTO %s (id, v, s) USING (id) VALUES (%d, 777, 'r'), (%d, 778, 'r'), (%d, 779, 'new')", t.Name, g.r.Intn(t.Size), g.r.Intn(t.Size), 500000)
	case "replace-dup-keys":
		// the USING column holds the same value in many records, spread over the parts of several goroutines:
		// every one of them is replaced, whichever goroutine comes first
		p.Writes = true
		kk := g.r.Intn(10)
		p.SQL = fmt.Sprintf("REPLACE INTO %s (k, v, s) USING (k) VALUES (%d, 4242, 'dup'), (%d, 4343, 'dup2'), (999999, 1, 'new')", t.Name, kk, kk+1)
	case "replace":
		p.Writes = true
		p.Stream = "replace-map-order"
		vals := []string{fmt.Sprintf("(%d, 1, 'hit')", g.r.Intn(t.Size))}
		for i := 0; i < 6+g.r.Intn(6); i++ {
			vals = append(vals, fmt.Sprintf("(%d, %d, 'new')", 600000+i, i))
		}
		p.SQL = fmt.Sprintf("REPLACE INTO %s (id, v, s) USING (id) VALUES %s", t.Name, strings.Join(vals, ", "))
	default:
		panic("c12: unknown class " + class)
	}
	return p
}

// ---- part B: running ---------------------------------------------------------------------------------
type c12Obs struct {
	Stdout string
	Code   int
	Stderr string
	Files  map[string]string
	Timed  bool
}

func c12ReadDir(dir string) map[string]string {
	out := map[string]string{}
	ents, _ := os.ReadDir(dir)
	for _, e := range ents {
		if e.IsDir() || strings.HasPrefix(e.Name(), ".config") {
			continue
		}
		b, err := os.ReadFile(filepath.Join(dir, e.Name()))
		if err == nil {
			out[e.Name()] = string(b)
		}
	}
	return out
}

func c12CopyTables(master, dst string, tables []string) {
	for _, t := range tables {
		name := t
		if !strings.Contains(name, ".") {
			name += ".csv"
		}
		b, err := os.ReadFile(filepath.Join(master, name))
		if err != nil {
			panic(err)
		}
		if err := os.WriteFile(filepath.Join(dst, name), b, 0644); err != nil {
			panic(err)
		}
	}
}

func c12RunOne(master string, readDir string, p c12Program, cpu int) c12Obs {
	dir := readDir
	if p.Writes {
		d, err := os.MkdirTemp("", "csvqv-c12w-")
		if err != nil {
			panic(err)
		}
		defer os.RemoveAll(d)
		c12CopyTables(master, d, p.Tables)
		dir = d
	}
	res := runCsvq(dir, []string{"--cpu", fmt.Sprint(cpu), "-f", "csv", "-z", "UTC", p.SQL}, "", 60*time.Second)
	o := c12Obs{Stdout: strings.ReplaceAll(res.Stdout, dir, "<DIR>"), Stderr: strings.ReplaceAll(res.Stderr, dir, "<DIR>"), Code: res.Code, Timed: res.TimedOut}
	if p.Writes {
		o.Files = c12ReadDir(dir)
	}
	return o
}

func sortedLines(s string) string {
	l := strings.Split(s, "\n")
	sort.Strings(l)
	return strings.Join(l, "\n")
}

func clip(s string, n int) string {
	if len(s) > n {
		return s[:n] + fmt.Sprintf("...[%d bytes]", len(s))
	}
	return s
}

// firstDiff describes where two outputs part
func firstDiff(a, b string) string {
	la, lb := strings.Split(a, "\n"), strings.Split(b, "\n")
	for i := 0; i < len(la) && i < len(lb); i++ {
		if la[i] != lb[i] {
			return fmt.Sprintf("line %d: %q vs %q", i+1, clip(la[i], 120), clip(lb[i], 120))
		}
	}
	return fmt.Sprintf("length %d vs %d lines", len(la), len(lb))
}

// classify the difference between the baseline and another run of the same program
func c12Diff(p c12Program, base, o c12Obs) (key string, detail string) {
	if base.Code != o.Code || base.Timed != o.Timed {
		if p.Stream == "subquery-outer-cache" && base.Code == 0 && (strings.Contains(o.Stderr, "concurrent map") || strings.Contains(o.Stderr, "Fatal Error") || strings.Contains(o.Stderr, "unexpected error")) {
			return "subquery-outer-cache-crash", fmt.Sprintf("internal failure in one run only: %s", clip(o.Stderr, 160))
		}
		return "nondeterministic:" + p.Class + ":exit-code", fmt.Sprintf("exit code %d vs %d (stderr %q vs %q)", base.Code, o.Code, clip(base.Stderr, 200), clip(o.Stderr, 200))
	}
	if base.Stdout != o.Stdout {
		if p.Stream == "group-by-order-cpu" && sortedLines(base.Stdout) == sortedLines(o.Stdout) {
			return "group-by-order-cpu", "same rows, different group order: " + firstDiff(base.Stdout, o.Stdout)
		}
		if sortedLines(base.Stdout) == sortedLines(o.Stdout) {
			return "nondeterministic:" + p.Class + ":row-order", "same rows in a different order: " + firstDiff(base.Stdout, o.Stdout)
		}
		return "nondeterministic:" + p.Class + ":rows", "different rows: " + firstDiff(base.Stdout, o.Stdout)
	}
	names := map[string]bool{}
	for n := range base.Files {
		names[n] = true
	}
	for n := range o.Files {
		names[n] = true
	}
	ns := make([]string, 0, len(names))
	for n := range names {
		ns = append(ns, n)
	}
	sort.Strings(ns)
	for _, n := range ns {
		a, okA := base.Files[n]
		b, okB := o.Files[n]
		if okA != okB {
			return "nondeterministic:" + p.Class + ":file-set", "file " + n + " exists in one run only"
		}
		if a != b {
			if p.Stream == "replace-map-order" && sortedLines(a) == sortedLines(b) {
				// the rows that were already in the table must not move: compare the common prefix
				la, lb := strings.Split(a, "\n"), strings.Split(b, "\n")
				orig := 0
				for orig < len(la) && orig < len(lb) && la[orig] == lb[orig] {
					orig++
				}
				moved := len(la) - orig
				if moved <= 14 { // only the appended VALUES rows (at most 12 + final line break) differ
					return "replace-map-order", fmt.Sprintf("file %s: same rows, the %d appended rows come in a different order: %s", n, moved-1, firstDiff(a, b))
				}
			}
			if sortedLines(a) == sortedLines(b) {
				return "nondeterministic:" + p.Class + ":file-row-order", "file " + n + ": same rows in a different order: " + firstDiff(a, b)
			}
			return "nondeterministic:" + p.Class + ":file-rows", "file " + n + ": different contents: " + firstDiff(a, b)
		}
	}
	return "", ""
}

func runC12(seed int64, tier string, out string) {
	r := rand.New(rand.NewSource(seed))
	meta := newMeta("C12", seed)
	meta.Rule = "Part A: RecordRange for every (recordLen, Number) of a grid (quick: all recordLen <= 200 plus boundary and random lengths up to 3000; thorough: all recordLen in [0,3000]) x Number in [1,32], AssignRoutineNumber over a cross product of record counts/minimums/cpu/shared-counter values plus random draws, the NewGoroutineTaskManager+Done life cycle on the package-level manager, CalcMinimumRequired; each compared with Model/Par.v inside Coq. Part B: generated programs (WHERE, ORDER BY/LIMIT, DISTINCT, aggregates, GROUP BY with and without ORDER BY, inner/outer/cross/USING/LATERAL joins, subqueries, analytic functions (also several per select list over tying sort keys), set operators, LTSV/JSONL loads, INSERT..SELECT, UPDATE, DELETE, CREATE TABLE AS, ALTER ADD, REPLACE) over tables of sizes straddling multiples of 80 rows, each run by the csvq binary with --cpu 1,2,3,4,8,16 and repetitions; stdout, exit code and all files compared byte for byte with the --cpu 1 run. distinct = distinct (recordLen,Number) splits with Number>1 + distinct AssignRoutineNumber argument classes + distinct program texts."
	w := &shardWriter{dir: out, prop: "C12", max: 1500, meta: meta,
		header: "From Coq Require Import ZArith NArith List.\nRequire Import Csvq.Model.Par Csvq.Harness.H12.\nImport ListNotations.\nOpen Scope list_scope.\n",
		footer: func(ls []string) string {
			has := map[string]string{"rcases": "[]", "acases": "[]", "lcases": "[]", "mcases": "[]"}
			for _, l := range ls {
				n := strings.SplitN(l, ":", 2)[0]
				has[n] = n
			}
			return fmt.Sprintf("Definition M := Eval vm_compute in (check_ranges %s ++ check_assign %s ++ check_life %s ++ check_minreq %s).\nPrint M.\n",
				has["rcases"], has["acases"], has["lcases"], has["mcases"])
		}}
	id := 0
	c12PartA(r, tier, w, meta, &id)
	w.flush()

	// ---- part B ------------------------------------------------------------------------------
	master := newScratch()
	defer master.Close()
	g := &c12Gen{r: r}
	bigSizes := []int{79, 80, 159, 160, 161, 240, 321, 480, 641, 1280, 2000, 3000}
	for i, s := range bigSizes {
		t := c12Table{Name: fmt.Sprintf("t%d", s), Size: s}
		c12WriteTable(master.Dir, t.Name, s, seed*1000+int64(i), 6+3*(i%4))
		g.big = append(g.big, t)
	}
	for i, s := range []int{9, 10, 16, 40, 41, 90, 200} {
		t := c12Table{Name: fmt.Sprintf("s%d", s), Size: s}
		c12WriteTable(master.Dir, t.Name, s, seed*1000+100+int64(i), 5+i)
		g.small = append(g.small, t)
	}
	g.others = []int{299, 301, 1000}
	for i, s := range g.others {
		c12WriteOtherFormats(master.Dir, s, seed*1000+200+int64(i))
	}

	classes := []string{"where", "where-error", "order", "distinct", "aggregate-all", "distinct-aggregates-then-keys", "group-ordered", "group-ordered-incomparable", "group", "join", "join", "join-big", "lateral", "subquery", "subquery-many-refs",
		"analytic", "analytic", "analytic-ties", "analytic-ties", "setop", "ltsv", "jsonl", "insert-select", "update", "delete", "create-as", "alter-add", "mixed", "replace-one", "replace", "replace-dup-keys"}
	rounds, reps := 6, 3
	if tier == "thorough" {
		rounds, reps = 24, 5
	}
	cpus := []int{1, 2, 3, 4, 8, 16}
	var progs []c12Program
	texts := map[string]bool{}
	for round := 0; round < rounds; round++ {
		for _, c := range classes {
			p := g.program(c)
			p.ID = len(progs)
			progs = append(progs, p)
			texts[p.SQL] = true
			meta.Distribution["program:"+c]++
		}
	}

	// read-only runs share one copy of the tables per worker; writing runs get a fresh copy each
	nWorkers := 12
	type job struct{ p, cpu, rep int }
	type result struct {
		job
		obs c12Obs
	}
	jobs := make(chan job, 256)
	results := make(chan result, 256)
	var wg sync.WaitGroup
	for wk := 0; wk < nWorkers; wk++ {
		wg.Add(1)
		go func() {
			defer wg.Done()
			rd := newScratch()
			defer rd.Close()
			ents, _ := os.ReadDir(master.Dir)
			var all []string
			for _, e := range ents {
				all = append(all, e.Name())
			}
			c12CopyTables(master.Dir, rd.Dir, all)
			for j := range jobs {
				results <- result{j, c12RunOne(master.Dir, rd.Dir, progs[j.p], j.cpu)}
			}
		}()
	}
	go func() {
		for pi := range progs {
			for _, c := range cpus {
				for rep := 0; rep < reps; rep++ {
					jobs <- job{pi, c, rep}
				}
			}
		}
		close(jobs)
		wg.Wait()
		close(results)
	}()
	obs := map[int]map[[2]int]c12Obs{}
	for res := range results {
		if obs[res.p] == nil {
			obs[res.p] = map[[2]int]c12Obs{}
		}
		obs[res.p][[2]int{res.cpu, res.rep}] = res.obs
		meta.Evaluations++
	}

	reported := map[string]int{}
	for _, p := range progs {
		base := obs[p.ID][[2]int{1, 0}]
		if base.Timed {
			meta.Notes = append(meta.Notes, fmt.Sprintf("program %d timed out with --cpu 1: %s", p.ID, p.SQL))
		}
		if internalFailure(RunResult{Stdout: base.Stdout, Stderr: base.Stderr, TimedOut: base.Timed}) != "" {
			meta.Distribution["outcome:internal-failure"]++
		} else if base.Code != 0 {
			meta.Distribution["outcome:error"]++
		} else {
			meta.Distribution["outcome:ok"]++
		}
		if p.Class != "where-error" && base.Code != 0 {
			// a generated program that does not run is a generator bug, not a finding: make it visible
			meta.Notes = append(meta.Notes, fmt.Sprintf("program %d (%s) fails with --cpu 1: %s: %s", p.ID, p.Class, p.SQL, clip(base.Stderr, 200)))
		}
		diffs := map[string][]string{}
		var detail = map[string]string{}
		for _, c := range cpus {
			for rep := 0; rep < reps; rep++ {
				if c == 1 && rep == 0 {
					continue
				}
				key, d := c12Diff(p, base, obs[p.ID][[2]int{c, rep}])
				if key != "" {
					diffs[key] = append(diffs[key], fmt.Sprintf("--cpu %d run %d", c, rep))
					if detail[key] == "" {
						detail[key] = d
					}
				}
			}
		}
		if len(meta.Samples) < 6 && (p.Class == "join" || p.Class == "analytic" || p.Class == "mixed") && p.ID < 2*len(classes) {
			meta.Samples = append(meta.Samples, map[string]interface{}{"program": p, "runs": len(cpus) * reps, "differing_runs": len(diffs), "stdout_cpu1": clip(base.Stdout, 200)})
		}
		keys := make([]string, 0, len(diffs))
		for k := range diffs {
			keys = append(keys, k)
		}
		sort.Strings(keys)
		for _, key := range keys {
			reported[key]++
			if reported[key] > 3 {
				continue
			}
			meta.Direct = append(meta.Direct, DirectViolation{Key: key,
				What: fmt.Sprintf("output depends on --cpu/run (%s): %s -- program: %s -- differing from the --cpu 1 run: %s", key, detail[key], p.SQL, strings.Join(diffs[key], ", ")),
				Case: map[string]interface{}{"program": p, "table_seed": seed, "replay": fmt.Sprintf("run `csvq --cpu N -f csv \"%s\"` for N in 1,2,3,4,8,16 several times in a directory holding the generated tables (harness -prop C12 -seed %d)", p.SQL, seed),
					"differing_runs": diffs[key], "detail": detail[key]}})
		}
	}
	for k, n := range reported {
		meta.Distribution["difference:"+k] = n
	}
	meta.Distinct = meta.Distribution["distinct:ranges"] + meta.Distribution["distinct:assign"] + len(texts)
	meta.write(out)
}
