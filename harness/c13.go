package main

// C13: parallel query evaluation and loading are free of data races.
//
// Static tie: the translator (/verif/translator13, go/ast) re-extracts the fact base of every goroutine
// body of lib/query and lib/cli; the shard compares it inside Coq with the one the access summaries
// were written for (Harness/H13.v expected_sites) and checks that every site is covered by a theorem.
// Dynamic tie: this runner is built with -race; it re-executes itself once per workload with
// GORACE=log_path=..., drives every parallel site through the library (tables of 2 000 - 20 000 rows,
// CPU 2..16, files of more than 300 records, errors raised half-way, cancellation, a signal), parses
// the detector's reports and requires the racing pairs to be exactly the three refuted sites.

import (
	"context"
	"encoding/json"
	"fmt"
	"math/rand"
	"os"
	"os/exec"
	"path/filepath"
	"regexp"
	"sort"
	"strings"
	"syscall"
	"time"

	"github.com/mithrandie/csvq/lib/cli"
	"github.com/mithrandie/csvq/lib/parser"
	"github.com/mithrandie/csvq/lib/query"
)

func init() { runners["C13"] = runC13 }

// ---- static part ------------------------------------------------------------------------------------
type c13Fact struct {
	Path  string `json:"path"`
	Mode  string `json:"mode"`
	Shape string `json:"shape"`
}
type c13Site struct {
	Key   string    `json:"key"`
	Kind  string    `json:"kind"`
	Pos   string    `json:"pos"`
	Facts []c13Fact `json:"facts"`
	Calls []string  `json:"calls"`
}

func verifRoot() string {
	if r := os.Getenv("VERIF_ROOT"); r != "" {
		return r
	}
	return "/verif"
}

// repoDir: where the csvq sources the harness was built against live (the replace directive)
func repoDir() string {
	b, err := os.ReadFile(filepath.Join(verifRoot(), "harness", "go.mod"))
	if err == nil {
		if m := regexp.MustCompile(`(?m)^replace\s+github.com/mithrandie/csvq\s+=>\s+(\S+)`).FindStringSubmatch(string(b)); m != nil {
			return m[1]
		}
	}
	return "/repo"
}

func c13Translate(out string) (sites []c13Site, coq string, err error) {
	bin := filepath.Join(out, "translator.bin")
	cmd := exec.Command("go", "build", "-o", bin, ".")
	cmd.Dir = filepath.Join(verifRoot(), "translator13")
	cmd.Env = append(os.Environ(), "CGO_ENABLED=0", "GOFLAGS=-mod=mod", "GOPROXY=off", "GOSUMDB=off", "GOTOOLCHAIN=local")
	if b, e := cmd.CombinedOutput(); e != nil {
		return nil, "", fmt.Errorf("translator build failed: %v: %s", e, b)
	}
	defer os.Remove(bin)
	jsonPath, coqPath := filepath.Join(out, "sites.json"), filepath.Join(out, "sites_def.txt")
	cmd = exec.Command(bin, "-repo", repoDir(), "-json", jsonPath, "-out", coqPath, "-bare", "-name", "sites")
	if b, e := cmd.CombinedOutput(); e != nil {
		return nil, "", fmt.Errorf("translator failed: %v: %s", e, b)
	}
	jb, e := os.ReadFile(jsonPath)
	if e != nil {
		return nil, "", e
	}
	if e := json.Unmarshal(jb, &sites); e != nil {
		return nil, "", e
	}
	cb, e := os.ReadFile(coqPath)
	if e != nil {
		return nil, "", e
	}
	_ = os.Remove(coqPath)
	return sites, string(cb), nil
}

// ---- dynamic part: workloads (run in the child process) ----------------------------------------------
func c13Table(path string, rows int, seed int64) {
	r := rand.New(rand.NewSource(seed))
	var b strings.Builder
	b.WriteString("id,k,v,s\n")
	for i := 0; i < rows; i++ {
		fmt.Fprintf(&b, "%d,%d,%d,%s\n", i, r.Intn(23), r.Intn(101), []string{"ann", "bo", "cy", "di"}[r.Intn(4)])
	}
	if err := os.WriteFile(path, []byte(b.String()), 0644); err != nil {
		panic(err)
	}
}

func c13Exec(tx *query.Transaction, ctx context.Context, src string) error {
	stmts, _, err := parser.Parse(src, "", false, false)
	if err != nil {
		panic("c13: workload does not parse: " + src + ": " + err.Error())
	}
	proc := query.NewProcessor(tx)
	_, err = proc.Execute(ctx, stmts)
	return err
}

type c13Workload struct {
	Name    string
	Sites   string   // which parallel sites it drives
	Queries []string // run for every cpu value on a fresh transaction (rolled back afterwards)
	Special string   // "signal" | "cancel" | ""
}

func c13Workloads(tier string) []c13Workload {
	big := "t6000"
	if tier == "thorough" {
		big = "t20000"
	}
	mid := "t600" // the larger operand of joins and the outer table of correlated subqueries
	if tier == "thorough" {
		mid = "t2000"
	}
	q := func(f string) string { return strings.ReplaceAll(strings.ReplaceAll(f, "BIG", big), "MID", mid) }
	return []c13Workload{
		{Name: "filter", Sites: "loader (readRecordSet), EvaluateSequentially/filter, evalColumn, ExtendRecordCapacity, Fix",
			Queries: []string{q("SELECT id, v * 2 AS w, s || '!' AS t FROM BIG WHERE v % 3 = 0 AND k < 20"), "SELECT COUNT(*) FROM t2000 WHERE s = 'bo'"}},
		{Name: "filter-error", Sites: "EvaluateSequentially with an error raised half-way (SetError/HasError)",
			Queries: []string{q("SELECT id FROM BIG WHERE 100 / (v - 50) > 0"), q("SELECT id, 7 / (k - 11) FROM BIG")}},
		{Name: "group", Sites: "group (both phases), groupAll, Having, ListValuesForAggregateFunctions, NewViewFromGroupedRecord",
			Queries: []string{q("SELECT k, COUNT(*), SUM(v), AVG(v), MIN(s), LISTAGG(s, ',') FROM BIG GROUP BY k HAVING COUNT(*) > 1"), q("SELECT COUNT(*), MAX(v), MEDIAN(v) FROM BIG"),
				q("SELECT k, s, COUNT(DISTINCT v) FROM BIG GROUP BY k, s"),
				// grouped views over a derived table, each ordered by an expression (appends to the per-group header): race-group-header
				q("SELECT g, LISTAGG(v, ',') WITHIN GROUP (ORDER BY v * 1) FROM (SELECT id % 400 AS g, v FROM BIG) t GROUP BY g"),
				q("SELECT k, MEDIAN(v), JSON_AGG(s) WITHIN GROUP (ORDER BY id * -1) FROM (SELECT id, k, v, s FROM BIG WHERE v > 3) t GROUP BY k")}},
		{Name: "group-error", Sites: "group with an error raised in a group key",
			Queries: []string{q("SELECT 10 / (v - 50) AS g, COUNT(*) FROM BIG GROUP BY 10 / (v - 50)")}},
		{Name: "order-distinct", Sites: "OrderBy sort values, GenerateComparisonKeys (DISTINCT, set operators)",
			Queries: []string{q("SELECT id, k, v FROM BIG ORDER BY k DESC, v, id LIMIT 100"), q("SELECT DISTINCT k, s FROM BIG"), q("SELECT k, v FROM BIG WHERE k < 5 UNION SELECT k, v FROM t2000 WHERE k > 15"),
				q("SELECT k FROM BIG EXCEPT SELECT k FROM t2000 WHERE k < 10"), q("SELECT v FROM BIG INTERSECT SELECT v FROM t2000")}},
		{Name: "joins", Sites: "CrossJoin, InnerJoin, OuterJoin (left/right/full), USING (joinViews column merge)",
			Queries: []string{"SELECT a.id, b.id FROM t2000 a JOIN t300 b ON a.v = b.v AND a.k = b.k", q("SELECT a.id, b.id FROM MID a LEFT JOIN t300 b ON a.id = b.v"),
				q("SELECT a.id, b.id FROM t300 a RIGHT JOIN MID b ON a.id = b.v"), q("SELECT a.id, b.id FROM MID a FULL JOIN t300 b ON a.id = b.id + 500"),
				"SELECT COUNT(*) FROM t300 a CROSS JOIN t300 b", q("SELECT id, a.v, b.v FROM MID a JOIN t300 b USING (id)"), q("SELECT COUNT(*) FROM MID a NATURAL JOIN t300 b")}},
		{Name: "joins-error", Sites: "InnerJoin / OuterJoin with an error raised in the join condition",
			Queries: []string{q("SELECT a.id FROM MID a JOIN t300 b ON 5 / (a.v - b.v) > 0"), q("SELECT a.id FROM MID a LEFT JOIN t300 b ON 5 / (a.v - b.v - 1) > 0")}},
		{Name: "analytic", Sites: "Analyze (partition keys, partitions), OrderBy inside windows",
			Queries: []string{q("SELECT id, ROW_NUMBER() OVER (PARTITION BY k ORDER BY v, id) AS rn, SUM(v) OVER (PARTITION BY k) AS sv, RANK() OVER (ORDER BY v) AS r FROM BIG"),
				q("SELECT id, LAG(v) OVER (PARTITION BY s ORDER BY id) AS l, AVG(v) OVER (PARTITION BY k ORDER BY id ROWS BETWEEN 3 PRECEDING AND CURRENT ROW) AS a FROM BIG"),
				q("SELECT id, FIRST_VALUE(id) OVER (PARTITION BY v ORDER BY id) AS f, NTILE(7) OVER (ORDER BY id) AS n FROM BIG"),
				// a user-defined aggregate as analytic function: its cursor and its extra arguments are evaluated per partition worker
				q("DECLARE uagg13 AGGREGATE (list, @w) AS BEGIN VAR @s := 0; VAR @x; WHILE @x IN list DO @s := @s + @x; END WHILE; RETURN @s + @w; END; SELECT id, uagg13(v, id) OVER (PARTITION BY id % 400) AS u, uagg13(v, k) OVER (PARTITION BY k ORDER BY id ROWS BETWEEN 2 PRECEDING AND CURRENT ROW) AS w FROM BIG"),
				q("SELECT id, LAG(v, 1, k) OVER (PARTITION BY id % 300 ORDER BY id) AS l, LISTAGG(s, '') OVER (PARTITION BY k ORDER BY id) AS g FROM BIG")}},
		{Name: "analytic-error", Sites: "Analyze with an error raised inside a window aggregate",
			Queries: []string{q("SELECT id, SUM(10 / (v - 50)) OVER (PARTITION BY k) AS x FROM BIG")}},
		{Name: "dml", Sites: "GetWithInternalId, update, delete, insert..select, replace (three phases), AddColumns, DropColumns (Fix)",
			Queries: []string{q("UPDATE BIG SET v = v + 1, s = 'z' WHERE k < 12; DELETE FROM BIG WHERE v > 95; INSERT INTO BIG SELECT id + 100000, k, v, s FROM t2000 WHERE v < 50; SELECT COUNT(*) FROM BIG"),
				q("REPLACE INTO BIG (id, v, s) USING (id) SELECT id, v + 1000, 'r' FROM t2000 WHERE k < 9; REPLACE INTO BIG (id, v) USING (id) VALUES (3, 1), (700000, 2), (700001, 3)"),
				q("ALTER TABLE BIG ADD (z DEFAULT v * 2 + k) AFTER v; ALTER TABLE BIG DROP (k); SELECT COUNT(*) FROM BIG WHERE z > 10")}},
		{Name: "formats", Sites: "LTSV loader + padding, JSON Lines loader + conversion",
			Queries: []string{"SELECT id, k, v, w FROM `l3000.ltsv` WHERE k < 5", "SELECT COUNT(*), SUM(k) FROM `j3000.jsonl`", "SELECT id, w FROM `j3000.jsonl` WHERE v IS NULL"}},
		{Name: "lateral-subquery", Sites: "LATERAL join (EvaluateSequentially in loadView), correlated subqueries (nested task managers sharing the goroutine budget)",
			Queries: []string{q("SELECT a.id, x.c FROM MID a CROSS JOIN LATERAL (SELECT COUNT(*) AS c FROM t300 b WHERE b.k = a.k AND b.v < a.v) x"),
				q("SELECT a.id FROM MID a WHERE EXISTS (SELECT 1 FROM t300 b WHERE b.v = a.v AND b.k = a.k)"), q("SELECT id, (SELECT MAX(b.v) FROM t300 b WHERE b.k = a.k) AS m FROM MID a WHERE v IN (SELECT v FROM t300 WHERE k = 3)"),
				// a derived table inside a correlated subquery: every goroutine loads "(SELECT * FROM t300) s" (race-derived-fileinfo)
				q("SELECT id, (SELECT COUNT(*) FROM (SELECT * FROM t300) s WHERE s.k = a.k) AS c FROM MID a"),
				q("SELECT a.id FROM MID a WHERE a.v IN (SELECT s.v FROM (SELECT v, k FROM t300 WHERE k < 12) s WHERE s.k = a.k)"),
				// inline data in a correlated subquery: every goroutine names its temporary view with file.RandomString (race-random-string)
				q("SELECT a.id FROM MID a WHERE EXISTS (SELECT 1 FROM CSV(',', DATA::('a,b\n1,2\n3,4')) x WHERE x.a = a.k)")}},
		{Name: "subquery-outer-refs", Sites: "correlated subqueries whose goroutines share the field-index cache of the outer record (reference_scope.go)",
			Queries: []string{"SELECT id, (SELECT COUNT(*) FROM t300 b WHERE b.v = a.v OR b.k = a.k OR b.id = a.id OR b.s = a.s) AS c FROM t300 a WHERE id < 60",
				// statements that fail late (in LIMIT / OFFSET / ORDER BY / the select list, also on the first pass of a HAVING without
				// GROUP BY) hand their scope objects back; the parallel sub-queries after them must still get objects of their own
				"SELECT id FROM t300 LIMIT 'x'", "SELECT id FROM t300 ORDER BY id OFFSET 'y'", "SELECT COUNT(*) FROM t300 HAVING EXISTS (SELECT 1 FROM t600 LIMIT COUNT(*))", "SELECT id, nocolumn FROM t300 ORDER BY id LIMIT 3",
				"SELECT a.id FROM t600 a WHERE EXISTS (SELECT 1 FROM t300 b WHERE b.k = a.k AND b.v > a.v) AND a.id IN (SELECT c.id FROM t300 c WHERE c.v < 50)",
				"SELECT a.id, (SELECT MAX(b.v) FROM t300 b WHERE b.k = a.k) AS m FROM t600 a WHERE a.v IN (SELECT v FROM t300 x WHERE x.k = a.k)"}},
		{Name: "functions", Sites: "built-in functions with process-wide state evaluated in worker goroutines: RAND (shared generator), regular expression and datetime-format caches, NOW, JSON_VALUE, user-defined scalar functions",
			Queries: []string{q("SELECT COUNT(*) FROM BIG WHERE RAND() < 0.5"), q("SELECT id, RAND(1, 100) AS r FROM BIG WHERE k < 10"),
				q("SELECT id, REGEXP_REPLACE(s, '[aeiou]', '_') AS a, REGEXP_MATCH(s, '^b') AS b, REGEXP_FIND(s, '[a-c]+') AS c FROM BIG"),
				q("SELECT id, DATETIME_FORMAT(ADD_DAY(DATETIME('2012-02-03 09:18:15'), v), '%Y/%m/%d %H') AS d, FORMAT('%05d|%s', v, s) AS f, NOW() AS n FROM BIG WHERE k > 5"),
				q("SELECT id, JSON_VALUE('a.b', '{\"a\":{\"b\":' || v || '}}') AS j, MD5(s) AS h, DATETIME('2020-01-0' || (k % 9 + 1)) AS d FROM BIG WHERE v < 40"),
				q("DECLARE f13 FUNCTION (@x, @y) AS BEGIN IF @x IS NULL THEN RETURN @y; END IF; RETURN @x * 2 + @y; END; SELECT id, f13(v, k) AS u FROM BIG WHERE f13(k, 1) > 4")}},
		{Name: "datetime-format", Sites: "the process-wide cache of converted --datetime-format strings (value.DatetimeFormats), first filled from inside the worker goroutines of ORDER BY / WHERE / GROUP BY: every query runs with a format the process has not seen yet", Special: "dtformat",
			Queries: []string{q("SELECT id, s FROM BIG ORDER BY s, id LIMIT 20"), q("SELECT COUNT(*) FROM BIG WHERE s > '01.06.2010'"), q("SELECT s, COUNT(*) FROM BIG GROUP BY s")}},
		{Name: "cancel", Sites: "loaders and worker loops while the context is cancelled", Special: "cancel",
			Queries: []string{q("SELECT a.id, b.id FROM BIG a JOIN t2000 b ON a.v = b.v AND a.id < b.id")}},
		{Name: "signal", Sites: "lib/cli commandAction: the signal goroutine and the read of signalReceived", Special: "signal",
			Queries: []string{"SELECT COUNT(*) FROM t300"}},
	}
}

func c13Prepare(dir string, tier string) {
	c13Table(filepath.Join(dir, "t300.csv"), 300, 1)
	c13Table(filepath.Join(dir, "t600.csv"), 600, 6)
	c13Table(filepath.Join(dir, "t2000.csv"), 2000, 2)
	c13Table(filepath.Join(dir, "t6000.csv"), 6000, 3)
	if tier == "thorough" {
		c13Table(filepath.Join(dir, "t20000.csv"), 20000, 4)
	}
	c12WriteOtherFormats(dir, 3000, 5)
}

// CPU values (and repetitions of the whole list) a workload is run with
func c13Cpus(tier string) []int {
	if tier == "thorough" {
		return []int{2, 4, 8, 16, 3, 16, 8, 2, 16}
	}
	return []int{2, 8, 16}
}

// c13Child runs one workload in-process (this process is the race-detector build)
func c13Child(name string, tier string) {
	dir := os.Getenv("VERIF_C13_DIR")
	var w *c13Workload
	for _, x := range c13Workloads(tier) {
		if x.Name == name {
			x := x
			w = &x
		}
	}
	if w == nil {
		fmt.Fprintln(os.Stderr, "c13: unknown workload", name)
		os.Exit(3)
	}
	cpus := c13Cpus(tier)
	switch w.Special {
	case "signal":
		os.Args = []string{"csvq", "-r", dir, "-q", "-p", "4", "-o", filepath.Join(dir, "signal_out.txt"), w.Queries[0]}
		_ = os.Remove(filepath.Join(dir, "signal_out.txt"))
		cli.Run()
		// the handler goroutine of commandAction is still waiting: a signal now makes it write
		// signalReceived, which commandAction read without synchronisation a moment ago
		_ = syscall.Kill(os.Getpid(), syscall.SIGINT)
		time.Sleep(400 * time.Millisecond)
		fmt.Println("C13-CHILD-DONE signal")
		return
	case "cancel":
		for _, cpu := range cpus {
			for _, delay := range []time.Duration{0, 200 * time.Microsecond, 2 * time.Millisecond, 20 * time.Millisecond, 80 * time.Millisecond} {
				tx := newTx(dir)
				tx.Flags.SetCPU(cpu)
				ctx, cancel := context.WithCancel(context.Background())
				go func() {
					time.Sleep(delay)
					cancel()
				}()
				err := c13Exec(tx, ctx, w.Queries[0])
				cancel()
				_ = tx.Rollback(query.NewReferenceScope(tx), nil)
				_ = tx.ReleaseResources()
				fmt.Printf("C13-CHILD cancel cpu=%d delay=%v err=%v\n", cpu, delay, err != nil)
			}
		}
		fmt.Println("C13-CHILD-DONE cancel")
		return
	}
	for ci, cpu := range cpus {
		for qi, src := range w.Queries {
			tx := newTx(dir)
			tx.Flags.SetCPU(cpu)
			if w.Special == "dtformat" {
				// what --datetime-format does; a new format each time, so that its first use is inside the workers
				tx.Flags.SetDatetimeFormat(fmt.Sprintf("%%d.%%m.%%Y run %d/%d", ci, qi))
			}
			err := c13Exec(tx, context.Background(), src)
			_ = tx.Rollback(query.NewReferenceScope(tx), nil)
			_ = tx.ReleaseResources()
			e := ""
			if err != nil {
				e = err.Error()
			}
			fmt.Printf("C13-CHILD %s cpu=%d err=%q\n", name, cpu, clip(e, 80))
		}
	}
	fmt.Println("C13-CHILD-DONE", name)
}

// ---- race reports --------------------------------------------------------------------------------------
type c13Frame struct {
	Func string `json:"func"`
	File string `json:"file"` // path below the csvq module root, e.g. lib/query/load_view.go
	Line int    `json:"line"`
	Text string `json:"text"` // source line
}
type c13Race struct {
	A, B     c13Frame
	Workload string
	Raw      string
}

var reAccess = regexp.MustCompile(`^(Read|Write|Previous read|Previous write|Atomic read|Atomic write|Previous atomic read|Previous atomic write) at 0x[0-9a-f]+ by `)
var reFrameLoc = regexp.MustCompile(`^\s+(\S+):(\d+) \+0x[0-9a-f]+$`)

func c13SourceLine(path string, line int) string {
	b, err := os.ReadFile(path)
	if err != nil {
		return ""
	}
	ls := strings.Split(string(b), "\n")
	if line-1 < len(ls) && line > 0 {
		return strings.TrimSpace(ls[line-1])
	}
	return ""
}

// c13ParseRaces extracts, from one detector log, for every report the innermost csvq frame of each of
// the two accesses
func c13ParseRaces(log string, workload string) []c13Race {
	var out []c13Race
	for _, block := range strings.Split(log, "==================") {
		if !strings.Contains(block, "WARNING: DATA RACE") {
			continue
		}
		lines := strings.Split(block, "\n")
		var frames []c13Frame
		for i := 0; i < len(lines); i++ {
			if !reAccess.MatchString(lines[i]) {
				continue
			}
			// frames follow: "  func()" / "      file:line +0x.."
			var fr *c13Frame
			for j := i + 1; j+1 < len(lines); j += 2 {
				fn := strings.TrimSpace(lines[j])
				m := reFrameLoc.FindStringSubmatch(lines[j+1])
				if fn == "" || m == nil {
					break
				}
				if k := strings.LastIndex(m[1], "/lib/"); k >= 0 && strings.HasPrefix(fn, "github.com/mithrandie/csvq/") {
					ln := 0
					fmt.Sscan(m[2], &ln)
					fn = strings.TrimSuffix(fn, "()")
					fn = strings.TrimPrefix(fn, "github.com/mithrandie/csvq/")
					fr = &c13Frame{Func: fn, File: m[1][k+1:], Line: ln, Text: c13SourceLine(m[1], ln)}
					break
				}
			}
			if fr == nil {
				fr = &c13Frame{Func: "(outside csvq)", File: "?", Line: 0}
			}
			frames = append(frames, *fr)
		}
		if len(frames) >= 2 {
			a, b := frames[0], frames[1]
			if b.File+b.Func < a.File+a.Func {
				a, b = b, a
			}
			out = append(out, c13Race{A: a, B: b, Workload: workload, Raw: clip(strings.TrimSpace(block), 1800)})
		}
	}
	return out
}

var reWord = func(w string) *regexp.Regexp {
	return regexp.MustCompile(`(^|[^A-Za-z0-9_.])` + regexp.QuoteMeta(w) + `($|[^A-Za-z0-9_])`)
}

// c13Classify maps a racing pair to the refuted site it belongs to ("" = not one of them).  Both
// accesses must be in the expected functions AND their source lines must name the expected variable.
func c13Classify(r c13Race) string {
	both := func(f func(c13Frame) bool) bool { return f(r.A) && f(r.B) }
	if both(func(f c13Frame) bool {
		return f.File == "lib/query/goroutine_manager.go" && strings.Contains(f.Func, "GoroutineTaskManager") && strings.Contains(f.Text, "m.err")
	}) {
		return "race-haserror"
	}
	if both(func(f c13Frame) bool {
		return f.File == "lib/query/load_view.go" && (strings.Contains(f.Func, "readRecordSet.func") || strings.Contains(f.Func, "loadViewFromJsonLinesFile.func")) &&
			(reWord("pos").MatchString(f.Text) || reWord("err").MatchString(f.Text))
	}) && (strings.Contains(r.A.Func, ".func") && r.A.Func != r.B.Func) {
		return "race-loader-pos-err"
	}
	if both(func(f c13Frame) bool {
		return f.File == "lib/cli/app.go" && strings.Contains(f.Func, "commandAction") && strings.Contains(f.Text, "signalReceived")
	}) {
		return "race-signal-received"
	}
	if both(func(f c13Frame) bool {
		return f.File == "lib/query/reference_scope.go" && strings.Contains(f.Func, "(*FieldIndexCache).")
	}) {
		return "race-field-index-cache"
	}
	return ""
}

func runC13(seed int64, tier string, out string) {
	if name := os.Getenv("VERIF_C13_CHILD"); name != "" {
		c13Child(name, tier)
		return
	}
	meta := newMeta("C13", seed)
	meta.Rule = "Static: every goroutine body of lib/query and lib/cli (go statements, closures handed to GoroutineTaskManager.Run and EvaluateSequentially, methods of the task manager, parent side of go statements) re-extracted by the go/ast translator and compared in Coq with Harness/H13.v expected_sites; each extracted site must be covered by a theorem. Dynamic: one race-detector process per workload (tables of 300/2000/6000 rows, 20000 in the thorough tier; CPU 2,8,16 (+4 thorough); LTSV/JSONL files of 3000 records; errors raised half-way in filter/group/join/analytic; cancellation at five delays; a SIGINT after the command line run); racing pairs are reduced to the innermost csvq frame of each access and must belong to the three refuted sites. distinct = number of extracted sites + number of distinct racing pairs + number of workload queries."

	// ---- static ------------------------------------------------------------------------------
	sites, coqDef, err := c13Translate(out)
	if err != nil {
		panic(err)
	}
	w := &shardWriter{dir: out, prop: "C13", max: 100000, meta: meta}
	shard := "From Coq Require Import List String NArith.\nRequire Import Csvq.Model.Access Csvq.Harness.H13.\nImport ListNotations.\nOpen Scope string_scope.\n" +
		coqDef + "Definition M := Eval vm_compute in (check_sites sites).\nPrint M.\n"
	if err := os.WriteFile(filepath.Join(out, "cases_C13_0.v"), []byte(shard), 0644); err != nil {
		panic(err)
	}
	_ = w
	meta.Shards = append(meta.Shards, "cases_C13_0.v")
	for i, s := range sites {
		meta.Cases[fmt.Sprint(i)] = map[string]interface{}{"site": s.Key, "kind": s.Kind, "source": s.Pos, "facts": s.Facts, "calls": s.Calls,
			"obligation": "the extracted fact base of this goroutine body must equal the one the access summary was written for (Harness/H13.v expected_sites) and be covered by a theorem of Properties/C13.v"}
		meta.Distribution["site-kind:"+s.Kind]++
		for _, f := range s.Facts {
			sh := f.Shape
			if k := strings.Index(sh, ":"); k >= 0 {
				sh = sh[:k]
			}
			meta.Distribution["fact-shape:"+sh]++
		}
		meta.Evaluations++
	}
	for j := 0; j < 200; j++ {
		meta.Cases[fmt.Sprint(1000+j)] = map[string]interface{}{"site": fmt.Sprintf("expected_sites[%d] of coq/Harness/H13.v", j),
			"obligation": "a goroutine body the summaries were written for is no longer found in the sources (renamed/removed): the summary has no counterpart"}
	}
	if len(sites) > 3 {
		meta.Samples = append(meta.Samples, meta.Cases["0"], meta.Cases[fmt.Sprint(len(sites)/2)], meta.Cases[fmt.Sprint(len(sites)-3)])
	}

	// ---- dynamic -----------------------------------------------------------------------------
	if !raceEnabled {
		meta.Notes = append(meta.Notes, "this harness binary was built without -race: the dynamic part was skipped (run through ./check, which builds build/harness_race)")
		meta.Distinct = len(sites)
		meta.write(out)
		return
	}
	data := newScratch()
	defer data.Close()
	c13Prepare(data.Dir, tier)
	self, err := os.Executable()
	if err != nil {
		panic(err)
	}
	workloads := c13Workloads(tier)
	type wres struct {
		name   string
		stdout string
		races  []c13Race
		code   int
		timed  bool
	}
	results := make([]wres, len(workloads))
	durs := make([]time.Duration, len(workloads))
	sem := make(chan struct{}, 8)
	done := make(chan int, len(workloads))
	for i, wl := range workloads {
		go func(i int, wl c13Workload) {
			sem <- struct{}{}
			defer func() { <-sem; done <- i }()
			// every workload works on its own copy of the tables (the DML ones write)
			wd := newScratch()
			defer wd.Close()
			ents, _ := os.ReadDir(data.Dir)
			for _, e := range ents {
				b, _ := os.ReadFile(filepath.Join(data.Dir, e.Name()))
				_ = os.WriteFile(filepath.Join(wd.Dir, e.Name()), b, 0644)
			}
			logBase := filepath.Join(wd.Dir, "race.log")
			t0 := time.Now()
			res := runCmd(wd.Dir, []string{self, "-prop", "C13", "-seed", fmt.Sprint(seed), "-tier", tier, "-out", filepath.Join(wd.Dir, "childout")}, "", 600*time.Second,
				"VERIF_C13_CHILD="+wl.Name, "VERIF_C13_DIR="+wd.Dir, "GORACE=log_path="+logBase+" halt_on_error=0 history_size=7", "VERIF_ROOT="+verifRoot())
			var log strings.Builder
			logs, _ := filepath.Glob(logBase + ".*")
			for _, l := range logs {
				b, _ := os.ReadFile(l)
				log.Write(b)
			}
			log.WriteString(res.Stderr) // in case the detector wrote to stderr
			durs[i] = time.Since(t0)
			results[i] = wres{name: wl.Name, stdout: res.Stdout, races: c13ParseRaces(log.String(), wl.Name), code: res.Code, timed: res.TimedOut}
		}(i, wl)
	}
	for range workloads {
		<-done
	}

	observed := map[string]bool{}
	pairs := map[string]bool{}
	nq := 0
	for i, r := range results {
		wl := workloads[i]
		nq += len(wl.Queries)
		meta.Evaluations += len(wl.Queries) * len(c13Cpus(tier))
		meta.Distribution["workload:"+wl.Name+":race-reports"] = len(r.races)
		meta.Distribution["workload:"+wl.Name+":seconds"] = int(durs[i].Seconds())
		if !strings.Contains(r.stdout, "C13-CHILD-DONE") {
			// the workload did not run to its end (panic, timeout, exit inside the library)
			meta.Direct = append(meta.Direct, DirectViolation{Key: "workload-incomplete:" + wl.Name,
				What: fmt.Sprintf("race-detector workload %q did not run to completion (exit code %d, timed out %v): %s", wl.Name, r.code, r.timed, clip(r.stdout, 400)),
				Case: map[string]interface{}{"workload": wl}})
			continue
		}
		if len(meta.Samples) < 6 && (wl.Name == "filter-error" || wl.Name == "formats" || wl.Name == "signal") {
			var ps []string
			for _, rc := range r.races {
				ps = append(ps, fmt.Sprintf("%s:%d (%s) <-> %s:%d (%s)", rc.A.File, rc.A.Line, rc.A.Func, rc.B.File, rc.B.Line, rc.B.Func))
			}
			meta.Samples = append(meta.Samples, map[string]interface{}{"workload": wl.Name, "sites": wl.Sites, "queries": wl.Queries, "race_pairs": ps})
		}
		for _, rc := range r.races {
			key := c13Classify(rc)
			pair := fmt.Sprintf("%s:%d|%s:%d", rc.A.File, rc.A.Line, rc.B.File, rc.B.Line)
			pairs[pair] = true
			if key == "" {
				key = fmt.Sprintf("race:%s:%s|%s:%s", rc.A.File, rc.A.Func, rc.B.File, rc.B.Func)
			}
			if observed[key+"@"+pair] {
				continue
			}
			observed[key+"@"+pair] = true
			meta.Distribution["race:"+key]++
			meta.Direct = append(meta.Direct, DirectViolation{Key: key,
				What: fmt.Sprintf("data race reported by the Go race detector between %s:%d [%s] in %s and %s:%d [%s] in %s (workload %s)",
					rc.A.File, rc.A.Line, rc.A.Text, rc.A.Func, rc.B.File, rc.B.Line, rc.B.Text, rc.B.Func, wl.Name),
				Case: map[string]interface{}{"workload": wl, "pair": []c13Frame{rc.A, rc.B}, "report": rc.Raw,
					"replay": "harness_race -prop C13 (GORACE=halt_on_error=0 history_size=7), workload " + wl.Name}})
		}
	}
	// refuted sites that the detector did not see this time (it observes only the schedules that happen)
	seen := map[string]bool{}
	for k := range observed {
		seen[strings.SplitN(k, "@", 2)[0]] = true
	}
	for _, k := range []string{"race-haserror", "race-loader-pos-err", "race-signal-received", "race-field-index-cache"} {
		if !seen[k] {
			meta.Notes = append(meta.Notes, "refuted site "+k+" was not reported by the race detector in this run (either repaired in the source - then the fact base check above must have changed too - or not observed)")
		}
	}
	var ps []string
	for p := range pairs {
		ps = append(ps, p)
	}
	sort.Strings(ps)
	meta.Notes = append(meta.Notes, "racing pairs observed: "+strings.Join(ps, " ; "))
	meta.Distinct = len(sites) + len(pairs) + nq
	meta.write(out)
}
