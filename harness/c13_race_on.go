//go:build race

package main

// raceEnabled: this binary was built with the race detector (build/harness_race)
const raceEnabled = true
