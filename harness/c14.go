package main

// C14 -- evaluation never changes what it only reads (pooled values, shared syntax trees).
//
// What decides the property (DESIGN.md section 5, C14):
//  1. the Coq theorems of Properties/C14.v about Model/Pool.v;
//  2. the fact base regenerated from /repo's CURRENT source by /verif/translator (every
//     value.Discard call site, every constructor of lib/value, every write through a lib/parser
//     value, every write to a pooled cell), checked inside Coq by H14.check_facts with the very
//     predicates the theorems take as hypotheses -- shard Sites.v;
//  3. differential runs of the implementation: every generated program is parsed once and its tree
//     executed twice, in a process with the pool active and in a process where Discard poisons the
//     object and never re-issues it (hooks/c14_poison_discard.patch, switched on by the environment
//     variable CSVQ_VERIF_POISON=1 in `verif` builds) -- shards cases_C14_k.v.

import (
	"encoding/json"
	"fmt"
	"math/rand"
	"os"
	"path/filepath"
	"runtime/debug"
	"sort"
	"strings"
	"time"

	"github.com/mithrandie/csvq/lib/query"
)

func init() { runners["C14"] = runC14 }

// ---- locating things ------------------------------------------------------------------------------
func c14RepoPath() string {
	if bi, ok := debug.ReadBuildInfo(); ok {
		for _, d := range bi.Deps {
			if d.Path == "github.com/mithrandie/csvq" && d.Replace != nil {
				return d.Replace.Path
			}
		}
	}
	return "/repo"
}

func c14Root() string {
	if r := os.Getenv("VERIF_ROOT"); r != "" {
		return r
	}
	return "/verif"
}

func c14BuildDir() string {
	if b := os.Getenv("VERIF_BUILD"); b != "" {
		return b
	}
	return filepath.Join(c14Root(), "build")
}

// ---- translator facts (mirror of translator/main.go's JSON) ------------------------------------------
type c14Def struct {
	Kind string `json:"kind"`
	Ctor string `json:"ctor"`
	Line int    `json:"line"`
	Why  string `json:"why"`
}
type c14Site struct {
	ID       int      `json:"id"`
	Identity string   `json:"identity"`
	File     string   `json:"file"`
	Line     int      `json:"line"`
	Func     string   `json:"func"`
	Var      string   `json:"var"`
	Shape    string   `json:"shape"`
	Defs     []c14Def `json:"defs"`
	Escapes  []string `json:"escapes"`
	UseAfter []string `json:"use_after"`
	Sig      string   `json:"sig"`
	Allow    string   `json:"allow"`
}
type c14Facts struct {
	Ctors []struct {
		ID   int    `json:"id"`
		Name string `json:"name"`
		File string `json:"file"`
		Line int    `json:"line"`
		Rets []struct {
			Kind string `json:"kind"`
			Ctor string `json:"ctor"`
			Line int    `json:"line"`
			Text string `json:"text"`
		} `json:"rets"`
	} `json:"ctors"`
	Sites   []c14Site `json:"sites"`
	AWrites []struct {
		ID       int    `json:"id"`
		Identity string `json:"identity"`
		File     string `json:"file"`
		Line     int    `json:"line"`
		Func     string `json:"func"`
		Lhs      string `json:"lhs"`
		Class    string `json:"class"`
		Why      string `json:"why"`
	} `json:"awrites"`
	CWrites []struct {
		ID    int    `json:"id"`
		File  string `json:"file"`
		Line  int    `json:"line"`
		Func  string `json:"func"`
		Lhs   string `json:"lhs"`
		Fresh bool   `json:"fresh"`
	} `json:"cwrites"`
	Notes []string `json:"notes"`
}

// known defects: stable identity of the write site -> finding key (known_findings.json)
var c14KnownWriteSites = map[string]string{
	"lib/query/analytic_function.go:Analyze:fn.Args[0]": "analytic-args-overwrite",
}

func c14RunTranslator(out string, meta *Meta) (*c14Facts, string, error) {
	root, bdir := c14Root(), c14BuildDir()
	home := newScratch() // the go tool writes its telemetry counters under $HOME
	defer home.Close()
	tdir := filepath.Join(root, "translator")
	bin := filepath.Join(bdir, "translator")
	env := []string{"GOFLAGS=-mod=mod", "GOPROXY=off", "GOSUMDB=off", "GOTOOLCHAIN=local", "CGO_ENABLED=0",
		"GOCACHE=" + c14GoEnv("GOCACHE"), "GOMODCACHE=" + c14GoEnv("GOMODCACHE"), "GOPATH=" + c14GoEnv("GOPATH"), "HOME=" + home.Dir}
	r := runCmd(tdir, []string{"go", "build", "-o", bin, "."}, "", 300*time.Second, env...)
	if r.Code != 0 || r.TimedOut {
		return nil, "", fmt.Errorf("translator does not build: %s %s", r.Stdout, r.Stderr)
	}
	r = runCmd(tdir, []string{bin, "-repo", c14RepoPath(), "-out", out, "-allow", filepath.Join(tdir, "allowlist_c14.json")}, "", 300*time.Second, env...)
	if r.Code != 0 || r.TimedOut {
		return nil, "", fmt.Errorf("translator failed on the current tree (it type-checks lib/value and lib/query with go/types): %s %s", r.Stdout, r.Stderr)
	}
	raw, err := os.ReadFile(filepath.Join(out, "sites.json"))
	if err != nil {
		return nil, "", err
	}
	var f c14Facts
	if err := json.Unmarshal(raw, &f); err != nil {
		return nil, "", err
	}
	coq, err := os.ReadFile(filepath.Join(out, "Sites.v"))
	if err != nil {
		return nil, "", err
	}
	meta.Notes = append(meta.Notes, strings.TrimSpace(r.Stdout))
	return &f, string(coq), nil
}

func c14GoEnv(k string) string {
	if v := os.Getenv(k); v != "" {
		return v
	}
	home := os.Getenv("HOME")
	if home == "" {
		home = "/root"
	}
	switch k {
	case "GOCACHE":
		return filepath.Join(home, ".cache", "go-build")
	case "GOPATH":
		return filepath.Join(home, "go")
	case "GOMODCACHE":
		return filepath.Join(home, "go", "pkg", "mod")
	}
	return ""
}

// ---- operands ---------------------------------------------------------------------------------------
type c14Operand struct {
	Class string // int float str numstr dt null bool
	SQL   string // literal in SQL
	Cell  *string
}

func c14Operands() map[string][]c14Operand {
	m := map[string][]c14Operand{}
	add := func(class, sql string, cell *string) { m[class] = append(m[class], c14Operand{class, sql, cell}) }
	for _, s := range []string{"0", "1", "2", "3", "-7", "10", "255", "12"} {
		add("int", s, sp(s))
	}
	for _, s := range []string{"1.5", "-2.25", "0.5", "100.0", "3.75"} {
		add("float", s, sp(s))
	}
	for _, s := range []string{"abc", " Hello World ", "a,b,c", "YWJj", "6162", `{"a":1,"b":[1,2]}`, "a(b+)c", "%s-%s", "UTC", "xyzzy", "b"} {
		add("str", "'"+s+"'", sp(s))
	}
	for _, s := range []string{"12", "-3.5", "1e3", "1010", "ff", " 42 ", "7"} {
		add("numstr", "'"+s+"'", sp(s))
	}
	for _, s := range []string{"2012-02-03 09:18:15", "2012-02-03T09:18:15.123456789Z", "2020-12-31 23:59:59", "2012-02-05"} {
		add("dt", "'"+s+"'", sp(s))
	}
	add("null", "NULL", nil)
	add("bool", "TRUE", sp("true"))
	add("bool", "FALSE", sp("false"))
	return m
}

var c14Classes = []string{"int", "float", "str", "numstr", "dt", "null", "bool"}

// nondeterministic or environment-dependent functions are not compared
var c14SkipFn = map[string]bool{"RAND": true}

type c14Vector struct {
	Fn       string
	Ops      []c14Operand
	ResultOK bool // evaluated without error
	NonNull  bool
}

func (v c14Vector) sig() string {
	cs := make([]string, len(v.Ops))
	for i, o := range v.Ops {
		cs[i] = o.Class
	}
	return strings.Join(cs, ",")
}
func (v c14Vector) args() []string {
	as := make([]string, len(v.Ops))
	for i, o := range v.Ops {
		as[i] = o.SQL
	}
	return as
}

// c14Discover: for every built-in function (query.Functions, whatever the current tree registers) find
// operand vectors of every arity 0..5 that evaluate without error, by trying the class combinations
func c14Discover(r *rand.Rand, perFn int, meta *Meta) []c14Vector {
	ops := c14Operands()
	names := make([]string, 0, len(query.Functions))
	for n := range query.Functions {
		names = append(names, n)
	}
	sort.Strings(names)
	tx := newTx("")
	var out []c14Vector
	try := func(fn string, v []c14Operand) (ok, nonnull bool) {
		defer func() {
			if e := recover(); e != nil {
				ok, nonnull = false, false
			}
		}()
		cv := c14Vector{Fn: fn, Ops: v}
		view, err := selectView(tx, "SELECT "+fn+"("+strings.Join(cv.args(), ", ")+")")
		if err != nil {
			return false, false
		}
		rows := viewRows(view)
		if len(rows) == 1 && len(rows[0]) == 1 {
			return true, showVal(rows[0][0]) != "Null"
		}
		return true, false
	}
	for _, fn := range names {
		if c14SkipFn[fn] {
			meta.Distribution["fn-skipped-nondeterministic"]++
			continue
		}
		var good, nullish, bad []c14Vector
		for arity := 0; arity <= 5; arity++ {
			// class vectors: all of them up to arity 2, a sample above
			var combos [][]string
			total := 1
			for i := 0; i < arity; i++ {
				total *= len(c14Classes)
			}
			if total <= 49 {
				for k := 0; k < total; k++ {
					c := make([]string, arity)
					x := k
					for i := 0; i < arity; i++ {
						c[i] = c14Classes[x%len(c14Classes)]
						x /= len(c14Classes)
					}
					combos = append(combos, c)
				}
			} else {
				for k := 0; k < 90; k++ {
					c := make([]string, arity)
					for i := range c {
						c[i] = c14Classes[r.Intn(len(c14Classes))]
					}
					combos = append(combos, c)
				}
			}
			for _, c := range combos {
				v := make([]c14Operand, arity)
				for i, cl := range c {
					v[i] = ops[cl][r.Intn(len(ops[cl]))]
				}
				ok, nn := try(fn, v)
				cv := c14Vector{Fn: fn, Ops: v, ResultOK: ok, NonNull: nn}
				switch {
				case ok && nn:
					good = append(good, cv)
				case ok:
					nullish = append(nullish, cv)
				default:
					bad = append(bad, cv)
				}
			}
		}
		pick := func(l []c14Vector, n int) {
			// prefer distinct class signatures, then shorter vectors last (more operands = more conversions)
			seen := map[string]bool{}
			used := map[int]bool{}
			idx := r.Perm(len(l))
			for _, i := range idx {
				if n == 0 {
					return
				}
				if s := l[i].sig(); !seen[s] {
					seen[s] = true
					used[i] = true
					out = append(out, l[i])
					n--
				}
			}
			for _, i := range idx { // more than there are signatures: other operands of the same classes
				if n == 0 {
					return
				}
				if !used[i] {
					out = append(out, l[i])
					n--
				}
			}
		}
		pick(good, perFn)
		pick(nullish, 1)
		pick(bad, 1)
		if len(good) == 0 {
			meta.Distribution["fn-without-nonnull-vector"]++
		}
		meta.Distribution["fn-covered"]++
	}
	return out
}

// ---- program generation --------------------------------------------------------------------------------
type c14Gen struct {
	r     *rand.Rand
	progs []c14Program
	args  [][]*string // rows of args.csv: k, n, a1..a5
	meta  *Meta
	probe string // directory with the tables, for trying candidate programs in this process
}

// with several workers, WHICH row's error is reported first is not fixed (nor is it this property's
// business), so programs that run over whole tables in parallel are only kept when they succeed
func (g *c14Gen) addIfClean(kind, fn, sig, sql string, cpu int) {
	ok := func() (ok bool) {
		defer func() {
			if recover() != nil {
				ok = false
			}
		}()
		tx := newTx(g.probe)
		_, err := execProgram(tx, sql)
		proc := query.NewProcessor(tx)
		_ = proc.AutoRollback()
		_ = proc.ReleaseResourcesWithErrors()
		return err == nil
	}()
	if !ok {
		g.meta.Distribution["candidate-dropped:"+kind+"-fails-on-some-row"]++
		return
	}
	g.add(kind, fn, sig, sql, cpu)
}

func (g *c14Gen) add(kind, fn, sig, sql string, cpu int) {
	g.progs = append(g.progs, c14Program{ID: 10001 + len(g.progs), Kind: kind, Fn: fn, Sig: sig, SQL: sql, CPU: cpu})
	g.meta.Distribution["program:"+kind]++
}

func (g *c14Gen) functionPrograms(vs []c14Vector) {
	for _, v := range vs {
		call := v.Fn + "(" + strings.Join(v.args(), ", ") + ")"
		n := len(v.Ops)
		// 1. literals (the syntax tree's own objects are handed to the function by reference)
		g.add("literal", v.Fn, v.sig(), "SELECT "+call+", "+call+";", 1)
		// 2. table cells: one row of args.csv holds the vector
		key := fmt.Sprintf("r%d", len(g.args))
		row := []*string{sp(key), sp(fmt.Sprint(n))}
		cols := make([]string, n)
		for i := 0; i < 5; i++ {
			if i < n {
				row = append(row, v.Ops[i].Cell)
				cols[i] = fmt.Sprintf("a%d", i+1)
			} else {
				row = append(row, nil)
			}
		}
		g.args = append(g.args, row)
		colcall := v.Fn + "(" + strings.Join(cols, ", ") + ")"
		sel := strings.Join(append(append([]string{"k"}, cols...), colcall), ", ")
		if n > 0 {
			sel += ", " + strings.Join(cols, ", ")
		}
		g.add("cell", v.Fn, v.sig(), "SELECT "+sel+" FROM args WHERE k = '"+key+"';", 1)
		// 3. variables
		var decl, names []string
		for i, o := range v.Ops {
			nm := fmt.Sprintf("@v%d", i+1)
			decl = append(decl, "VAR "+nm+" := "+o.SQL+";")
			names = append(names, nm)
		}
		varcall := v.Fn + "(" + strings.Join(names, ", ") + ")"
		after := ""
		if n > 0 {
			after = " SELECT " + strings.Join(names, ", ") + ";"
		}
		g.add("variable", v.Fn, v.sig(), strings.Join(decl, " ")+" SELECT "+varcall+";"+after, 1)
		// 4. WHILE loop: the same call three times, recycled objects are re-issued in between
		g.add("while", v.Fn, v.sig(), strings.Join(decl, " ")+" VAR @i := 0; VAR @acc := '';"+
			" WHILE @i < 3 DO @acc := @acc || ':' || IFNULL(STRING("+varcall+"), 'N'); PRINT "+varcall+"; @i := @i + 1; END WHILE; PRINT @acc;"+after, 1)
		// 5. user-defined function called twice in one statement
		var params []string
		for i := range v.Ops {
			params = append(params, fmt.Sprintf("@p%d", i+1))
		}
		body := v.Fn + "(" + strings.Join(params, ", ") + ")"
		ucall := "c14f(" + strings.Join(v.args(), ", ") + ")"
		g.add("udf", v.Fn, v.sig(), "DECLARE c14f FUNCTION ("+strings.Join(params, ", ")+") AS BEGIN VAR @r := "+body+"; RETURN @r; END; SELECT "+ucall+", "+ucall+"; SELECT "+ucall+";", 1)
		// 6. prepared statement executed twice
		if n > 0 {
			holders := make([]string, n)
			for i := range holders {
				holders[i] = "?"
			}
			using := strings.Join(v.args(), ", ")
			g.add("prepared", v.Fn, v.sig(), "PREPARE c14s FROM 'SELECT "+v.Fn+"("+strings.Join(holders, ", ")+")'; EXECUTE c14s USING "+using+"; EXECUTE c14s USING "+using+"; DISPOSE PREPARE c14s;", 1)
		}
	}
}

// every function once over ALL rows of args.csv (>= 200 rows, several CPUs): conversions of table cells
// on parallel workers
func (g *c14Gen) wholeTablePrograms(vs []c14Vector) {
	seen := map[string]bool{}
	for _, v := range vs {
		n := len(v.Ops)
		key := fmt.Sprintf("%s/%d", v.Fn, n)
		if seen[key] || n == 0 || !v.ResultOK {
			continue
		}
		seen[key] = true
		cols := make([]string, n)
		for i := range cols {
			cols[i] = fmt.Sprintf("a%d", i+1)
		}
		g.addIfClean("cells-all", v.Fn, fmt.Sprint(n), "SELECT k, "+v.Fn+"("+strings.Join(cols, ", ")+") FROM args; SELECT COUNT(*), COUNT(a1), MIN(a1), MAX(a2) FROM args;", 2+g.r.Intn(3))
	}
}

func (g *c14Gen) operatorPrograms(n int) {
	ops := c14Operands()
	pickOp := func() c14Operand {
		c := c14Classes[g.r.Intn(len(c14Classes))]
		return ops[c][g.r.Intn(len(ops[c]))]
	}
	templates := []string{
		"%s + %s", "%s - %s", "%s * %s", "%s / %s", "%s %% %s", "-%s + %s", "%s = %s", "%s < %s", "%s >= %s", "%s <> %s", "%s == %s",
		"%s || %s", "%s LIKE %s", "%s IN (%s, 1, 'abc')", "%s BETWEEN %s AND 100", "%s IS NULL OR %s IS TRUE",
		"CASE %s WHEN %s THEN 'same' ELSE 'other' END", "CASE WHEN %s < %s THEN 1 ELSE 2 END", "(%s, 1) = (%s, 1)",
		"COALESCE(%s, %s)", "NULLIF(%s, %s)", "IF(%s = %s, 'y', 'n')", "%s < ANY (SELECT %s)", "NOT (%s > %s)",
	}
	for i := 0; i < n; i++ {
		t := templates[i%len(templates)]
		a, b := pickOp(), pickOp()
		if strings.Contains(t, "/") || strings.Contains(t, "%% ") {
			for b.SQL == "0" {
				b = pickOp()
			}
		}
		e := fmt.Sprintf(t, a.SQL, b.SQL)
		ev := fmt.Sprintf(t, "@a", "@b")
		ec := fmt.Sprintf(t, "a1", "a2")
		switch (i / len(templates)) % 3 { // every template meets every form
		case 0:
			g.add("operator-literal", "", a.Class+","+b.Class, "SELECT "+e+", "+e+";", 1)
		case 1:
			g.add("operator-variable", "", a.Class+","+b.Class, "VAR @a := "+a.SQL+"; VAR @b := "+b.SQL+"; VAR @i := 0; WHILE @i < 2 DO PRINT "+ev+"; @i := @i + 1; END WHILE; SELECT @a, @b;", 1)
		default:
			g.addIfClean("operator-cells", "", a.Class+","+b.Class, "SELECT k, "+ec+" FROM args WHERE n = '2';", 2)
		}
	}
}

func (g *c14Gen) queryPrograms(tier string) {
	q := func(kind, sql string, cpu int) { g.add(kind, "", "", sql, cpu) }
	cpus := []int{2, 3, 4}
	cpu := func() int { return cpus[g.r.Intn(len(cpus))] }
	// big.csv: id, grp, num, txt, dt  (>= 240 rows)
	aggs := []string{"COUNT(*)", "COUNT(num)", "SUM(num)", "AVG(num)", "MIN(txt)", "MAX(dt)", "MEDIAN(num)", "LISTAGG(txt, ',') WITHIN GROUP (ORDER BY id)", "STDEV(num)", "VAR(num)", "COUNT(DISTINCT txt)", "SUM(DISTINCT num)"}
	for _, a := range aggs {
		q("group-by", "SELECT grp, "+a+" FROM big GROUP BY grp ORDER BY grp; SELECT "+a+" FROM big;", cpu())
		q("group-by-having", "SELECT grp, "+a+" AS v FROM big GROUP BY grp HAVING COUNT(*) > 3 ORDER BY grp DESC;", cpu())
	}
	orders := []string{"num", "num DESC, id", "txt, id DESC", "dt DESC NULLS LAST, id", "grp, num NULLS FIRST, id", "UPPER(txt), id", "num * 2 - id", "num || txt, id"}
	for _, o := range orders {
		q("order-by", "SELECT id, grp, num, txt, dt FROM big ORDER BY "+o+";", cpu())
		q("order-limit", "SELECT id, num FROM big ORDER BY "+o+" LIMIT 7 OFFSET 3; SELECT id FROM big ORDER BY "+o+" LIMIT 10 PERCENT;", cpu())
		q("distinct", "SELECT DISTINCT grp, num, txt FROM big ORDER BY grp, num, txt;", cpu())
	}
	ans := []string{"ROW_NUMBER() OVER (PARTITION BY grp ORDER BY id)", "RANK() OVER (ORDER BY num)", "DENSE_RANK() OVER (PARTITION BY grp ORDER BY num DESC)",
		"CUME_DIST() OVER (ORDER BY num)", "PERCENT_RANK() OVER (PARTITION BY grp ORDER BY num)", "NTILE(4) OVER (ORDER BY id)",
		"FIRST_VALUE(txt) OVER (PARTITION BY grp ORDER BY id)", "LAST_VALUE(num) IGNORE NULLS OVER (PARTITION BY grp ORDER BY id)",
		"NTH_VALUE(txt, 2) OVER (PARTITION BY grp ORDER BY id)", "LAG(num, 2, 0) OVER (PARTITION BY grp ORDER BY id)", "LEAD(txt) OVER (ORDER BY id)",
		"LISTAGG(txt, '/') OVER (PARTITION BY grp)", "JSON_AGG(num) OVER (PARTITION BY grp)", "SUM(num) OVER (PARTITION BY grp ORDER BY id)",
		"AVG(num) OVER (PARTITION BY grp)", "COUNT(num) OVER (PARTITION BY grp)", "MAX(dt) OVER (ORDER BY id ROWS BETWEEN 2 PRECEDING AND CURRENT ROW)",
		"MIN(num) OVER (PARTITION BY grp ORDER BY id ROWS BETWEEN UNBOUNDED PRECEDING AND 1 FOLLOWING)", "COUNT(*) OVER ()", "COUNT(*) OVER (PARTITION BY grp)",
		"MEDIAN(num) OVER (PARTITION BY grp)", "SUM(DISTINCT num) OVER ()"}
	for _, a := range ans {
		q("analytic", "SELECT id, grp, "+a+" AS v FROM big ORDER BY id;", cpu())
		q("analytic-where", "SELECT id, "+a+" FROM big WHERE id % 3 = 1 ORDER BY id LIMIT 20;", cpu())
	}
	misc := []string{
		"SELECT b.id, s.name, b.num + s.w FROM big b JOIN small s ON b.grp = s.grp WHERE b.id < 60 ORDER BY b.id;",
		"SELECT b.id, s.name FROM big b LEFT JOIN small s ON b.grp = s.grp AND s.w > 2 ORDER BY b.id LIMIT 40;",
		"SELECT grp, (SELECT MAX(w) FROM small s WHERE s.grp = b.grp) AS mw, COUNT(*) FROM big b GROUP BY grp ORDER BY grp;",
		"SELECT id FROM big WHERE num IN (SELECT w * 10 FROM small) ORDER BY id;",
		"SELECT id, num FROM big WHERE num > ALL (SELECT w FROM small) AND txt LIKE '%a%' ORDER BY id;",
		"SELECT grp FROM big UNION SELECT grp FROM small ORDER BY grp; SELECT grp FROM big EXCEPT SELECT grp FROM small; SELECT grp FROM big INTERSECT ALL SELECT grp FROM small;",
		"WITH RECURSIVE t (n) AS (SELECT 1 UNION ALL SELECT n + 1 FROM t WHERE n < 12) SELECT n, n * n FROM t;",
		"UPDATE big SET num = num + 1, txt = txt || '!' WHERE grp = 'g1'; SELECT id, num, txt FROM big WHERE grp = 'g1' ORDER BY id; SELECT SUM(num) FROM big;",
		"INSERT INTO small VALUES ('g9', 'nine', 9), ('g8', 'eight', 8); SELECT * FROM small ORDER BY grp; DELETE FROM small WHERE w > 7; SELECT COUNT(*) FROM small;",
		"UPDATE big b SET b.txt = s.name FROM big b JOIN small s ON b.grp = s.grp; SELECT txt, COUNT(*) FROM big GROUP BY txt ORDER BY txt;",
		"REPLACE INTO small (grp, name, w) USING (grp) VALUES ('g1', 'uno', 11); SELECT * FROM small ORDER BY grp;",
		"ALTER TABLE small ADD (x DEFAULT w * 2); SELECT * FROM small ORDER BY grp; ALTER TABLE small DROP x; SELECT * FROM small ORDER BY grp;",
		"DECLARE cur CURSOR FOR SELECT id, num, txt FROM big WHERE id <= 12 ORDER BY id; OPEN cur; VAR @a, @b, @c; VAR @s := 0; WHILE @a, @b, @c IN cur DO @s := @s + IFNULL(INTEGER(@b), 0); PRINT @a || '=' || IFNULL(@c, '-'); END WHILE; PRINT @s; FETCH FIRST cur INTO @a, @b, @c; PRINT @c; FETCH ABSOLUTE 3 cur INTO @a, @b, @c; PRINT @b; CLOSE cur; DISPOSE CURSOR cur;",
		"DECLARE tv VIEW (a, b) AS SELECT id, txt FROM big WHERE id < 8; SELECT * FROM tv; UPDATE tv SET b = UPPER(b); SELECT * FROM tv; SELECT * FROM tv;",
		"VAR @n := 0; VAR @t := 'x'; WHILE @n < 6 DO IF @n % 2 = 0 THEN @t := @t || @n; ELSEIF @n = 3 THEN @n := @n + 1; CONTINUE; ELSE @t := LOWER(@t); END IF; @n := @n + 1; END WHILE; PRINT @t; PRINT @n;",
		"DECLARE fact FUNCTION (@n) AS BEGIN IF @n <= 1 THEN RETURN 1; END IF; RETURN @n * fact(@n - 1); END; SELECT fact(5), fact(10); SELECT id, fact(id) FROM big WHERE id < 6;",
		"DECLARE wavg AGGREGATE (cur, @w DEFAULT 1) AS BEGIN VAR @v, @s := 0, @c := 0; WHILE @v IN cur DO IF @v IS NOT NULL THEN @s := @s + @v * @w; @c := @c + 1; END IF; END WHILE; RETURN @s / @c; END; SELECT grp, wavg(num), wavg(num, 2) FROM big GROUP BY grp ORDER BY grp; SELECT id, wavg(num) OVER (PARTITION BY grp) FROM big WHERE id < 30 ORDER BY id;",
		"PREPARE p1 FROM 'SELECT id, txt FROM big WHERE num > ? AND grp = ? ORDER BY id LIMIT 5'; EXECUTE p1 USING 30, 'g2'; EXECUTE p1 USING 30, 'g2'; EXECUTE p1 USING 5.5, 'g0'; DISPOSE PREPARE p1;",
		"PREPARE p2 FROM 'UPDATE small SET w = w + :d WHERE grp = :g'; EXECUTE p2 USING 2 AS d, 'g1' AS g; EXECUTE p2 USING 2 AS d, 'g1' AS g; SELECT * FROM small ORDER BY grp;",
		"ECHO 'plain'; PRINTF '%s|%s|%s' USING 'a', 3, 1.5; PRINTF '%s' USING DATETIME_FORMAT('2012-02-03 09:18:15', '%Y/%m/%d'); PRINT 1 + 2;",
		"SET @%C14ENV TO 'abc' || 1; PRINT @%C14ENV; SET @%C14ENV TO ident; PRINT @%C14ENV; UNSET @%C14ENV;",
		"SET @@DATETIME_FORMAT TO '%d.%m.%Y'; SELECT DATETIME('03.02.2012'); SET @@WAIT_TIMEOUT TO 3; SET @@STRICT_EQUAL TO TRUE; SELECT 'a' = 'A'; SET @@STRICT_EQUAL TO FALSE; SHOW @@DATETIME_FORMAT;",
		"EXECUTE 'SELECT %s, UPPER(%s)' USING '1 + 1', '''q'''; EXECUTE 'PRINT ''x'' || ''y''';",
		"SELECT * FROM CSV(',', `small.csv`, 'UTF8', FALSE, FALSE) ORDER BY grp; SELECT COUNT(*) FROM `big.csv`;",
		"SELECT id, txt FROM big ORDER BY num, id FETCH FIRST 5 ROWS WITH TIES; SELECT id FROM big ORDER BY id OFFSET 230 ROWS;",
		"SELECT id, CASE WHEN num IS NULL THEN 'n' WHEN num < 20 THEN 'lo' ELSE 'hi' END, num BETWEEN 10 AND 40, txt LIKE 'a%', -num, dt < '2015-01-01' FROM big ORDER BY id;",
		"SELECT COUNT(*) OVER () FROM small;",
		"SELECT grp, COUNT(*) OVER () AS c FROM small ORDER BY grp;",
	}
	for _, m := range misc {
		q("statement", m, cpu())
	}
	if tier == "thorough" {
		for i := 0; i < 4000; i++ {
			a := aggs[g.r.Intn(len(aggs))]
			an := ans[g.r.Intn(len(ans))]
			o := orders[g.r.Intn(len(orders))]
			q("random-query", fmt.Sprintf("SELECT id, grp, %s FROM big WHERE id %% %d <> 0 ORDER BY %s LIMIT %d; SELECT grp, %s FROM big WHERE num > %d GROUP BY grp ORDER BY grp;",
				an, 2+g.r.Intn(5), o, 5+g.r.Intn(60), a, g.r.Intn(40)), 1+g.r.Intn(6))
		}
	}
}

func (g *c14Gen) writeTables(dir string) {
	// args.csv is padded to >= 240 rows so that whole-table queries split over several workers
	rows := append([][]*string{}, g.args...)
	for i := 0; len(rows) < 240; i++ {
		rows = append(rows, []*string{sp(fmt.Sprintf("pad%d", i)), sp("2"), sp(fmt.Sprint(i % 17)), sp(fmt.Sprintf("%d.5", i%9)), nil, nil, nil})
	}
	writeCSV(filepath.Join(dir, "args.csv"), []string{"k", "n", "a1", "a2", "a3", "a4", "a5"}, rows)
	var big [][]*string
	words := []string{"alpha", "beta", "gamma", "delta", "Alpha", " beta", "epsilon", "zeta", "eta", "theta", "42", "4.2"}
	for i := 1; i <= 240; i++ {
		var num, txt, dt *string
		if i%11 != 0 {
			num = sp(fmt.Sprint((i * 37) % 53))
			if i%7 == 0 {
				num = sp(fmt.Sprintf("%d.25", (i*37)%53))
			}
		}
		if i%13 != 0 {
			txt = sp(words[(i*7)%len(words)])
		}
		if i%5 != 0 {
			dt = sp(fmt.Sprintf("20%02d-%02d-%02d %02d:00:00", 10+i%12, 1+i%12, 1+i%28, i%24))
		}
		big = append(big, []*string{sp(fmt.Sprint(i)), sp(fmt.Sprintf("g%d", i%5)), num, txt, dt})
	}
	writeCSV(filepath.Join(dir, "big.csv"), []string{"id", "grp", "num", "txt", "dt"}, big)
	small := [][]*string{{sp("g0"), sp("zero"), sp("0")}, {sp("g1"), sp("one"), sp("1")}, {sp("g2"), sp("two"), sp("2")}, {sp("g3"), sp("three"), sp("3")}, {sp("g7"), sp("seven"), nil}}
	writeCSV(filepath.Join(dir, "small.csv"), []string{"grp", "name", "w"}, small)
}

// ---- the run ---------------------------------------------------------------------------------------
func c14Tags(off, on *c14Result) []string {
	tags := []string{}
	for _, r := range []*c14Result{off, on} {
		if r == nil || r.TreeSame {
			continue
		}
		// F-C14-1: Analyze replaces the `*` argument of an aggregate used as analytic function by the
		// literal 1, in the slice shared with the parsed statement
		if strings.HasSuffix(r.DiffPath, ".Args[0]") && strings.HasPrefix(r.DiffOld, "parser.AllColumns") && strings.HasPrefix(r.DiffNew, "parser.PrimitiveType") {
			tags = append(tags, "analytic-args-overwrite")
			break
		}
	}
	return tags
}

func runC14(seed int64, tier string, out string) {
	if os.Getenv("C14_CHILD") != "" {
		c14Child()
		return
	}
	r := rand.New(rand.NewSource(seed))
	meta := newMeta("C14", seed)
	meta.Rule = "static part: EVERY value.Discard call site, constructor of lib/value, write through a lib/parser value and write to a pooled cell of the current source (no sampling). Dynamic part: for every function registered in query.Functions operand vectors (classes int/float/text/numeric text/datetime text/NULL/boolean, arities 0-5) that evaluate without error are searched; each vector is run as literal, table-cell, variable, WHILE-loop, user-defined-function and prepared-statement program, each function once over all >= 240 rows of a table with 2-4 workers; plus operator expressions and a corpus of GROUP BY / ORDER BY / analytic / DML / cursor / view / flag statements over a 240-row table with cpu > 1. Every program is parsed once and its tree executed twice on fresh transactions, with the pool active and with poisoning. A program is non-trivial when its first evaluation reports no error; distinct = distinct (form, function, operand classes) or distinct statement text."

	// 1. fact base ----------------------------------------------------------------------------------
	facts, coqFacts, err := c14RunTranslator(out, meta)
	if err != nil {
		fmt.Fprintln(os.Stderr, "C14:", err)
		os.Exit(3)
	}
	// tags only (the decision is taken in Coq): a site whose ONLY defect is a constructor that is not
	// fresh is grouped under that constructor, so that one broken constructor is one violation line
	fresh := map[string]bool{}
	for round := 0; round <= len(facts.Ctors); round++ {
		for _, c := range facts.Ctors {
			ok := len(c.Rets) > 0
			for _, r := range c.Rets {
				if !(r.Kind == "poolget" || r.Kind == "singleton" || r.Kind == "ctor" && fresh[r.Ctor]) {
					ok = false
				}
			}
			fresh[c.Name] = ok
		}
	}
	siteTag := func(s c14Site) string {
		if s.Shape != "other" && len(s.Escapes) == 0 && len(s.UseAfter) == 0 {
			for _, d := range s.Defs {
				if d.Kind == "other" {
					return "discard-site:" + s.Identity
				}
			}
			for _, d := range s.Defs {
				if d.Kind == "ctor" && !fresh[d.Ctor] {
					return "ctor:" + d.Ctor
				}
			}
		}
		return "discard-site:" + s.Identity
	}
	for _, s := range facts.Sites {
		c := map[string]interface{}{"what": "value.Discard call site", "site": s.Identity, "at": fmt.Sprintf("%s:%d", s.File, s.Line),
			"shape": s.Shape, "definitions": s.Defs, "escapes": s.Escapes, "uses_after_the_call": s.UseAfter, "tags": []string{siteTag(s)}}
		if s.Allow != "" {
			c["allowlisted_because"] = s.Allow
			meta.Notes = append(meta.Notes, "allowlisted Discard site (trusted, translator/allowlist_c14.json): "+s.Identity+" -- "+s.Allow)
			meta.Distribution["site:allowlisted"]++
		} else {
			meta.Distribution["site:"+s.Shape]++
		}
		meta.Cases[fmt.Sprint(s.ID)] = c
	}
	for _, w := range facts.AWrites {
		tag := "ast-write:" + w.Identity
		if k, ok := c14KnownWriteSites[w.Identity]; ok {
			tag = k
		}
		meta.Distribution["ast-write:"+w.Class]++
		meta.Cases[fmt.Sprint(w.ID)] = map[string]interface{}{"what": "assignment through a lib/parser value", "site": w.Identity,
			"at": fmt.Sprintf("%s:%d", w.File, w.Line), "class": w.Class, "why": w.Why, "tags": []string{tag}}
	}
	for _, c := range facts.Ctors {
		meta.Cases[fmt.Sprint(2000+c.ID)] = map[string]interface{}{"what": "constructor of lib/value", "name": c.Name, "at": fmt.Sprintf("%s:%d", c.File, c.Line),
			"returns": c.Rets, "tags": []string{"ctor:" + c.Name}}
	}
	for _, w := range facts.CWrites {
		meta.Cases[fmt.Sprint(w.ID)] = map[string]interface{}{"what": "write to a pooled cell / Put into a pool", "at": fmt.Sprintf("%s:%d", w.File, w.Line),
			"func": w.Func, "target": w.Lhs, "initialises_object_from_pool": w.Fresh, "tags": []string{"cell-write:" + w.Func + ":" + w.Lhs}}
	}
	for _, n := range facts.Notes {
		meta.Notes = append(meta.Notes, "translator: "+n)
	}
	meta.Evaluations += len(facts.Sites) + len(facts.AWrites) + len(facts.Ctors) + len(facts.CWrites)

	// 2. programs -----------------------------------------------------------------------------------
	perFn, nOps := 2, 240
	if tier == "thorough" {
		perFn, nOps = 24, 9000
	}
	g := &c14Gen{r: r, meta: meta}
	vs := c14Discover(r, perFn, meta)
	sc := newScratch()
	defer sc.Close()
	g.functionPrograms(vs)
	g.probe = sc.Path("probe")
	if err := os.MkdirAll(g.probe, 0755); err != nil {
		panic(err)
	}
	g.writeTables(g.probe) // args.csv is complete once the function programs exist
	g.wholeTablePrograms(vs)
	g.operatorPrograms(nOps)
	g.queryPrograms(tier)
	dirs := map[string]string{}
	for _, mode := range []string{"off", "on"} {
		d := sc.Path(mode)
		if err := os.MkdirAll(d, 0755); err != nil {
			panic(err)
		}
		g.writeTables(d)
		dirs[mode] = d
	}
	pj, _ := json.Marshal(g.progs)
	progFile := sc.Path("programs.json")
	if err := os.WriteFile(progFile, pj, 0644); err != nil {
		panic(err)
	}
	_ = os.WriteFile(filepath.Join(out, "programs.json"), pj, 0644)

	// 3. the two processes ----------------------------------------------------------------------------
	self, err := os.Executable()
	if err != nil {
		panic(err)
	}
	type childRes struct {
		out c14ChildOut
		err string
		at  string // id of the program that was running when the process died
	}
	results := map[string]*childRes{}
	done := make(chan struct{}, 2)
	for _, mode := range []string{"off", "on"} {
		cr := &childRes{}
		results[mode] = cr
		go func(mode string, cr *childRes) {
			defer func() { done <- struct{}{} }()
			resFile := sc.Path("res_" + mode + ".json")
			env := []string{"C14_CHILD=" + mode, "C14_PROGRAMS=" + progFile, "C14_RESULT=" + resFile, "C14_REPO=" + dirs[mode], "TMPDIR=" + sc.Dir}
			if mode == "on" {
				env = append(env, "CSVQ_VERIF_POISON=1")
			}
			limit := 600 * time.Second
			if tier == "thorough" {
				limit = 2400 * time.Second
			}
			rr := runCmd(dirs[mode], []string{self, "-prop", "C14", "-seed", fmt.Sprint(seed), "-tier", tier, "-out", sc.Path("childout_" + mode)}, "", limit, env...)
			raw, e := os.ReadFile(resFile)
			if rr.Code != 0 || rr.TimedOut || e != nil {
				cr.err = fmt.Sprintf("exit=%d timeout=%v %s %s", rr.Code, rr.TimedOut, c14Trunc(rr.Stderr, 1500), c14Trunc(rr.Stdout, 300))
				if cur, e2 := os.ReadFile(resFile + ".current"); e2 == nil {
					cr.at = string(cur)
				}
				return
			}
			if e := json.Unmarshal(raw, &cr.out); e != nil {
				cr.err = e.Error()
			}
		}(mode, cr)
	}
	<-done
	<-done
	crashed := false
	for _, mode := range []string{"off", "on"} {
		if results[mode].err != "" {
			crashed = true
			var prog interface{}
			for _, p := range g.progs {
				if fmt.Sprint(p.ID) == results[mode].at {
					prog = p
				}
			}
			meta.Direct = append(meta.Direct, DirectViolation{Key: "child-crash-" + mode,
				What: "the process that executes the corpus with the pool " + map[string]string{"off": "active", "on": "poisoned"}[mode] + " died (a panic on a worker goroutine, memory exhaustion or a timeout) while running the program in `case`: " + results[mode].err,
				Case: map[string]interface{}{"mode": mode, "program": prog}})
		}
	}

	// 4. cases ----------------------------------------------------------------------------------------
	hook := results["on"].err == "" && results["on"].out.Hook
	if results["off"].err == "" && results["off"].out.Hook {
		meta.Direct = append(meta.Direct, DirectViolation{Key: "hook-always-on", What: "Discard poisons although CSVQ_VERIF_POISON is not set: the hook is not inert by default", Case: nil})
	}
	if !hook {
		meta.Notes = append(meta.Notes, "POISON HOOK NOT PRESENT in this build of /repo (hooks/c14_poison_discard.patch not applied): the poisoned pass degenerates to a second pool-active pass; only the tree-unchanged, evaluate-twice and static checks were decisive")
		meta.Distribution["hook-absent"]++
	} else {
		meta.Distribution["hook-present"]++
	}
	w := &shardWriter{dir: out, prop: "C14", max: 1500, meta: meta,
		header: "From Coq Require Import NArith List Bool.\nImport ListNotations.\nRequire Import Csvq.Model.Pool Csvq.Harness.H14.\nOpen Scope N_scope.\n",
		footer: func(ls []string) string {
			return "Definition M := Eval vm_compute in (check_runs rcases ++ (if demo_ok then [] else [(9, 0)])).\nPrint M.\n"
		}}
	norm := func(s, dir string) string { return strings.ReplaceAll(s, dir, "<REPO>") }
	byID := func(cr *childRes) map[int]*c14Result {
		m := map[int]*c14Result{}
		for i := range cr.out.Results {
			m[cr.out.Results[i].ID] = &cr.out.Results[i]
		}
		return m
	}
	offR, onR := byID(results["off"]), byID(results["on"])
	distinct := map[string]bool{}
	dynFailed := crashed
	b2c := func(b bool) string { return coqBool(b) }
	samples := 0
	for _, p := range g.progs {
		off, on := offR[p.ID], onR[p.ID]
		if off == nil {
			continue // the off child crashed: reported above
		}
		has := hook && on != nil
		if on == nil {
			on = off
		}
		// digests are taken over the full outputs inside the children; the scratch directory name is the
		// only legitimate difference and is normalised there by running both in directories of equal
		// depth and replacing them here only in the excerpts
		marker := has && on.Marker != "" && off.Marker == ""
		meta.Evaluations += 4
		if !off.Err1 {
			if p.Fn != "" || strings.HasPrefix(p.Kind, "operator") {
				distinct[p.Kind+"|"+p.Fn+"|"+p.Sig] = true
			} else {
				distinct[p.Kind+"|"+p.SQL] = true
			}
			meta.Distribution["result:ok"]++
		} else {
			meta.Distribution["result:error"]++
		}
		bad := (has && off.H1 != on.H1) || marker || !off.TreeSame || (has && !on.TreeSame) || off.H1 != off.H2 || (has && on.H1 != on.H2)
		tags := c14Tags(off, on)
		if bad && len(tags) == 0 {
			dynFailed = true
		}
		c := map[string]interface{}{"kind": p.Kind, "sql": p.SQL, "cpu": p.CPU, "tags": tags}
		if bad || samples < 4 && (p.Kind == "while" || p.Kind == "prepared" || p.Kind == "analytic" || p.Kind == "cell") && !off.Err1 {
			c["pool_active_1st"] = norm(off.Out1, dirs["off"])
			c["pool_active_2nd"] = norm(off.Out2, dirs["off"])
			if has {
				c["poisoned_1st"] = norm(on.Out1, dirs["on"])
				c["poisoned_2nd"] = norm(on.Out2, dirs["on"])
				c["poison_marker"] = on.Marker
			}
			c["tree_diff_pool_active"] = off.TreeDiff
			c["tree_diff_poisoned"] = on.TreeDiff
			c["statements_before"] = off.Before
			c["statements_after"] = off.After
			if !bad && samples < 4 {
				samples++
				meta.Samples = append(meta.Samples, c)
			}
		}
		meta.Cases[fmt.Sprint(p.ID)] = c
		w.add("rcases:rcase", fmt.Sprintf("mkR %d %s 0x%x 0x%x 0x%x 0x%x %s %s %s", p.ID, b2c(has), off.H1, off.H2, on.H1, on.H2, b2c(off.TreeSame), b2c(on.TreeSame), b2c(marker)))
	}
	w.flush()
	meta.Distinct = len(distinct)

	// the fact-base shard, told whether the dynamic part already has a concrete failing program
	if dynFailed {
		coqFacts = strings.Replace(coqFacts, "Definition dyn_failed : bool := false.", "Definition dyn_failed : bool := true.", 1)
	}
	if err := os.WriteFile(filepath.Join(out, "Sites.v"), []byte(coqFacts), 0644); err != nil {
		panic(err)
	}
	meta.Shards = append(meta.Shards, "Sites.v")
	okSites := 0
	for _, s := range facts.Sites {
		if s.Shape == "ident" && len(s.Escapes) == 0 && len(s.UseAfter) == 0 {
			okSites++
		}
	}
	meta.Samples = append(meta.Samples, map[string]interface{}{"fact_base": fmt.Sprintf("%d Discard sites (%d plain fresh locals), %d constructors, %d writes through parser values, %d cell writes",
		len(facts.Sites), okSites, len(facts.Ctors), len(facts.AWrites), len(facts.CWrites)), "first_site": facts.Sites[0]})
	meta.write(out)
}
