package main

// C14, child side: executes the generated programs through the library -- parser.Parse once, then the
// SAME tree twice through Processor.Execute on fresh transactions with stdout captured -- and takes a
// deep reflective dump of the syntax tree before / between / after.  The parent starts this process
// twice: with the pool active, and with CSVQ_VERIF_POISON=1 (hooks/c14_poison_discard.patch: Discard
// poisons the object and does not re-issue it).  No symbol of the hook is referenced, so the harness
// builds whether or not the patch is applied; the child probes the behaviour instead.

import (
	"context"
	"encoding/json"
	"fmt"
	"hash/fnv"
	"math"
	"os"
	"reflect"
	"sort"
	"strings"
	"time"

	"github.com/mithrandie/csvq/lib/file"
	"github.com/mithrandie/csvq/lib/parser"
	"github.com/mithrandie/csvq/lib/query"
	"github.com/mithrandie/csvq/lib/value"
)

type c14Program struct {
	ID   int    `json:"id"`
	Kind string `json:"kind"` // literal | cell | cells-all | variable | while | udf | prepared | operator | query | ...
	Fn   string `json:"fn,omitempty"`
	Sig  string `json:"sig,omitempty"` // operand classes
	SQL  string `json:"sql"`
	CPU  int    `json:"cpu"`
}

type c14Result struct {
	ID       int    `json:"id"`
	Out1     string `json:"out1"` // truncated
	Out2     string `json:"out2"`
	H1       uint64 `json:"h1"`
	H2       uint64 `json:"h2"`
	Err1     bool   `json:"err1"`
	TreeSame bool   `json:"tree_same"`
	TreeDiff string `json:"tree_diff,omitempty"` // first differing dump line: path | before | after
	DiffPath string `json:"diff_path,omitempty"`
	DiffOld  string `json:"diff_old,omitempty"`
	DiffNew  string `json:"diff_new,omitempty"`
	Marker   string `json:"marker,omitempty"` // poison marker seen in output / tree
	Before   string `json:"before"`           // String() of the statements before execution (truncated)
	After    string `json:"after"`
}

type c14ChildOut struct {
	Hook    bool        `json:"hook"` // Discard poisons in this process
	Results []c14Result `json:"results"`
}

const (
	c14MarkerString = "\x00DISCARDED"
	c14MarkerInt    = "-9223372036854775807"
	c14MarkerFloat  = "7ff8dead0000c0de"
)

func c14Digest(s string) uint64 {
	h := fnv.New64a()
	_, _ = h.Write([]byte(s))
	return h.Sum64()
}

func c14Trunc(s string, n int) string {
	if len(s) <= n {
		return s
	}
	return s[:n] + fmt.Sprintf("...[%d bytes]", len(s))
}

// c14HookActive: does Discard poison in this process?
func c14HookActive() bool {
	s := value.NewString("c14-probe")
	value.Discard(s)
	active := s.Raw() != "c14-probe"
	if !active {
		// give the object back the value a later New* would overwrite anyway; nothing else refers to it
		_ = s
	}
	return active
}

// ---- deep dump of a syntax tree -----------------------------------------------------------------
type c14Dumper struct {
	lines []string
	seen  map[uintptr]bool
}

func (d *c14Dumper) emit(path, typ, val string) {
	d.lines = append(d.lines, path+"\t"+typ+"\t"+val)
}

func (d *c14Dumper) walk(path string, v reflect.Value, depth int) {
	if depth > 60 {
		d.emit(path, "<depth>", "")
		return
	}
	if !v.IsValid() {
		d.emit(path, "<invalid>", "")
		return
	}
	switch v.Kind() {
	case reflect.Interface:
		if v.IsNil() {
			d.emit(path, "nil-interface", "")
			return
		}
		d.walk(path, v.Elem(), depth+1)
	case reflect.Ptr:
		if v.IsNil() {
			d.emit(path, v.Type().String(), "nil")
			return
		}
		t := v.Type().Elem()
		pk := t.PkgPath()
		if !strings.HasSuffix(pk, "/lib/parser") && !strings.HasSuffix(pk, "/lib/value") && pk != "time" {
			d.emit(path, v.Type().String(), "non-nil")
			return
		}
		if pk == "time" {
			d.emit(path, v.Type().String(), "non-nil") // *time.Location
			return
		}
		d.walk(path, v.Elem(), depth+1)
	case reflect.Struct:
		t := v.Type()
		d.emit(path, t.String(), "")
		for i := 0; i < v.NumField(); i++ {
			d.walk(path+"."+t.Field(i).Name, v.Field(i), depth+1)
		}
	case reflect.Slice, reflect.Array:
		if v.Kind() == reflect.Slice && v.IsNil() {
			d.emit(path, v.Type().String(), "nil")
			return
		}
		d.emit(path, v.Type().String(), fmt.Sprintf("len=%d", v.Len()))
		for i := 0; i < v.Len(); i++ {
			d.walk(fmt.Sprintf("%s[%d]", path, i), v.Index(i), depth+1)
		}
	case reflect.Map:
		keys := v.MapKeys()
		ks := make([]string, len(keys))
		for i, k := range keys {
			ks[i] = fmt.Sprint(k)
		}
		sort.Strings(ks)
		d.emit(path, v.Type().String(), strings.Join(ks, ","))
	case reflect.String:
		d.emit(path, "string", fmt.Sprintf("%q", v.String()))
	case reflect.Bool:
		d.emit(path, "bool", fmt.Sprint(v.Bool()))
	case reflect.Int, reflect.Int8, reflect.Int16, reflect.Int32, reflect.Int64:
		d.emit(path, v.Type().String(), fmt.Sprint(v.Int()))
	case reflect.Uint, reflect.Uint8, reflect.Uint16, reflect.Uint32, reflect.Uint64, reflect.Uintptr:
		d.emit(path, v.Type().String(), fmt.Sprint(v.Uint()))
	case reflect.Float32, reflect.Float64:
		d.emit(path, v.Type().String(), fmt.Sprintf("%016x", math.Float64bits(v.Float())))
	case reflect.Func, reflect.Chan, reflect.UnsafePointer:
		d.emit(path, v.Type().String(), fmt.Sprint(v.IsNil()))
	default:
		d.emit(path, v.Type().String(), "?")
	}
}

func c14DumpTree(stmts []parser.Statement) []string {
	d := &c14Dumper{seen: map[uintptr]bool{}}
	for i, s := range stmts {
		d.walk(fmt.Sprintf("[%d]", i), reflect.ValueOf(&s).Elem(), 0)
	}
	return d.lines
}

func c14FirstDiff(a, b []string) (path, before, after string) {
	n := len(a)
	if len(b) < n {
		n = len(b)
	}
	for i := 0; i < n; i++ {
		if a[i] != b[i] {
			pa := strings.SplitN(a[i], "\t", 2)
			pb := strings.SplitN(b[i], "\t", 2)
			return pa[0], pa[1], pb[1]
		}
	}
	if len(a) != len(b) {
		return "<length>", fmt.Sprint(len(a)), fmt.Sprint(len(b))
	}
	return "", "", ""
}

func c14Strings(stmts []parser.Statement) string {
	var b strings.Builder
	for _, s := range stmts {
		if st, ok := s.(fmt.Stringer); ok {
			b.WriteString(st.String())
		} else {
			b.WriteString(fmt.Sprintf("%T", s))
		}
		b.WriteString(";\n")
	}
	return b.String()
}

// ---- execution -----------------------------------------------------------------------------------
func c14ExecOnce(stmts []parser.Statement, repoDir string, cpu int) (out string, failed bool) {
	defer func() {
		if r := recover(); r != nil {
			out = out + fmt.Sprintf("\n--PANIC: %v", r)
			failed = true
		}
	}()
	sess := query.NewSession()
	so := query.NewOutput()
	sess.SetStdout(so)
	sess.SetStderr(query.NewDiscard())
	tx, err := query.NewTransaction(context.Background(), file.DefaultWaitTimeout, file.DefaultRetryDelay, sess)
	if err != nil {
		return "--TX: " + err.Error(), true
	}
	tx.Flags.SetLocation("UTC")
	if err := tx.Flags.SetRepository(repoDir); err != nil {
		return "--REPO: " + err.Error(), true
	}
	tx.Flags.SetQuiet(false)
	tx.Flags.SetColor(false)
	tx.Flags.SetCPU(cpu)
	tx.UpdateWaitTimeout(2, 10*time.Millisecond)
	proc := query.NewProcessor(tx)
	ctx, cancel := context.WithTimeout(context.Background(), 20*time.Second)
	defer cancel()
	flow, err := proc.Execute(ctx, stmts)
	var b strings.Builder
	b.WriteString(so.String())
	b.WriteString(fmt.Sprintf("\n--flow: %v", flow))
	if err != nil {
		b.WriteString("\n--error: " + err.Error())
		failed = true
	}
	_ = proc.AutoRollback()
	_ = proc.ReleaseResourcesWithErrors()
	return b.String(), failed
}

func c14FindMarker(s string) string {
	switch {
	case strings.Contains(s, c14MarkerString) || strings.Contains(s, "DISCARDED"):
		return "string"
	case strings.Contains(s, c14MarkerInt):
		return "integer"
	case strings.Contains(s, c14MarkerFloat):
		return "float"
	}
	return ""
}

func c14RunProgram(p c14Program, repoDir string) c14Result {
	res := c14Result{ID: p.ID}
	stmts, _, err := parser.Parse(p.SQL, "", false, false)
	if err != nil {
		res.Out1 = "--PARSE: " + err.Error()
		res.Out2 = res.Out1
		res.H1, res.H2 = c14Digest(res.Out1), c14Digest(res.Out2)
		res.Err1, res.TreeSame = true, true
		return res
	}
	d0 := c14DumpTree(stmts)
	res.Before = c14Trunc(c14Strings(stmts), 600)
	o1, f1 := c14ExecOnce(stmts, repoDir, p.CPU)
	d1 := c14DumpTree(stmts)
	o2, _ := c14ExecOnce(stmts, repoDir, p.CPU)
	d2 := c14DumpTree(stmts)
	// the scratch directory is the only legitimate difference between the two processes
	o1, o2 = strings.ReplaceAll(o1, repoDir, "<REPO>"), strings.ReplaceAll(o2, repoDir, "<REPO>")
	res.After = c14Trunc(c14Strings(stmts), 600)
	res.Out1, res.Out2 = c14Trunc(o1, 1500), c14Trunc(o2, 1500)
	res.H1, res.H2 = c14Digest(o1), c14Digest(o2)
	res.Err1 = f1
	res.TreeSame = true
	if path, a, b := c14FirstDiff(d0, d1); path != "" {
		res.TreeSame, res.DiffPath, res.DiffOld, res.DiffNew = false, path, a, b
	} else if path, a, b := c14FirstDiff(d1, d2); path != "" {
		res.TreeSame, res.DiffPath, res.DiffOld, res.DiffNew = false, path, a, b
	}
	if !res.TreeSame {
		res.TreeDiff = res.DiffPath + " | " + res.DiffOld + " | " + res.DiffNew
	}
	if m := c14FindMarker(o1 + o2); m != "" {
		res.Marker = m + " marker in the output"
	} else if m := c14FindMarker(strings.Join(d2, "\n")); m != "" && c14FindMarker(strings.Join(d0, "\n")) == "" {
		res.Marker = m + " marker in the syntax tree"
	}
	return res
}

// c14Child: entry point of the child process (C14_CHILD=off|on)
func c14Child() {
	progFile, resFile, repoDir := os.Getenv("C14_PROGRAMS"), os.Getenv("C14_RESULT"), os.Getenv("C14_REPO")
	raw, err := os.ReadFile(progFile)
	if err != nil {
		panic(err)
	}
	var progs []c14Program
	if err := json.Unmarshal(raw, &progs); err != nil {
		panic(err)
	}
	out := c14ChildOut{Hook: c14HookActive()}
	for _, p := range progs {
		// a panic on a worker goroutine of csvq cannot be recovered here: leave a trace of where we are
		_ = os.WriteFile(resFile+".current", []byte(fmt.Sprint(p.ID)), 0644)
		out.Results = append(out.Results, c14RunProgram(p, repoDir))
	}
	b, _ := json.Marshal(out)
	if err := os.WriteFile(resFile, b, 0644); err != nil {
		panic(err)
	}
}
