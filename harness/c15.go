package main

// C15: blocks and function calls give declarations a local lifetime and safe shadowing.
// Implementation entry points: parser.Parse + query.Processor.Execute (session stdout captured), the
// csvq binary (`csvq -q -s file`) for exit codes, query.Select over a 400+-row table with --cpu 4
// for concurrent invocations of user-defined functions, query.GetBlockScope for the pool probes.

import (
	"context"
	"fmt"
	"math/rand"
	"os"
	"regexp"
	"runtime"
	"runtime/debug"
	"strconv"
	"strings"
	"time"

	"github.com/mithrandie/csvq/lib/parser"
	"github.com/mithrandie/csvq/lib/query"
	"github.com/mithrandie/csvq/lib/value"
	"github.com/mithrandie/ternary"
)

func init() { runners["C15"] = runC15 }

// ---- observation ------------------------------------------------------------------------------------
var intLine15 = regexp.MustCompile(`^-?[0-9]+$`)

// one PRINT line -> typed value (integers, plain strings, ternaries, NULL: the classes the generated
// fragment can produce; anything else is reported as a harness error, never compared as text)
func parsePrintLine(l string) (value.Primary, bool) {
	switch {
	case l == "NULL":
		return value.NewNull(), true
	case l == "TRUE":
		return value.NewTernary(ternary.TRUE), true
	case l == "FALSE":
		return value.NewTernary(ternary.FALSE), true
	case l == "UNKNOWN":
		return value.NewTernary(ternary.UNKNOWN), true
	case intLine15.MatchString(l):
		i, err := strconv.ParseInt(l, 10, 64)
		if err != nil {
			return nil, false
		}
		return value.NewInteger(i), true
	case len(l) >= 2 && l[0] == '\'' && l[len(l)-1] == '\'' && !strings.ContainsAny(l[1:len(l)-1], "'\\"):
		return value.NewString(l[1 : len(l)-1]), true
	}
	return nil, false
}

func parsePrinted(s string) ([]value.Primary, bool) {
	var out []value.Primary
	if s == "" {
		return out, true
	}
	for _, l := range strings.Split(strings.TrimSuffix(s, "\n"), "\n") {
		v, ok := parsePrintLine(l)
		if !ok {
			return out, false
		}
		out = append(out, v)
	}
	return out, true
}

func errClass15(err error) string {
	switch e := err.(type) {
	case *query.UndeclaredVariableError:
		return "XUndeclVar"
	case *query.VariableRedeclaredError:
		return "XRedeclVar"
	case *query.FunctionNotExistError:
		return "XFuncNotExist"
	case *query.FunctionRedeclaredError:
		return "XFuncRedecl"
	case *query.FunctionArgumentLengthError:
		return "XArgLen"
	case *query.DuplicateParameterError:
		return "XDupParam"
	case *query.IntegerDevidedByZeroError:
		return "XDivZero"
	case *query.UndeclaredCursorError:
		return "XCurUndecl"
	case *query.CursorRedeclaredError:
		return "XCurRedecl"
	case *query.CursorClosedError:
		return "XCurClosed"
	case *query.CursorOpenError:
		return "XCurOpen"
	case *query.CursorFetchLengthError:
		return "XFetchLen"
	case *query.TemporaryTableRedeclaredError:
		return "XTempRedecl"
	case *query.UndeclaredTemporaryTableError:
		return "XTempUndecl"
	case *query.FileNotExistError:
		return "XTableNotExist"
	case *query.ForcedExit:
		return "(XExit " + coqZ(int64(e.Code())) + ")"
	}
	return "XOther"
}

func outcome15(flow query.StatementFlow, err error) (string, string) {
	if err != nil {
		return "(OErr " + errClass15(err) + ")", fmt.Sprintf("error %T: %s", err, err.Error())
	}
	switch flow {
	case query.Terminate:
		return "ONormal", "Terminate"
	case query.Exit:
		return "OExit", "Exit"
	case query.Break:
		return "OBreak", "Break"
	case query.Continue:
		return "OContinue", "Continue"
	case query.Return:
		return "(OReturn VNull)", "Return"
	}
	return "(OErr XOther)", fmt.Sprintf("flow %d", flow)
}

type libRun struct {
	stdout  string
	flow    query.StatementFlow
	err     error
	proc    *query.Processor
	tx      *query.Transaction
	timeout bool
}

// runs a program the way lib/action.Run does (without the final commit): fresh session + transaction,
// stdout captured, quiet, a deadline on the context
func runLib15(dir string, stmts []parser.Statement, cpu int) libRun {
	tx := newTx(dir)
	outw := query.NewOutput()
	tx.Session.SetStdout(outw)
	if cpu > 0 {
		tx.Flags.SetCPU(cpu)
	}
	ctx, cancel := context.WithTimeout(context.Background(), 20*time.Second)
	defer cancel()
	proc := query.NewProcessor(tx)
	flow, err := proc.Execute(ctx, stmts)
	return libRun{stdout: outw.String(), flow: flow, err: err, proc: proc, tx: tx, timeout: ctx.Err() != nil}
}

func showVals15(vs []value.Primary) []string {
	out := make([]string, len(vs))
	for i, v := range vs {
		out[i] = showVal(v)
	}
	return out
}

// blockScopePool probe: whatever the pool hands out now must be clean and pairwise distinct objects
// (a scope released twice comes out twice; a scope released without Clear comes out dirty)
func poolProbe15(k int) string {
	seen := map[*query.SyncMap]bool{}
	for i := 0; i < k; i++ {
		b := query.GetBlockScope()
		if b.Variables.Len() != 0 || b.Cursors.Len() != 0 || b.TemporaryTables.Len() != 0 || b.Functions.Len() != 0 {
			return "a block scope taken from the pool is not empty"
		}
		if seen[b.Variables.SyncMap] {
			return "the pool handed out the same block scope twice"
		}
		seen[b.Variables.SyncMap] = true
	}
	return ""
}

// every GetBlockScope matched by exactly one PutBlockScope, on every exit path: with one P and the
// collector off, sync.Pool is a plain LIFO store, so after seeding it with K known objects and running
// procedures (each root scope closed by the harness, as nothing else owns it), the next K Gets must
// return exactly the seeded objects: a missing release shows up as a brand-new object, a double
// release as a repeated one
func poolBalanceProbe15(dir string, progs [][]parser.Statement) string {
	const K = 96
	old := runtime.GOMAXPROCS(1)
	defer runtime.GOMAXPROCS(old)
	gc := debug.SetGCPercent(-1)
	defer debug.SetGCPercent(gc)
	seeded := map[*query.SyncMap]bool{}
	var bs []query.BlockScope
	for i := 0; i < K; i++ {
		b := query.GetBlockScope()
		bs = append(bs, b)
		seeded[b.Variables.SyncMap] = true
	}
	for _, b := range bs {
		query.PutBlockScope(b)
	}
	for _, stmts := range progs {
		res := runLib15(dir, stmts, 0)
		res.proc.Close()
	}
	seen := map[*query.SyncMap]bool{}
	for i := 0; i < K; i++ {
		b := query.GetBlockScope()
		if !seeded[b.Variables.SyncMap] {
			return fmt.Sprintf("after %d procedures the pool no longer holds the %d seeded block scopes (Get #%d returned a new object): some CreateChild was not matched by a CloseCurrentBlock", len(progs), K, i)
		}
		if seen[b.Variables.SyncMap] {
			return "the pool handed out the same block scope twice"
		}
		seen[b.Variables.SyncMap] = true
	}
	return ""
}

func runC15(seed int64, tier string, out string) {
	r := rand.New(rand.NewSource(seed))
	meta := newMeta("C15", seed)
	meta.Rule = "procedures generated from the grammar of Csvq.Model.Proc (VAR/:=/DISPOSE/PRINT, IF/ELSEIF/ELSE, CASE, WHILE, WHILE..IN cursor, BREAK/CONTINUE/RETURN/EXIT, function declarations with defaults and calls incl. the recursive templates fact/fib/ack/sumto/iseven-isodd and firstover (a cursor loop inside a function left by RETURN), cursors, temporary tables; nesting depth <= 6; names re-declared in inner blocks; assignments to outer variables; a few deliberate mistakes: undeclared names, redeclarations, wrong argument counts, division by zero). " +
		"Each program is rendered as SQL and as a Coq term; the SQL is parsed by parser.Parse and the parser's AST is translated back to the same Coq term (must be identical). lib cases: Processor.Execute with captured stdout - PRINT lines as typed values, final flow and error class compared with Model.Proc.run_heap; bin cases: the same program through build/csvq -q -s - stdout and exit code; ctx cases: parser accepts the placement of BREAK/CONTINUE/RETURN/EXIT iff Model.Proc.wf_stmt; rows cases: SELECT f(c1) FROM big WHERE g(c1) over >= 400 rows with cpu 4 vs one model invocation per row. " +
		"A case is non-trivial when the program has at least one nested block and prints at least one line; distinct = distinct SQL texts among those."
	header := "From Coq Require Import ZArith NArith List Floats.\nRequire Import Csvq.Model.Base Csvq.Model.Value Csvq.Model.Compare Csvq.Model.Arith Csvq.Model.Proc Csvq.Harness.H15.\nOpen Scope list_scope.\n"
	w := &shardWriter{dir: out, prop: "C15", max: 150, meta: meta, header: header,
		footer: func(ls []string) string {
			get := func(p string) string {
				for _, l := range ls {
					if strings.HasPrefix(l, p+":") {
						return p
					}
				}
				return "[]"
			}
			return fmt.Sprintf("Definition M := Eval vm_compute in (check_lib %s ++ check_bin %s ++ check_ctx %s ++ check_rows %s).\nPrint M.\n",
				get("lcases"), get("bcases"), get("wcases"), get("qcases"))
		}}

	nLib, nBin, nCtx, nRows, nRowsBin := 420, 40, 150, 10, 2
	if tier == "thorough" {
		nLib, nBin, nCtx, nRows, nRowsBin = 6000, 400, 1500, 120, 12
	}
	g := &g15{r: r, maxDepth: 6, mistake: 0.025, dist: meta.Distribution}
	sc := newScratch()
	defer sc.Close()
	distinct := map[string]bool{}
	id := 0
	maxProbe := 0
	var balanceProgs [][]parser.Statement
	var balanceSQL []string

	parse := func(sql string) ([]parser.Statement, error) {
		stmts, _, err := parser.Parse(sql, "", false, false)
		return stmts, err
	}

	// ---- lib + bin cases ---------------------------------------------------------------------------
	for i := 0; i < nLib; i++ {
		prog := g.program()
		sql := progSQL(prog)
		term := progCoq(prog)
		stmts, perr := parse(sql)
		if perr != nil {
			panic("harness: generated program does not parse: " + perr.Error() + "\n" + sql)
		}
		back, ok := p15Block(stmts)
		if !ok || back != term {
			panic("harness: the parser's AST does not translate back to the generated term\n" + sql + "\n" + term + "\n" + back)
		}
		res := runLib15(sc.Dir, stmts, 0)
		printed, okp := parsePrinted(res.stdout)
		ocoq, oshow := outcome15(res.flow, res.err)
		d := depth15(prog)
		if len(balanceProgs) < 80 && !res.timeout {
			balanceProgs = append(balanceProgs, stmts)
			balanceSQL = append(balanceSQL, sql)
		}
		if d > maxProbe {
			maxProbe = d
		}
		c := map[string]interface{}{"kind": "lib", "sql": sql, "printed": showVals15(printed), "outcome": oshow, "depth": d}
		if !okp {
			c["unparsed_stdout"] = res.stdout
			meta.Direct = append(meta.Direct, DirectViolation{Key: "print-class", What: "PRINT produced a line outside integer/string/ternary/NULL on a generated program (model fragment cannot produce it)", Case: c})
		}
		if res.timeout {
			meta.Direct = append(meta.Direct, DirectViolation{Key: "nontermination", What: "a generated procedure (terminating by construction) ran into the 20 s deadline", Case: c})
		}
		if msg := poolProbe15(d + 12); msg != "" {
			meta.Direct = append(meta.Direct, DirectViolation{Key: "pool-probe", What: "after a procedure: " + msg, Case: c})
		}
		w.add("lcases:lcase", fmt.Sprintf("mkL %s %s %s %s", coqN(id), term, coqVals(printed), ocoq))
		meta.Cases[fmt.Sprint(id)] = c
		meta.Evaluations++
		meta.Distribution[fmt.Sprintf("lib:depth-%d", d)]++
		meta.Distribution["lib:outcome-"+strings.Fields(strings.Trim(ocoq, "()"))[0]+func() string {
			if res.err != nil {
				return "-" + strings.Fields(strings.Trim(errClass15(res.err), "()"))[0]
			}
			return ""
		}()]++
		if d >= 1 && len(printed) > 0 {
			distinct[sql] = true
		}
		if len(meta.Samples) < 3 && d >= 3 && len(printed) >= 3 && len(sql) < 1500 {
			meta.Samples = append(meta.Samples, c)
		}
		id++

		if i < nBin {
			f := sc.Path(fmt.Sprintf("p%d.sql", i))
			if err := os.WriteFile(f, []byte(sql), 0644); err != nil {
				panic(err)
			}
			rr := runCsvqNoStdin(sc.Dir, []string{"-q", "-s", f}, 30*time.Second)
			bp, okb := parsePrinted(rr.Stdout)
			cb := map[string]interface{}{"kind": "bin", "sql": sql, "stdout": rr.Stdout, "stderr": rr.Stderr, "exit_code": rr.Code}
			if !okb || rr.TimedOut {
				meta.Direct = append(meta.Direct, DirectViolation{Key: "bin-output", What: "csvq -s on a generated procedure timed out or printed a line outside the modelled value classes", Case: cb})
			}
			if m := internalFailure(rr); m != "" {
				meta.Direct = append(meta.Direct, DirectViolation{Key: "internal-failure", What: "csvq -s on a generated procedure: " + m, Case: cb})
			}
			w.add("bcases:bcase", fmt.Sprintf("mkB %s %s %s %s", coqN(id), term, coqVals(bp), coqZ(int64(rr.Code))))
			meta.Cases[fmt.Sprint(id)] = cb
			meta.Evaluations++
			meta.Distribution[fmt.Sprintf("bin:exit-%d", rr.Code)]++
			id++
		}
	}

	// ---- grammar contexts --------------------------------------------------------------------------
	for i := 0; i < nCtx; i++ {
		prog := g.ctxProgram(3)
		sql := progSQL(prog)
		_, perr := parse(sql)
		w.add("wcases:wcase", fmt.Sprintf("mkW %s %s %s", coqN(id), progCoq(prog), coqBool(perr == nil)))
		meta.Cases[fmt.Sprint(id)] = map[string]interface{}{"kind": "ctx", "sql": sql, "parser_accepts": perr == nil}
		meta.Evaluations++
		meta.Distribution[fmt.Sprintf("ctx:accepted-%v", perr == nil)]++
		id++
	}

	// ---- concurrent invocations: user functions in the select list / WHERE of a big table ------------
	for i := 0; i < nRows; i++ {
		id = c15Rows(g, sc, w, meta, id, i, i < nRowsBin)
	}

	// ---- creates and releases balance (incl. error paths, early exits) --------------------------------
	for lo := 0; lo < len(balanceProgs); lo += 20 {
		hi := lo + 20
		if hi > len(balanceProgs) {
			hi = len(balanceProgs)
		}
		meta.Evaluations++
		meta.Distribution["pool-balance-probe"]++
		if msg := poolBalanceProbe15(sc.Dir, balanceProgs[lo:hi]); msg != "" {
			meta.Direct = append(meta.Direct, DirectViolation{Key: "pool-balance", What: msg, Case: map[string]interface{}{"programs": balanceSQL[lo:hi]}})
			break
		}
	}

	// ---- deterministic probes of the property itself (findings) ---------------------------------------
	c15Probes(sc, meta)

	w.flush()
	meta.Distinct = len(distinct)
	meta.Notes = append(meta.Notes, fmt.Sprintf("deepest generated nesting: %d", maxProbe))
	meta.write(out)
}

// pure functions (they write only their own parameters, declare locals, never PRINT): the only kind
// whose concurrent invocations have a defined result
func (g *g15) pureFuncs() ([]*pStmt, string, string) {
	n := pvar("n")
	one := litInt(1)
	ret := func(e *pExpr) *pStmt { return &pStmt{K: "return", E: e} }
	ifs := func(cnd *pExpr, body ...*pStmt) *pStmt { return &pStmt{K: "if", Brs: []pBranch{{C: cnd, Body: body}}} }
	k1 := int64(3 + g.r.Intn(5))
	k2 := int64(2 + g.r.Intn(4))
	glob := litInt(int64(g.r.Intn(50)))
	decls := []*pStmt{{K: "var", X: "base", E: glob}}
	// f: recursive (fact or fib of n % k1) + a loop that counts on a parameter + a shadowing local + the global
	var rec *pStmt
	if g.chance(0.5) {
		rec = &pStmt{K: "func", X: "rec", Params: []pParam{{X: "n"}}, Body: []*pStmt{
			ifs(cmp(">", n, one), ret(arith("*", n, call("rec", arith("-", n, one))))), ret(one)}}
	} else {
		rec = &pStmt{K: "func", X: "rec", Params: []pParam{{X: "n"}}, Body: []*pStmt{
			{K: "var", X: "loc", E: arith("+", n, pvar("base"))},
			ifs(cmp(">", n, one), &pStmt{K: "var", X: "loc", E: litInt(0)}, ret(arith("+", call("rec", arith("-", n, one)), call("rec", arith("-", n, litInt(2)))))),
			ret(arith("-", pvar("loc"), pvar("base")))}}
	}
	f := &pStmt{K: "func", X: "f", Params: []pParam{{X: "n"}, {X: "acc", D: litInt(0)}, {X: "i", D: litInt(0)}}, Body: []*pStmt{
		{K: "var", X: "loc", E: arith("%", n, litInt(k1))},
		{K: "while", E: cmp("<", pvar("i"), litInt(k2)), Body: []*pStmt{
			{K: "expr", E: assign("i", arith("+", pvar("i"), one))},
			{K: "var", X: "loc", E: arith("*", pvar("i"), litInt(10))},
			ifs(cmp("=", arith("%", arith("+", n, pvar("i")), litInt(3)), litInt(0)), &pStmt{K: "continue"}),
			{K: "expr", E: assign("acc", arith("+", pvar("acc"), pvar("loc")))},
		}},
		ret(arith("+", arith("+", call("rec", pvar("loc")), pvar("acc")), pvar("base")))}}
	gq := &pStmt{K: "func", X: "g", Params: []pParam{{X: "n"}}, Body: []*pStmt{
		ifs(cmp("=", arith("%", n, litInt(k2+1)), litInt(0)), ret(&pExpr{K: "lit", V: value.NewTernary(ternary.FALSE)})),
		ret(cmp(">", call("rec", arith("%", n, litInt(4))), litInt(0)))}}
	return append(decls, rec, f, gq), "f", "g"
}

func c15Rows(g *g15, sc *Scratch, w *shardWriter, meta *Meta, id int, i int, alsoBin bool) int {
	prelude, fname, gname := g.pureFuncs()
	n := 400 + g.r.Intn(250)
	rows := make([][]*string, n)
	cells := make([]*string, n)
	for j := range rows {
		v := fmt.Sprint(g.r.Intn(1000))
		if g.r.Intn(40) == 0 {
			v = "x" // non-numeric text: arithmetic yields NULL
		}
		cells[j] = sp(v)
		rows[j] = []*string{cells[j]}
	}
	tbl := fmt.Sprintf("big%d", i)
	writeCSV(sc.Path(tbl+".csv"), []string{"c1"}, rows)
	sql := progSQL(prelude)
	stmts, _, perr := parser.Parse(sql, "", false, false)
	if perr != nil {
		panic("harness: prelude does not parse: " + perr.Error())
	}
	if back, ok := p15Block(stmts); !ok || back != progCoq(prelude) {
		panic("harness: prelude does not translate back")
	}
	res := runLib15(sc.Dir, stmts, 4)
	if res.err != nil {
		panic("harness: prelude failed: " + res.err.Error())
	}
	q := fmt.Sprintf("SELECT %s(c1) FROM %s WHERE %s(c1)", fname, tbl, gname)
	qs, _, perr := parser.Parse(q, "", false, false)
	if perr != nil {
		panic(perr)
	}
	ctx, cancel := context.WithTimeout(context.Background(), 60*time.Second)
	defer cancel()
	view, err := query.Select(ctx, res.proc.ReferenceScope, qs[0].(parser.SelectQuery))
	obs := "None"
	var show interface{}
	if err == nil {
		vr := viewRows(view)
		items := make([]string, len(vr))
		sh := make([]string, 0, 8)
		for j, rr := range vr {
			items[j] = coqVal(rr[0])
			if j < 8 {
				sh = append(sh, showVal(rr[0]))
			}
		}
		obs = "(Some " + coqList(items) + ")"
		show = map[string]interface{}{"rows_out": len(vr), "first": sh}
	} else {
		show = "error: " + err.Error()
	}
	cellTerms := make([]string, n)
	for j, c := range cells {
		cellTerms[j] = coqCell(c)
	}
	w.add("qcases:qcase", fmt.Sprintf("mkQ %s %s %s %s %s %s", coqN(id), progCoq(prelude), coqStr(fname), coqStr(gname), coqList(cellTerms), obs))
	meta.Cases[fmt.Sprint(id)] = map[string]interface{}{"kind": "rows", "prelude": sql, "query": q, "table_rows": n, "cpu": res.tx.Flags.CPU, "observed": show}
	meta.Evaluations++
	meta.Distribution["rows:library-cpu4"]++
	if msg := poolProbe15(24); msg != "" {
		meta.Direct = append(meta.Direct, DirectViolation{Key: "pool-probe", What: "after concurrent invocations: " + msg, Case: q})
	}
	id++
	if alsoBin {
		f := sc.Path(fmt.Sprintf("q%d.sql", i))
		if err := os.WriteFile(f, []byte(sql+q+";\n"), 0644); err != nil {
			panic(err)
		}
		rr := runCsvqNoStdin(sc.Dir, []string{"-q", "--cpu", "4", "-f", "csv", "-N", "-s", f}, 60*time.Second)
		obsb := "None"
		if rr.Code == 0 && !rr.TimedOut {
			var items []string
			good := true
			for _, l := range strings.Split(strings.TrimSuffix(rr.Stdout, "\n"), "\n") {
				if l == "" {
					items = append(items, "VNull")
					continue
				}
				iv, e := strconv.ParseInt(l, 10, 64)
				if e != nil {
					good = false
					break
				}
				items = append(items, coqVal(value.NewInteger(iv)))
			}
			if good {
				obsb = "(Some " + coqList(items) + ")"
			}
		}
		w.add("qcases:qcase", fmt.Sprintf("mkQ %s %s %s %s %s %s", coqN(id), progCoq(prelude), coqStr(fname), coqStr(gname), coqList(cellTerms), obsb))
		meta.Cases[fmt.Sprint(id)] = map[string]interface{}{"kind": "rows-bin", "prelude": sql, "query": q, "table_rows": n, "exit_code": rr.Code, "stderr": rr.Stderr, "stdout_head": firstN(rr.Stdout, 200)}
		meta.Evaluations++
		meta.Distribution["rows:binary-cpu4"]++
		id++
	}
	return id
}

// csvq reads a SELECT without FROM from standard input when that is a pipe; the generated cursors
// (SELECT 1 UNION ALL SELECT 2) must not see one, so stdin is /dev/null here
func runCsvqNoStdin(dir string, args []string, timeout time.Duration) RunResult {
	argv := append([]string{"/bin/sh", "-c", `exec "$@" </dev/null`, "sh", csvqBinary()}, args...)
	return runCmd(dir, argv, "", timeout)
}

func firstN(s string, n int) string {
	if len(s) > n {
		return s[:n]
	}
	return s
}

// the property's own text, probed directly: an inner block may re-declare every kind of object
func c15Probes(sc *Scratch, meta *Meta) {
	type probe struct{ key, what, sql, want string }
	probes := []probe{
		{"var-shadow", "a variable re-declared in an inner block must shadow the outer one", "VAR @a := 1; IF TRUE THEN VAR @a := 2; PRINT @a; END IF; PRINT @a;", "2\n1\n"},
		{"cursor-shadow", "a cursor re-declared in an inner block must shadow the outer one", "DECLARE c CURSOR FOR SELECT 1; OPEN c; IF TRUE THEN DECLARE c CURSOR FOR SELECT 1 UNION ALL SELECT 2; OPEN c; PRINT CURSOR c COUNT; END IF; PRINT CURSOR c COUNT;", "2\n1\n"},
		{"function-shadow", "a function re-declared in an inner block must shadow the outer one", "DECLARE f FUNCTION () AS BEGIN RETURN 1; END; IF TRUE THEN DECLARE f FUNCTION () AS BEGIN RETURN 2; END; PRINT f(); END IF; PRINT f();", "2\n1\n"},
		{"temp-table-no-shadow", "a temporary table re-declared in an inner block must shadow the outer one (csvq answers 'view t is redeclared': DeclareView looks at all blocks)", "DECLARE t VIEW (c1) AS SELECT 1; IF TRUE THEN DECLARE t VIEW (c1); PRINT (SELECT COUNT(*) FROM t); END IF; PRINT (SELECT COUNT(*) FROM t);", "0\n1\n"},
	}
	for _, p := range probes {
		stmts, _, err := parser.Parse(p.sql, "", false, false)
		if err != nil {
			panic(err)
		}
		res := runLib15(sc.Dir, stmts, 0)
		meta.Evaluations++
		meta.Distribution["probe:"+p.key]++
		if res.err != nil || res.stdout != p.want {
			got := res.stdout
			if res.err != nil {
				got += "error: " + res.err.Error()
			}
			meta.Direct = append(meta.Direct, DirectViolation{Key: p.key, What: p.what, Case: map[string]interface{}{"sql": p.sql, "expected_stdout": p.want, "observed": got}})
		}
	}
}
