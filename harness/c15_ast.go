package main

// C15: the harness's own AST of the modelled procedure fragment (mirrors Csvq.Model.Proc), its
// rendering as SQL text and as a Coq term, and the translation of csvq's parser AST back into
// the same Coq term (cross-check that the SQL text means what the Coq term says).

import (
	"fmt"
	"strings"

	"github.com/mithrandie/csvq/lib/parser"
	"github.com/mithrandie/csvq/lib/value"
)

type pExpr struct {
	K    string // lit var assign arith cmp and or not call curopen curcount tempcount
	V    value.Primary
	X    string // variable / function / cursor / table name
	Op   string
	A, B *pExpr
	Args []*pExpr
	Neg  bool
}

type pParam struct {
	X string
	D *pExpr
}

type pBranch struct {
	C    *pExpr
	Body []*pStmt
}

type pStmt struct {
	K      string // var disposevar expr print func disposefunc cursor open close fetch disposecursor temp insert disposetemp if case while whilein break continue return exit
	X      string
	E      *pExpr // init / expression / condition / case value
	Params []pParam
	Body   []*pStmt
	Rows   []value.Primary
	Vars   []string
	Brs    []pBranch
	Els    []*pStmt
	Decl   bool
	Code   int64
}

// ---- SQL ------------------------------------------------------------------------------------------
func c15SqlLit(v value.Primary) string {
	switch x := v.(type) {
	case *value.Integer:
		if x.Raw() < 0 {
			panic("harness: negative literal")
		}
		return fmt.Sprint(x.Raw())
	case *value.String:
		if strings.ContainsAny(x.Raw(), "'\\\"") {
			panic("harness: string literal needs escaping")
		}
		return "'" + x.Raw() + "'"
	case *value.Null:
		return "NULL"
	case *value.Ternary:
		return x.Ternary().String()
	}
	panic(fmt.Sprintf("harness: literal %T", v))
}

func (e *pExpr) sql() string {
	switch e.K {
	case "lit":
		return c15SqlLit(e.V)
	case "var":
		return "@" + e.X
	case "assign":
		return "(@" + e.X + " := " + e.A.sql() + ")"
	case "arith", "cmp":
		return "(" + e.A.sql() + " " + e.Op + " " + e.B.sql() + ")"
	case "and":
		return "(" + e.A.sql() + " AND " + e.B.sql() + ")"
	case "or":
		return "(" + e.A.sql() + " OR " + e.B.sql() + ")"
	case "not":
		return "(NOT " + e.A.sql() + ")"
	case "call":
		as := make([]string, len(e.Args))
		for i, a := range e.Args {
			as[i] = a.sql()
		}
		return e.X + "(" + strings.Join(as, ", ") + ")"
	case "curopen":
		if e.Neg {
			return "(CURSOR " + e.X + " IS NOT OPEN)"
		}
		return "(CURSOR " + e.X + " IS OPEN)"
	case "curcount":
		return "(CURSOR " + e.X + " COUNT)"
	case "tempcount":
		return "(SELECT COUNT(*) FROM " + e.X + ")"
	}
	panic("harness: expr kind " + e.K)
}

func sqlRows(rows []value.Primary) string {
	ps := make([]string, len(rows))
	for i, r := range rows {
		ps[i] = "SELECT " + c15SqlLit(r)
	}
	return strings.Join(ps, " UNION ALL ")
}

func sqlBlock(ss []*pStmt, ind string) string {
	var b strings.Builder
	for _, s := range ss {
		b.WriteString(ind + s.sql(ind) + ";\n")
	}
	return b.String()
}

func sqlVars(vs []string) string {
	out := make([]string, len(vs))
	for i, v := range vs {
		out[i] = "@" + v
	}
	return strings.Join(out, ", ")
}

func (s *pStmt) sql(ind string) string {
	in2 := ind + "  "
	switch s.K {
	case "var":
		if s.E == nil {
			return "VAR @" + s.X
		}
		return "VAR @" + s.X + " := " + s.E.sql()
	case "disposevar":
		return "DISPOSE @" + s.X
	case "expr":
		if s.E.K == "assign" {
			return "@" + s.E.X + " := " + s.E.A.sql()
		}
		return s.E.sql()
	case "print":
		return "PRINT " + s.E.sql()
	case "func":
		ps := make([]string, len(s.Params))
		for i, p := range s.Params {
			ps[i] = "@" + p.X
			if p.D != nil {
				ps[i] += " DEFAULT " + p.D.sql()
			}
		}
		return "DECLARE " + s.X + " FUNCTION (" + strings.Join(ps, ", ") + ") AS BEGIN\n" + sqlBlock(s.Body, in2) + ind + "END"
	case "disposefunc":
		return "DISPOSE FUNCTION " + s.X
	case "cursor":
		return "DECLARE " + s.X + " CURSOR FOR " + sqlRows(s.Rows)
	case "open":
		return "OPEN " + s.X
	case "close":
		return "CLOSE " + s.X
	case "fetch":
		return "FETCH " + s.X + " INTO " + sqlVars(s.Vars)
	case "disposecursor":
		return "DISPOSE CURSOR " + s.X
	case "temp":
		if len(s.Rows) == 0 {
			return "DECLARE " + s.X + " VIEW (c1)"
		}
		return "DECLARE " + s.X + " VIEW (c1) AS " + sqlRows(s.Rows)
	case "insert":
		return "INSERT INTO " + s.X + " VALUES (" + s.E.sql() + ")"
	case "disposetemp":
		return "DISPOSE VIEW " + s.X
	case "if":
		var b strings.Builder
		for i, br := range s.Brs {
			if i == 0 {
				b.WriteString("IF " + br.C.sql() + " THEN\n")
			} else {
				b.WriteString(ind + "ELSEIF " + br.C.sql() + " THEN\n")
			}
			b.WriteString(sqlBlock(br.Body, in2))
		}
		if len(s.Els) > 0 {
			b.WriteString(ind + "ELSE\n" + sqlBlock(s.Els, in2))
		}
		b.WriteString(ind + "END IF")
		return b.String()
	case "case":
		var b strings.Builder
		b.WriteString("CASE")
		if s.E != nil {
			b.WriteString(" " + s.E.sql())
		}
		b.WriteString("\n")
		for _, br := range s.Brs {
			b.WriteString(ind + "WHEN " + br.C.sql() + " THEN\n" + sqlBlock(br.Body, in2))
		}
		if len(s.Els) > 0 {
			b.WriteString(ind + "ELSE\n" + sqlBlock(s.Els, in2))
		}
		b.WriteString(ind + "END CASE")
		return b.String()
	case "while":
		return "WHILE " + s.E.sql() + " DO\n" + sqlBlock(s.Body, in2) + ind + "END WHILE"
	case "whilein":
		d := ""
		if s.Decl {
			d = "VAR "
		}
		return "WHILE " + d + sqlVars(s.Vars) + " IN " + s.X + " DO\n" + sqlBlock(s.Body, in2) + ind + "END WHILE"
	case "break":
		return "BREAK"
	case "continue":
		return "CONTINUE"
	case "return":
		return "RETURN " + s.E.sql()
	case "exit":
		if s.Code == 0 {
			return "EXIT"
		}
		return fmt.Sprintf("EXIT %d", s.Code)
	}
	panic("harness: stmt kind " + s.K)
}

func progSQL(p []*pStmt) string { return sqlBlock(p, "") }

// ---- Coq --------------------------------------------------------------------------------------------
var coqAop = map[string]string{"+": "APlus", "-": "AMinus", "*": "AMul", "/": "ADiv", "%": "AMod"}

func (e *pExpr) coq() string {
	switch e.K {
	case "lit":
		return "(PLit " + coqVal(e.V) + ")"
	case "var":
		return "(PVar " + coqStr(e.X) + ")"
	case "assign":
		return "(PAssign " + coqStr(e.X) + " " + e.A.coq() + ")"
	case "arith":
		return "(PArith " + coqAop[e.Op] + " " + e.A.coq() + " " + e.B.coq() + ")"
	case "cmp":
		op, ok := copToCoq(e.Op)
		if !ok {
			panic("harness: comparison operator " + e.Op)
		}
		return "(PCmp " + op + " " + e.A.coq() + " " + e.B.coq() + ")"
	case "and":
		return "(PAnd " + e.A.coq() + " " + e.B.coq() + ")"
	case "or":
		return "(POr " + e.A.coq() + " " + e.B.coq() + ")"
	case "not":
		return "(PNot " + e.A.coq() + ")"
	case "call":
		as := make([]string, len(e.Args))
		for i, a := range e.Args {
			as[i] = a.coq()
		}
		return "(PCall " + coqStr(e.X) + " " + coqList(as) + ")"
	case "curopen":
		return "(PCurOpen " + coqBool(e.Neg) + " " + coqStr(e.X) + ")"
	case "curcount":
		return "(PCurCount " + coqStr(e.X) + ")"
	case "tempcount":
		return "(PTempCount " + coqStr(e.X) + ")"
	}
	panic("harness: expr kind " + e.K)
}

func coqOptExpr(e *pExpr) string {
	if e == nil {
		return "None"
	}
	return "(Some " + e.coq() + ")"
}

func coqVals(vs []value.Primary) string {
	out := make([]string, len(vs))
	for i, v := range vs {
		out[i] = coqVal(v)
	}
	return coqList(out)
}

func coqNames(vs []string) string {
	out := make([]string, len(vs))
	for i, v := range vs {
		out[i] = coqStr(v)
	}
	return coqList(out)
}

func coqBlock(ss []*pStmt) string {
	out := make([]string, len(ss))
	for i, s := range ss {
		out[i] = s.coq()
	}
	return coqList(out)
}

func coqBranches(bs []pBranch) string {
	out := make([]string, len(bs))
	for i, b := range bs {
		out[i] = "(" + b.C.coq() + ", " + coqBlock(b.Body) + ")"
	}
	return coqList(out)
}

func (s *pStmt) coq() string {
	switch s.K {
	case "var":
		return "(SVar " + coqStr(s.X) + " " + coqOptExpr(s.E) + ")"
	case "disposevar":
		return "(SDisposeVar " + coqStr(s.X) + ")"
	case "expr":
		return "(SExpr " + s.E.coq() + ")"
	case "print":
		return "(SPrint " + s.E.coq() + ")"
	case "func":
		ps := make([]string, len(s.Params))
		for i, p := range s.Params {
			ps[i] = "(" + coqStr(p.X) + ", " + coqOptExpr(p.D) + ")"
		}
		return "(SFunc " + coqStr(s.X) + " " + coqList(ps) + " " + coqBlock(s.Body) + ")"
	case "disposefunc":
		return "(SDisposeFunc " + coqStr(s.X) + ")"
	case "cursor":
		return "(SCursor " + coqStr(s.X) + " " + coqVals(s.Rows) + ")"
	case "open":
		return "(SOpen " + coqStr(s.X) + ")"
	case "close":
		return "(SClose " + coqStr(s.X) + ")"
	case "fetch":
		return "(SFetch " + coqStr(s.X) + " " + coqNames(s.Vars) + ")"
	case "disposecursor":
		return "(SDisposeCursor " + coqStr(s.X) + ")"
	case "temp":
		return "(STemp " + coqStr(s.X) + " " + coqVals(s.Rows) + ")"
	case "insert":
		return "(SInsert " + coqStr(s.X) + " " + s.E.coq() + ")"
	case "disposetemp":
		return "(SDisposeTemp " + coqStr(s.X) + ")"
	case "if":
		return "(SIf " + coqBranches(s.Brs) + " " + coqBlock(s.Els) + ")"
	case "case":
		return "(SCase " + coqOptExpr(s.E) + " " + coqBranches(s.Brs) + " " + coqBlock(s.Els) + ")"
	case "while":
		return "(SWhile " + s.E.coq() + " " + coqBlock(s.Body) + ")"
	case "whilein":
		return "(SWhileIn " + coqBool(s.Decl) + " " + coqNames(s.Vars) + " " + coqStr(s.X) + " " + coqBlock(s.Body) + ")"
	case "break":
		return "SBreak"
	case "continue":
		return "SContinue"
	case "return":
		return "(SReturn " + s.E.coq() + ")"
	case "exit":
		return "(SExit " + coqZ(s.Code) + ")"
	}
	panic("harness: stmt kind " + s.K)
}

func progCoq(p []*pStmt) string { return coqBlock(p) }

// ---- csvq's parser AST -> the same Coq term -----------------------------------------------------------
func p15Expr(e parser.QueryExpression) (string, bool) {
	switch x := e.(type) {
	case parser.PrimitiveType:
		return "(PLit " + coqVal(x.Value) + ")", true
	case parser.Variable:
		return "(PVar " + coqStr(x.Name) + ")", true
	case parser.VariableSubstitution:
		a, ok := p15Expr(x.Value)
		return "(PAssign " + coqStr(x.Variable.Name) + " " + a + ")", ok
	case parser.Parentheses:
		return p15Expr(x.Expr)
	case parser.Arithmetic:
		a, ok1 := p15Expr(x.LHS)
		b, ok2 := p15Expr(x.RHS)
		op := map[int]string{'+': "APlus", '-': "AMinus", '*': "AMul", '/': "ADiv", '%': "AMod"}[x.Operator.Token]
		return fmt.Sprintf("(PArith %s %s %s)", op, a, b), ok1 && ok2 && op != ""
	case parser.Comparison:
		a, ok1 := p15Expr(x.LHS)
		b, ok2 := p15Expr(x.RHS)
		op, ok3 := copToCoq(x.Operator.Literal)
		return fmt.Sprintf("(PCmp %s %s %s)", op, a, b), ok1 && ok2 && ok3
	case parser.Logic:
		a, ok1 := p15Expr(x.LHS)
		b, ok2 := p15Expr(x.RHS)
		switch x.Operator.Token {
		case parser.AND:
			return fmt.Sprintf("(PAnd %s %s)", a, b), ok1 && ok2
		case parser.OR:
			return fmt.Sprintf("(POr %s %s)", a, b), ok1 && ok2
		}
		return "", false
	case parser.UnaryLogic:
		a, ok := p15Expr(x.Operand)
		return "(PNot " + a + ")", ok
	case parser.Function:
		as := make([]string, len(x.Args))
		ok := true
		for i, a := range x.Args {
			t, o := p15Expr(a)
			as[i] = t
			ok = ok && o
		}
		return "(PCall " + coqStr(x.Name) + " " + coqList(as) + ")", ok
	case parser.CursorStatus:
		if x.Type.Token != parser.OPEN {
			return "", false
		}
		return "(PCurOpen " + coqBool(!x.Negation.IsEmpty()) + " " + coqStr(x.Cursor.Literal) + ")", true
	case parser.CursorAttrebute:
		if x.Attrebute.Token != parser.COUNT {
			return "", false
		}
		return "(PCurCount " + coqStr(x.Cursor.Literal) + ")", true
	case parser.Subquery:
		// (SELECT COUNT(*) FROM t)
		q := x.Query
		if q.WithClause != nil || q.OrderByClause != nil || q.LimitClause != nil {
			return "", false
		}
		se, ok := q.SelectEntity.(parser.SelectEntity)
		if !ok || se.WhereClause != nil || se.GroupByClause != nil || se.HavingClause != nil || se.IntoClause != nil {
			return "", false
		}
		sc, ok := se.SelectClause.(parser.SelectClause)
		if !ok || len(sc.Fields) != 1 || !sc.Distinct.IsEmpty() {
			return "", false
		}
		fld, ok := sc.Fields[0].(parser.Field)
		if !ok {
			return "", false
		}
		ag, ok := fld.Object.(parser.AggregateFunction)
		if !ok || strings.ToUpper(ag.Name) != "COUNT" || len(ag.Args) != 1 || !ag.Distinct.IsEmpty() {
			return "", false
		}
		if _, ok := ag.Args[0].(parser.AllColumns); !ok {
			return "", false
		}
		fc, ok := se.FromClause.(parser.FromClause)
		if !ok || len(fc.Tables) != 1 {
			return "", false
		}
		tb, ok := fc.Tables[0].(parser.Table)
		if !ok || tb.Alias != nil {
			return "", false
		}
		id, ok := tb.Object.(parser.Identifier)
		if !ok {
			return "", false
		}
		return "(PTempCount " + coqStr(id.Literal) + ")", true
	}
	return "", false
}

// SELECT l1 UNION ALL SELECT l2 ... -> the literals
func p15Rows(q parser.QueryExpression) ([]value.Primary, bool) {
	switch x := q.(type) {
	case parser.SelectQuery:
		if x.WithClause != nil || x.OrderByClause != nil || x.LimitClause != nil {
			return nil, false
		}
		return p15Rows(x.SelectEntity)
	case parser.SelectSet:
		if x.Operator.Token != parser.UNION || x.All.IsEmpty() {
			return nil, false
		}
		l, ok1 := p15Rows(x.LHS)
		r, ok2 := p15Rows(x.RHS)
		return append(l, r...), ok1 && ok2
	case parser.SelectEntity:
		if x.FromClause != nil || x.WhereClause != nil || x.GroupByClause != nil || x.HavingClause != nil || x.IntoClause != nil {
			return nil, false
		}
		sc, ok := x.SelectClause.(parser.SelectClause)
		if !ok || len(sc.Fields) != 1 {
			return nil, false
		}
		fld, ok := sc.Fields[0].(parser.Field)
		if !ok {
			return nil, false
		}
		pt, ok := fld.Object.(parser.PrimitiveType)
		if !ok {
			return nil, false
		}
		return []value.Primary{pt.Value}, true
	}
	return nil, false
}

func p15Block(ss []parser.Statement) (string, bool) {
	out := make([]string, len(ss))
	ok := true
	for i, s := range ss {
		t, o := p15Stmt(s)
		out[i] = t
		ok = ok && o
	}
	return coqList(out), ok
}

func p15Vars(vs []parser.Variable) string {
	out := make([]string, len(vs))
	for i, v := range vs {
		out[i] = coqStr(v.Name)
	}
	return coqList(out)
}

func p15Stmt(s parser.Statement) (string, bool) {
	switch x := s.(type) {
	case parser.VariableDeclaration:
		if len(x.Assignments) != 1 {
			return "", false
		}
		a := x.Assignments[0]
		if a.Value == nil {
			return "(SVar " + coqStr(a.Variable.Name) + " None)", true
		}
		e, ok := p15Expr(a.Value)
		return "(SVar " + coqStr(a.Variable.Name) + " (Some " + e + "))", ok
	case parser.DisposeVariable:
		return "(SDisposeVar " + coqStr(x.Variable.Name) + ")", true
	case parser.Print:
		e, ok := p15Expr(x.Value)
		return "(SPrint " + e + ")", ok
	case parser.FunctionDeclaration:
		ps := make([]string, len(x.Parameters))
		ok := true
		for i, p := range x.Parameters {
			d := "None"
			if p.Value != nil {
				t, o := p15Expr(p.Value)
				ok = ok && o
				d = "(Some " + t + ")"
			}
			ps[i] = "(" + coqStr(p.Variable.Name) + ", " + d + ")"
		}
		b, o := p15Block(x.Statements)
		return "(SFunc " + coqStr(x.Name.Literal) + " " + coqList(ps) + " " + b + ")", ok && o
	case parser.DisposeFunction:
		return "(SDisposeFunc " + coqStr(x.Name.Literal) + ")", true
	case parser.CursorDeclaration:
		if x.Statement.Literal != "" {
			return "", false
		}
		rows, ok := p15Rows(x.Query)
		return "(SCursor " + coqStr(x.Cursor.Literal) + " " + coqVals(rows) + ")", ok
	case parser.OpenCursor:
		return "(SOpen " + coqStr(x.Cursor.Literal) + ")", len(x.Values) == 0
	case parser.CloseCursor:
		return "(SClose " + coqStr(x.Cursor.Literal) + ")", true
	case parser.FetchCursor:
		if !x.Position.Position.IsEmpty() {
			return "", false
		}
		return "(SFetch " + coqStr(x.Cursor.Literal) + " " + p15Vars(x.Variables) + ")", true
	case parser.DisposeCursor:
		return "(SDisposeCursor " + coqStr(x.Cursor.Literal) + ")", true
	case parser.ViewDeclaration:
		if len(x.Fields) != 1 {
			return "", false
		}
		if id, ok := x.Fields[0].(parser.Identifier); !ok || id.Literal != "c1" {
			return "", false
		}
		if x.Query == nil {
			return "(STemp " + coqStr(x.View.Literal) + " [])", true
		}
		rows, ok := p15Rows(x.Query)
		return "(STemp " + coqStr(x.View.Literal) + " " + coqVals(rows) + ")", ok
	case parser.InsertQuery:
		if x.WithClause != nil || x.Fields != nil || x.Query != nil || len(x.ValuesList) != 1 || x.Table.Alias != nil {
			return "", false
		}
		id, ok := x.Table.Object.(parser.Identifier)
		if !ok {
			return "", false
		}
		rv, ok := x.ValuesList[0].(parser.RowValue)
		if !ok {
			return "", false
		}
		vl, ok := rv.Value.(parser.ValueList)
		if !ok || len(vl.Values) != 1 {
			return "", false
		}
		e, ok := p15Expr(vl.Values[0])
		return "(SInsert " + coqStr(id.Literal) + " " + e + ")", ok
	case parser.DisposeView:
		id, ok := x.View.(parser.Identifier)
		if !ok {
			return "", false
		}
		return "(SDisposeTemp " + coqStr(id.Literal) + ")", true
	case parser.If:
		brs := []string{}
		ok := true
		c, o1 := p15Expr(x.Condition)
		b, o2 := p15Block(x.Statements)
		ok = ok && o1 && o2
		brs = append(brs, "("+c+", "+b+")")
		for _, ei := range x.ElseIf {
			c, o1 := p15Expr(ei.Condition)
			b, o2 := p15Block(ei.Statements)
			ok = ok && o1 && o2
			brs = append(brs, "("+c+", "+b+")")
		}
		el, o3 := p15Block(x.Else.Statements)
		return "(SIf " + coqList(brs) + " " + el + ")", ok && o3
	case parser.Case:
		v := "None"
		ok := true
		if x.Value != nil {
			t, o := p15Expr(x.Value)
			ok = ok && o
			v = "(Some " + t + ")"
		}
		brs := []string{}
		for _, w := range x.When {
			c, o1 := p15Expr(w.Condition)
			b, o2 := p15Block(w.Statements)
			ok = ok && o1 && o2
			brs = append(brs, "("+c+", "+b+")")
		}
		el, o3 := p15Block(x.Else.Statements)
		return "(SCase " + v + " " + coqList(brs) + " " + el + ")", ok && o3
	case parser.While:
		c, o1 := p15Expr(x.Condition)
		b, o2 := p15Block(x.Statements)
		return "(SWhile " + c + " " + b + ")", o1 && o2
	case parser.WhileInCursor:
		b, ok := p15Block(x.Statements)
		return "(SWhileIn " + coqBool(x.WithDeclaration) + " " + p15Vars(x.Variables) + " " + coqStr(x.Cursor.Literal) + " " + b + ")", ok
	case parser.FlowControl:
		switch x.Token {
		case parser.BREAK:
			return "SBreak", true
		case parser.CONTINUE:
			return "SContinue", true
		}
		return "", false
	case parser.Return:
		e, ok := p15Expr(x.Value)
		return "(SReturn " + e + ")", ok
	case parser.Exit:
		var code int64
		if x.Code != nil {
			code = x.Code.(*value.Integer).Raw()
		}
		return "(SExit " + coqZ(code) + ")", true
	default:
		if qe, ok := s.(parser.QueryExpression); ok {
			e, ok := p15Expr(qe)
			return "(SExpr " + e + ")", ok
		}
	}
	return "", false
}
