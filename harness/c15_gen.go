package main

// C15: generator of procedures inside the modelled fragment.  Everything random comes from one
// *rand.Rand.  Programs terminate by construction: WHILE loops count a private counter up to a small
// bound (the increment is the first statement of the body, so CONTINUE cannot skip it), WHILE IN
// loops run over cursors of at most 4 rows that the body cannot re-open, the random functions p/q/r
// only call functions of a lower level, and the recursive templates (fact, fib, ack, sumto,
// iseven/isodd) decrease an argument that the call sites bound with `% k`.

import (
	"fmt"
	"math/rand"

	"github.com/mithrandie/csvq/lib/value"
	"github.com/mithrandie/ternary"
)

type scope15 struct {
	vars, curs, temps, funcs map[string]bool
}

func newScope15() *scope15 {
	return &scope15{vars: map[string]bool{}, curs: map[string]bool{}, temps: map[string]bool{}, funcs: map[string]bool{}}
}

type ctx15 struct {
	scopes    []*scope15
	inLoop    bool
	inFunc    bool
	inCurLoop bool
	level     int // random functions callable from here: those with a lower level (p=0,q=1,r=2)
	depth     int
}

func (c ctx15) child() ctx15 {
	n := c
	n.scopes = append(append([]*scope15{}, c.scopes...), newScope15())
	n.depth = c.depth + 1
	return n
}
func (c ctx15) top() *scope15 { return c.scopes[len(c.scopes)-1] }
func (c ctx15) visible(kind string) []string {
	seen := map[string]bool{}
	var out []string
	for _, s := range c.scopes {
		var m map[string]bool
		switch kind {
		case "var":
			m = s.vars
		case "cur":
			m = s.curs
		case "temp":
			m = s.temps
		default:
			m = s.funcs
		}
		for _, k := range sortedKeys(m) {
			if !seen[k] {
				seen[k] = true
				out = append(out, k)
			}
		}
	}
	return out
}

func sortedKeys(m map[string]bool) []string {
	out := make([]string, 0, len(m))
	for k := range m {
		out = append(out, k)
	}
	// insertion sort: tiny maps, keeps the generator deterministic
	for i := 1; i < len(out); i++ {
		for j := i; j > 0 && out[j] < out[j-1]; j-- {
			out[j], out[j-1] = out[j-1], out[j]
		}
	}
	return out
}

type g15 struct {
	r        *rand.Rand
	loopN    int
	maxDepth int
	mistake  float64 // probability of deliberately using a name without regard to what is declared
	dist     map[string]int
}

var varPool15 = []string{"a", "b", "c", "A", "x"}
var curPool15 = []string{"cur", "CUR", "k"}
var tempPool15 = []string{"t", "T", "u"}
var randFuncs15 = []string{"p", "q", "r"} // level = index
var funcCase15 = map[string][]string{"p": {"p", "P"}, "q": {"q", "Q"}, "r": {"r", "R"}, "fact": {"fact", "FACT", "Fact"}, "fib": {"fib", "Fib"}, "ack": {"ack"}, "sumto": {"sumto", "SumTo"}, "iseven": {"iseven"}, "isodd": {"isodd"}, "firstover": {"firstover", "FirstOver"}}

func (g *g15) pick(l []string) string { return l[g.r.Intn(len(l))] }
func (g *g15) chance(p float64) bool  { return g.r.Float64() < p }

func litInt(i int64) *pExpr    { return &pExpr{K: "lit", V: value.NewInteger(i)} }
func litStr(s string) *pExpr   { return &pExpr{K: "lit", V: value.NewString(s)} }
func pvar(x string) *pExpr     { return &pExpr{K: "var", X: x} }
func arith(op string, a, b *pExpr) *pExpr { return &pExpr{K: "arith", Op: op, A: a, B: b} }
func cmp(op string, a, b *pExpr) *pExpr   { return &pExpr{K: "cmp", Op: op, A: a, B: b} }
func call(f string, args ...*pExpr) *pExpr { return &pExpr{K: "call", X: f, Args: args} }
func assign(x string, e *pExpr) *pExpr    { return &pExpr{K: "assign", X: x, A: e} }

func (g *g15) literal() *pExpr {
	switch g.r.Intn(12) {
	case 0:
		return litStr(g.pick([]string{"a", "b", "12", "x y", "", "7"}))
	case 1:
		return &pExpr{K: "lit", V: value.NewNull()}
	case 2:
		return &pExpr{K: "lit", V: value.NewTernary([]ternary.Value{ternary.TRUE, ternary.FALSE, ternary.UNKNOWN}[g.r.Intn(3)])}
	case 3:
		return litInt([]int64{9223372036854775807, 4611686018427387904, 100, 1000000007}[g.r.Intn(4)])
	default:
		return litInt(int64(g.r.Intn(10)))
	}
}

func (g *g15) someVar(c ctx15) string {
	vs := c.visible("var")
	if len(vs) == 0 || g.chance(g.mistake) {
		return g.pick(varPool15)
	}
	return g.pick(vs)
}

func (g *g15) atom(c ctx15) *pExpr {
	k := g.r.Intn(100)
	switch {
	case k < 45:
		if len(c.visible("var")) > 0 || g.chance(g.mistake) {
			return pvar(g.someVar(c))
		}
		return g.literal()
	case k < 50:
		if cs := c.visible("cur"); len(cs) > 0 {
			if g.chance(0.5) {
				return &pExpr{K: "curopen", X: g.pick(cs), Neg: g.chance(0.3)}
			}
			return &pExpr{K: "curcount", X: g.pick(cs)}
		}
		return g.literal()
	case k < 55:
		if ts := c.visible("temp"); len(ts) > 0 {
			return &pExpr{K: "tempcount", X: g.pick(ts)}
		}
		return g.literal()
	}
	return g.literal()
}

// callable random functions (lower level, visible) and recursive templates that are visible
func (g *g15) callExpr(c ctx15, d int) *pExpr {
	fs := c.visible("func")
	var cands []string
	for _, f := range fs {
		lvl := -1
		for i, n := range randFuncs15 {
			if n == f {
				lvl = i
			}
		}
		if lvl < 0 || lvl < c.level {
			cands = append(cands, f)
		}
	}
	if len(cands) == 0 {
		if g.chance(g.mistake) && c.level > 0 {
			return call("p", g.expr(c, d-1))
		}
		return nil
	}
	f := g.pick(cands)
	name := g.pick(funcCase15[f])
	bounded := func(k int64) *pExpr {
		if g.chance(0.5) {
			return litInt(int64(g.r.Intn(int(k))))
		}
		return arith("%", g.expr(c, d-1), litInt(k))
	}
	switch f {
	case "fact":
		return call(name, bounded(7))
	case "fib":
		return call(name, bounded(8))
	case "ack":
		return call(name, bounded(3), bounded(3))
	case "sumto":
		if g.chance(0.3) {
			return call(name, bounded(6), g.expr(c, d-1))
		}
		return call(name, bounded(6))
	case "iseven", "isodd":
		return call(name, bounded(7))
	case "firstover":
		return call(name, bounded(9))
	case "p":
		if g.chance(0.25) {
			return call(name, g.expr(c, d-1), g.expr(c, d-1))
		}
		return call(name, g.expr(c, d-1))
	case "q":
		return call(name, g.expr(c, d-1), g.expr(c, d-1))
	default:
		return call(name)
	}
}

func (g *g15) expr(c ctx15, d int) *pExpr {
	if d <= 0 {
		return g.atom(c)
	}
	k := g.r.Intn(100)
	switch {
	case k < 30:
		op := g.pick([]string{"+", "+", "-", "*", "/", "%"})
		a := g.expr(c, d-1)
		var b *pExpr
		if (op == "/" || op == "%") && !g.chance(0.08) {
			b = litInt(int64(1 + g.r.Intn(7)))
		} else {
			b = g.expr(c, d-1)
		}
		return arith(op, a, b)
	case k < 48:
		return cmp(g.pick([]string{"=", "<", ">", "<=", ">=", "<>", "=="}), g.expr(c, d-1), g.expr(c, d-1))
	case k < 53:
		return &pExpr{K: "and", A: g.expr(c, d-1), B: g.expr(c, d-1)}
	case k < 57:
		return &pExpr{K: "or", A: g.expr(c, d-1), B: g.expr(c, d-1)}
	case k < 60:
		return &pExpr{K: "not", A: g.expr(c, d-1)}
	case k < 74:
		if e := g.callExpr(c, d); e != nil {
			return e
		}
		return g.atom(c)
	case k < 78:
		if len(c.visible("var")) > 0 {
			return assign(g.someVar(c), g.expr(c, d-1))
		}
		return g.atom(c)
	}
	return g.atom(c)
}

// an expression without function calls (INSERT holds a non-reentrant lock while it evaluates)
func (g *g15) simpleExpr(c ctx15) *pExpr {
	if g.chance(0.5) {
		return arith("+", g.atom(c), litInt(int64(g.r.Intn(5))))
	}
	return g.atom(c)
}

func (g *g15) cond(c ctx15) *pExpr {
	switch g.r.Intn(10) {
	case 0:
		return &pExpr{K: "lit", V: value.NewTernary(ternary.TRUE)}
	case 1:
		return g.expr(c, 1)
	default:
		return cmp(g.pick([]string{"=", "<", ">", "<=", ">=", "<>"}), g.expr(c, 1), g.expr(c, 1))
	}
}

func (g *g15) rows() []value.Primary {
	n := 1 + g.r.Intn(4)
	out := make([]value.Primary, n)
	for i := range out {
		out[i] = value.NewInteger(int64(g.r.Intn(20)))
	}
	return out
}

func (g *g15) newName(c ctx15, kind string, pool []string) string {
	// mostly a name not yet declared in the current block; sometimes any name (may be a redeclaration)
	if g.chance(g.mistake) {
		return g.pick(pool)
	}
	var m map[string]bool
	switch kind {
	case "var":
		m = c.top().vars
	case "cur":
		m = c.top().curs
	default:
		m = c.top().temps
	}
	var free []string
	for _, n := range pool {
		if !m[n] {
			free = append(free, n)
		}
	}
	if len(free) == 0 {
		return ""
	}
	return g.pick(free)
}

func (g *g15) probe(c ctx15) []*pStmt {
	var out []*pStmt
	vs := c.visible("var")
	for i := 0; i < 2 && len(vs) > 0; i++ {
		if g.chance(0.6) {
			out = append(out, &pStmt{K: "print", E: pvar(g.pick(vs))})
		}
	}
	return out
}

func (g *g15) nested(c ctx15, inLoop bool) []*pStmt {
	n := c.child()
	if inLoop {
		n.inLoop = true
	}
	return g.block(n, 1+g.r.Intn(4))
}

func (g *g15) funcDecl(c ctx15, name string, lvl int) *pStmt {
	// parameters: p(@x [, @y DEFAULT e]); q(@x, @y); r()
	var params []pParam
	switch name {
	case "p":
		params = []pParam{{X: "x"}}
		if g.chance(0.4) {
			params = append(params, pParam{X: "y", D: g.pick2(arith("+", pvar("x"), litInt(1)), litInt(int64(g.r.Intn(5))))})
		}
	case "q":
		params = []pParam{{X: "x"}, {X: "y"}}
	}
	if g.chance(g.mistake / 2) {
		params = append(params, pParam{X: "x", D: litInt(0)}) // duplicate parameter (only an error when "x" is there already)
	}
	body := c.child()
	body.inFunc, body.inLoop, body.inCurLoop = true, false, false
	body.level = lvl
	for _, p := range params {
		body.top().vars[p.X] = true
	}
	ss := g.block(body, 1+g.r.Intn(4))
	ss = append(ss, &pStmt{K: "return", E: g.expr(body, 2)})
	g.dist["stmt:func-"+name]++
	return &pStmt{K: "func", X: g.pick(funcCase15[name]), Params: params, Body: ss}
}

func (g *g15) pick2(a, b *pExpr) *pExpr {
	if g.chance(0.5) {
		return a
	}
	return b
}

// the recursive templates; `variant` adds the features the property is about: a counter in the CALLER's
// chain (dynamic scoping), locals, an inner block that re-declares a local, PRINT inside the function
func (g *g15) template(c ctx15, name string) []*pStmt {
	var pre []*pStmt
	local := "t"
	if g.chance(0.5) {
		if vs := c.visible("var"); len(vs) > 0 && g.chance(0.7) {
			v := g.pick(vs)
			pre = append(pre, &pStmt{K: "expr", E: assign(v, arith("+", pvar(v), litInt(1)))})
		}
		if g.chance(0.6) {
			pre = append(pre, &pStmt{K: "var", X: local, E: arith("*", pvar("n"), litInt(2))})
			pre = append(pre, &pStmt{K: "if", Brs: []pBranch{{C: cmp(">", pvar("n"), litInt(2)), Body: []*pStmt{
				{K: "var", X: local, E: litInt(0)}, {K: "expr", E: assign(local, litInt(5))}, {K: "var", X: "n", E: litInt(100)}}}}})
			if g.chance(0.5) {
				pre = append(pre, &pStmt{K: "print", E: arith("+", pvar(local), pvar("n"))})
			}
		}
	}
	n := pvar("n")
	one := litInt(1)
	ret := func(e *pExpr) *pStmt { return &pStmt{K: "return", E: e} }
	ifs := func(cnd *pExpr, body ...*pStmt) *pStmt { return &pStmt{K: "if", Brs: []pBranch{{C: cnd, Body: body}}} }
	var decls []*pStmt
	mk := func(f string, params []pParam, body ...*pStmt) {
		decls = append(decls, &pStmt{K: "func", X: f, Params: params, Body: append(append([]*pStmt{}, pre...), body...)})
	}
	switch name {
	case "fact":
		mk("fact", []pParam{{X: "n"}}, ifs(cmp(">", n, one), ret(arith("*", n, call(g.pick(funcCase15["fact"]), arith("-", n, one))))), ret(one))
	case "fib":
		mk("fib", []pParam{{X: "n"}}, ifs(cmp(">", n, one), ret(arith("+", call("fib", arith("-", n, one)), call("FIB", arith("-", n, litInt(2)))))), ret(n))
	case "ack":
		m := pvar("m")
		mk("ack", []pParam{{X: "m"}, {X: "n"}},
			ifs(cmp(">", m, litInt(0)),
				ifs(cmp(">", n, litInt(0)), ret(call("ack", arith("-", m, one), call("ack", m, arith("-", n, one))))),
				ret(call("ack", arith("-", m, one), one))),
			ret(arith("+", n, one)))
	case "sumto":
		g.loopN++
		acc := pvar("acc")
		mk("sumto", []pParam{{X: "n"}, {X: "acc", D: litInt(0)}},
			&pStmt{K: "while", E: cmp(">", n, litInt(0)), Body: []*pStmt{
				{K: "expr", E: assign("n", arith("-", n, one))},
				{K: "var", X: "step", E: arith("+", n, one)},
				ifs(cmp("=", arith("%", pvar("step"), litInt(4)), litInt(0)), &pStmt{K: "continue"}),
				{K: "expr", E: assign("acc", arith("+", acc, pvar("step")))},
				ifs(cmp(">", acc, litInt(12)), ret(arith("+", acc, litInt(1000)))),
			}},
			ret(acc))
	case "firstover":
		// a cursor loop inside a function that is left by RETURN (directly or from a nested block) while the
		// loop's block is open; the loop variable is declared by the loop or beforehand
		v := pvar("fv")
		var body []*pStmt
		body = append(body, &pStmt{K: "cursor", X: "fc", Rows: []value.Primary{value.NewInteger(1), value.NewInteger(int64(2 + g.r.Intn(3))), value.NewInteger(int64(5 + g.r.Intn(3))), value.NewInteger(8)}}, &pStmt{K: "open", X: "fc"})
		decl := g.chance(0.5)
		if !decl {
			body = append(body, &pStmt{K: "var", X: "fv"})
		}
		var loop []*pStmt
		if g.chance(0.5) {
			loop = append(loop, &pStmt{K: "var", X: "w", E: arith("+", v, one)})
		}
		if g.chance(0.5) {
			loop = append(loop, ifs(cmp(">", v, n), ret(v)))
		} else {
			loop = append(loop, ifs(cmp(">", v, litInt(0)), &pStmt{K: "var", X: "fv2", E: v}, ifs(cmp(">", pvar("fv2"), n), ret(arith("+", pvar("fv2"), litInt(100))))))
		}
		body = append(body, &pStmt{K: "whilein", X: "fc", Vars: []string{"fv"}, Decl: decl, Body: loop}, ret(litInt(0)))
		mk("firstover", []pParam{{X: "n"}}, body...)
	case "iseven":
		// mutual recursion; both are declared together
		pre2 := pre
		pre = nil
		mk("iseven", []pParam{{X: "n"}}, ifs(cmp(">", n, litInt(0)), ret(call("isodd", arith("-", n, one)))), ret(&pExpr{K: "lit", V: value.NewTernary(ternary.TRUE)}))
		pre = pre2
		mk("isodd", []pParam{{X: "n"}}, ifs(cmp(">", n, litInt(0)), ret(call("iseven", arith("-", n, one)))), ret(&pExpr{K: "lit", V: value.NewTernary(ternary.FALSE)}))
	}
	return decls
}

var templates15 = []string{"fact", "fib", "ack", "sumto", "iseven", "firstover"}

func (g *g15) block(c ctx15, n int) []*pStmt {
	var out []*pStmt
	for i := 0; i < n; i++ {
		out = append(out, g.stmt(c)...)
	}
	return out
}

func (g *g15) stmt(c ctx15) []*pStmt {
	deep := c.depth >= g.maxDepth
	k := g.r.Intn(1000)
	one := func(kind string, s *pStmt) []*pStmt {
		g.dist["stmt:"+kind]++
		return []*pStmt{s}
	}
	switch {
	case k < 170: // VAR
		x := g.newName(c, "var", varPool15)
		if x == "" {
			return one("print", &pStmt{K: "print", E: g.expr(c, 2)})
		}
		var e *pExpr
		if !g.chance(0.15) {
			e = g.expr(c, 2)
		}
		c.top().vars[x] = true
		if len(c.scopes) > 1 {
			for _, s := range c.scopes[:len(c.scopes)-1] {
				if s.vars[x] {
					g.dist["feature:shadowing-variable"]++
					break
				}
			}
		}
		return one("var", &pStmt{K: "var", X: x, E: e})
	case k < 340: // assignment
		if len(c.visible("var")) == 0 && !g.chance(g.mistake) {
			return one("print", &pStmt{K: "print", E: g.expr(c, 2)})
		}
		x := g.someVar(c)
		if !c.top().vars[x] {
			g.dist["feature:assignment-to-outer-or-dynamic"]++
		}
		return one("assign", &pStmt{K: "expr", E: assign(x, g.expr(c, 2))})
	case k < 500:
		return one("print", &pStmt{K: "print", E: g.expr(c, 2)})
	case k < 590 && !deep: // IF
		s := &pStmt{K: "if"}
		nb := 1 + g.r.Intn(2)
		if g.chance(0.15) {
			nb = 3
		}
		for i := 0; i < nb; i++ {
			s.Brs = append(s.Brs, pBranch{C: g.cond(c), Body: g.nested(c, false)})
		}
		if g.chance(0.5) {
			s.Els = g.nested(c, false)
		}
		g.dist["stmt:if"]++
		return append([]*pStmt{s}, g.probe(c)...)
	case k < 625 && !deep: // CASE
		s := &pStmt{K: "case"}
		if g.chance(0.5) {
			s.E = g.expr(c, 1)
		}
		for i := 0; i <= g.r.Intn(2); i++ {
			var cnd *pExpr
			if s.E != nil {
				cnd = g.atom(c)
			} else {
				cnd = g.cond(c)
			}
			s.Brs = append(s.Brs, pBranch{C: cnd, Body: g.nested(c, false)})
		}
		if g.chance(0.6) {
			s.Els = g.nested(c, false)
		}
		g.dist["stmt:case"]++
		return append([]*pStmt{s}, g.probe(c)...)
	case k < 690 && !deep: // WHILE with a private counter
		g.loopN++
		cn := fmt.Sprintf("i%d", g.loopN)
		bound := int64(1 + g.r.Intn(4))
		body := g.nested(c, true)
		body = append([]*pStmt{{K: "expr", E: assign(cn, arith("+", pvar(cn), litInt(1)))}}, body...)
		g.dist["stmt:while"]++
		if g.chance(0.3) {
			// the bound is a variable of the enclosing block and the body declares a variable of the same name:
			// the loop's block is emptied before the condition is evaluated again, so the condition always reads
			// the outer one
			bn := fmt.Sprintf("b%d", g.loopN)
			body = append([]*pStmt{body[0], {K: "var", X: bn, E: litInt(0)}}, body[1:]...)
			g.dist["feature:while-body-shadows-condition-variable"]++
			res := []*pStmt{{K: "var", X: cn, E: litInt(0)}, {K: "var", X: bn, E: litInt(bound)}, {K: "while", E: cmp("<", pvar(cn), pvar(bn)), Body: body}}
			return append(res, g.probe(c)...)
		}
		res := []*pStmt{{K: "var", X: cn, E: litInt(0)}, {K: "while", E: cmp("<", pvar(cn), litInt(bound)), Body: body}}
		return append(res, g.probe(c)...)
	case k < 720 && !deep: // WHILE IN
		cs := c.visible("cur")
		var cur string
		var pre []*pStmt
		if len(cs) > 0 && g.chance(0.5) {
			cur = g.pick(cs)
		} else {
			cur = g.newName(c, "cur", curPool15)
			if cur == "" {
				cur = g.pick(curPool15)
			} else {
				pre = []*pStmt{{K: "cursor", X: cur, Rows: g.rows()}, {K: "open", X: cur}}
				c.top().curs[cur] = true
			}
		}
		s := &pStmt{K: "whilein", X: cur, Decl: g.chance(0.6)}
		v := g.pick(varPool15)
		s.Vars = []string{v}
		if g.chance(g.mistake) {
			s.Vars = append(s.Vars, g.pick(varPool15))
		}
		if !s.Decl && !g.chance(g.mistake) {
			if vs := c.visible("var"); len(vs) > 0 {
				s.Vars[0] = g.pick(vs)
			} else {
				s.Decl = true
			}
		}
		n := c.child()
		n.inLoop, n.inCurLoop = true, true
		if s.Decl {
			for _, v := range s.Vars {
				n.top().vars[v] = true
			}
		}
		s.Body = g.block(n, 1+g.r.Intn(3))
		g.dist["stmt:whilein"]++
		return append(append(pre, s), g.probe(c)...)
	case k < 760 && !deep: // random function declaration
		lvl := g.r.Intn(len(randFuncs15))
		if c.inFunc && lvl >= c.level {
			if c.level == 0 {
				return one("print", &pStmt{K: "print", E: g.expr(c, 2)})
			}
			lvl = g.r.Intn(c.level)
		}
		name := randFuncs15[lvl]
		if c.top().funcs[name] && !g.chance(g.mistake) {
			return one("print", &pStmt{K: "print", E: g.expr(c, 2)})
		}
		s := g.funcDecl(c, name, lvl)
		for _, sc := range c.scopes {
			if sc.funcs[name] {
				g.dist["feature:shadowing-function"]++
				break
			}
		}
		c.top().funcs[name] = true
		return []*pStmt{s}
	case k < 790 && !deep: // recursive template
		name := g.pick(templates15)
		if c.top().funcs[name] && !g.chance(g.mistake) {
			return one("print", &pStmt{K: "print", E: g.expr(c, 2)})
		}
		ds := g.template(c, name)
		for _, sc := range c.scopes {
			if sc.funcs[name] {
				g.dist["feature:shadowing-function"]++
				break
			}
		}
		c.top().funcs[name] = true
		if name == "iseven" {
			c.top().funcs["isodd"] = true
		}
		g.dist["stmt:func-"+name]++
		return ds
	case k < 810: // call statement
		if e := g.callExpr(c, 2); e != nil {
			return one("call-stmt", &pStmt{K: "expr", E: e})
		}
		return one("print", &pStmt{K: "print", E: g.expr(c, 2)})
	case k < 825:
		if len(c.visible("var")) == 0 && !g.chance(g.mistake) {
			return one("print", &pStmt{K: "print", E: g.expr(c, 2)})
		}
		x := g.someVar(c)
		for _, s := range c.scopes {
			delete(s.vars, x) // approximate: some binding of x disappears
		}
		return one("dispose-var", &pStmt{K: "disposevar", X: x})
	case k < 850: // cursor declaration (+ OPEN)
		cur := g.newName(c, "cur", curPool15)
		if cur == "" {
			return one("print", &pStmt{K: "print", E: g.expr(c, 2)})
		}
		for _, s := range c.scopes[:len(c.scopes)-1] {
			if s.curs[cur] {
				g.dist["feature:shadowing-cursor"]++
				break
			}
		}
		c.top().curs[cur] = true
		res := []*pStmt{{K: "cursor", X: cur, Rows: g.rows()}}
		if g.chance(0.8) {
			res = append(res, &pStmt{K: "open", X: cur})
		}
		g.dist["stmt:cursor"]++
		return res
	case k < 880: // FETCH / CLOSE / DISPOSE CURSOR / stray OPEN
		cs := c.visible("cur")
		if len(cs) == 0 && !g.chance(g.mistake) {
			return one("print", &pStmt{K: "print", E: g.expr(c, 2)})
		}
		cur := g.pick(curPool15)
		if len(cs) > 0 {
			cur = g.pick(cs)
		}
		switch g.r.Intn(10) {
		case 0:
			return one("close", &pStmt{K: "close", X: cur})
		case 1:
			for _, s := range c.scopes {
				delete(s.curs, cur)
			}
			return one("dispose-cursor", &pStmt{K: "disposecursor", X: cur})
		case 2:
			if !c.inCurLoop && !c.inFunc {
				return one("open", &pStmt{K: "open", X: cur})
			}
		}
		vs := []string{g.someVar(c)}
		if g.chance(g.mistake) {
			vs = append(vs, g.someVar(c))
		}
		return append(one("fetch", &pStmt{K: "fetch", X: cur, Vars: vs}), &pStmt{K: "print", E: pvar(vs[0])})
	case k < 910: // temporary table
		ts := c.visible("temp")
		if len(ts) == 0 || g.chance(0.3) {
			tn := g.newName(c, "temp", tempPool15)
			if tn == "" {
				return one("print", &pStmt{K: "print", E: g.expr(c, 2)})
			}
			for _, s := range c.scopes[:len(c.scopes)-1] {
				if s.temps[tn] {
					g.dist["feature:temp-redeclared-in-inner-block"]++
					break
				}
			}
			c.top().temps[tn] = true
			var rows []value.Primary
			if g.chance(0.6) {
				rows = g.rows()
			}
			return one("temp", &pStmt{K: "temp", X: tn, Rows: rows})
		}
		tn := g.pick(ts)
		if g.chance(0.12) {
			for _, s := range c.scopes {
				delete(s.temps, tn)
			}
			return one("dispose-temp", &pStmt{K: "disposetemp", X: tn})
		}
		return append(one("insert", &pStmt{K: "insert", X: tn, E: g.simpleExpr(c)}), &pStmt{K: "print", E: &pExpr{K: "tempcount", X: tn}})
	case k < 925:
		fs := c.visible("func")
		if len(fs) == 0 {
			return one("print", &pStmt{K: "print", E: g.expr(c, 2)})
		}
		f := g.pick(fs)
		for _, s := range c.scopes {
			delete(s.funcs, f)
		}
		return one("dispose-func", &pStmt{K: "disposefunc", X: g.pick(funcCase15[f])})
	case k < 960:
		if c.inLoop {
			kind := g.pick([]string{"break", "continue"})
			if g.chance(0.6) {
				// guarded, so that the loop still does something
				return one(kind, &pStmt{K: "if", Brs: []pBranch{{C: g.cond(c), Body: []*pStmt{{K: kind}}}}})
			}
			return one(kind, &pStmt{K: kind})
		}
		return one("print", &pStmt{K: "print", E: g.expr(c, 2)})
	case k < 985:
		if c.inFunc {
			if g.chance(0.6) {
				return one("return", &pStmt{K: "if", Brs: []pBranch{{C: g.cond(c), Body: []*pStmt{{K: "return", E: g.expr(c, 2)}}}}})
			}
			return one("return", &pStmt{K: "return", E: g.expr(c, 2)})
		}
		return one("print", &pStmt{K: "print", E: g.expr(c, 2)})
	default:
		if !c.inFunc && g.chance(0.5) {
			code := int64(0)
			if g.chance(0.5) {
				code = int64(1 + g.r.Intn(100))
			}
			if g.chance(0.7) {
				return one("exit", &pStmt{K: "if", Brs: []pBranch{{C: g.cond(c), Body: []*pStmt{{K: "exit", Code: code}}}}})
			}
			return one("exit", &pStmt{K: "exit", Code: code})
		}
		return one("print", &pStmt{K: "print", E: g.expr(c, 2)})
	}
}

// one whole procedure
func (g *g15) program() []*pStmt {
	c := ctx15{scopes: []*scope15{newScope15()}, level: len(randFuncs15)}
	var out []*pStmt
	// a few globals so that blocks and functions have something outer to read, shadow and assign
	for _, v := range []string{"a", "b"} {
		if g.chance(0.8) {
			out = append(out, &pStmt{K: "var", X: v, E: litInt(int64(g.r.Intn(10)))})
			c.top().vars[v] = true
		}
	}
	for _, tname := range templates15 {
		if g.chance(0.3) {
			out = append(out, g.template(c, tname)...)
			c.top().funcs[tname] = true
			if tname == "iseven" {
				c.top().funcs["isodd"] = true
			}
			g.dist["stmt:func-"+tname]++
		}
	}
	out = append(out, g.block(c, 4+g.r.Intn(7))...)
	for _, v := range c.visible("var") {
		out = append(out, &pStmt{K: "print", E: pvar(v)})
	}
	return out
}

// nesting depth of blocks (IF/CASE/WHILE/function bodies)
func depth15(ss []*pStmt) int {
	d := 0
	for _, s := range ss {
		x := 0
		for _, b := range s.Brs {
			if k := 1 + depth15(b.Body); k > x {
				x = k
			}
		}
		if len(s.Els) > 0 {
			if k := 1 + depth15(s.Els); k > x {
				x = k
			}
		}
		if len(s.Body) > 0 || s.K == "while" || s.K == "whilein" || s.K == "func" {
			if k := 1 + depth15(s.Body); k > x {
				x = k
			}
		}
		if x > d {
			d = x
		}
	}
	return d
}

// small programs with control statements in arbitrary places: only used to compare the grammar's
// contexts (program / loop / function / function-loop) with Model.Proc.wf_stmt
func (g *g15) ctxProgram(d int) []*pStmt {
	n := 1 + g.r.Intn(3)
	var out []*pStmt
	for i := 0; i < n; i++ {
		k := g.r.Intn(12)
		switch {
		case k == 0:
			out = append(out, &pStmt{K: "break"})
		case k == 1:
			out = append(out, &pStmt{K: "continue"})
		case k == 2:
			out = append(out, &pStmt{K: "return", E: litInt(1)})
		case k == 3:
			out = append(out, &pStmt{K: "exit", Code: int64(g.r.Intn(3))})
		case k == 4 && d > 0:
			out = append(out, &pStmt{K: "if", Brs: []pBranch{{C: litInt(1), Body: g.ctxProgram(d - 1)}}, Els: g.ctxProgram(d - 1)})
		case k == 5 && d > 0:
			out = append(out, &pStmt{K: "case", Brs: []pBranch{{C: litInt(1), Body: g.ctxProgram(d - 1)}}})
		case k == 6 && d > 0:
			out = append(out, &pStmt{K: "while", E: litInt(0), Body: g.ctxProgram(d - 1)})
		case k == 7 && d > 0:
			out = append(out, &pStmt{K: "whilein", X: "cur", Vars: []string{"a"}, Decl: g.chance(0.5), Body: g.ctxProgram(d - 1)})
		case k == 8 && d > 0:
			out = append(out, &pStmt{K: "func", X: "p", Params: []pParam{{X: "x"}}, Body: g.ctxProgram(d - 1)})
		default:
			out = append(out, &pStmt{K: "print", E: litInt(int64(i))})
		}
	}
	return out
}
