package main

// C16: a cursor walks a snapshot of its query taken at OPEN, with exact positioning.
// Histories of cursor statements interleaved with data-changing statements are executed statement by
// statement on ONE transaction through parser.Parse + Processor.ExecuteStatement (continuing after
// errors, as the interactive shell does); after every statement the harness records the error class,
// the value of the status expression, the variables and -- for WHILE .. IN -- the rows the loop
// visited.  The Coq side (Harness/H16.v) replays the same history on the model.

import (
	"context"
	"fmt"
	"math"
	"math/rand"
	"os"
	"strings"
	"time"

	"github.com/mithrandie/csvq/lib/parser"
	"github.com/mithrandie/csvq/lib/query"
	"github.com/mithrandie/csvq/lib/value"
	"github.com/mithrandie/ternary"
)

func init() { runners["C16"] = runC16 }

const c16FindingOverflow = "relative-overflow"

// ---- the queries cursors are declared for (query ids of the model) -------------------------------
type c16Query struct {
	id       int
	sql      string
	width    int
	prepared bool // evaluate as a prepared statement without replace values
}

var c16Queries = []c16Query{
	{1, "SELECT id, v FROM t", 2, false},
	{2, "SELECT v FROM t WHERE id >= 2", 1, false},
	{3, "SELECT id, v FROM tt", 2, false},
	{4, "SELECT v FROM tt WHERE id > 1", 1, false},
	{5, "SELECT id FROM nosuch", 1, false},
	// prepared statement s1 = SELECT id, v FROM t WHERE id > ?  (query id = 10 + USING choice)
	{10, "SELECT id, v FROM t WHERE id > ?", 2, true}, // OPEN without USING: fails as soon as the placeholder is evaluated
	{11, "SELECT id, v FROM t WHERE id > 1", 2, false},
	{12, "SELECT id, v FROM t WHERE id > 3", 2, false},
	// prepared statement s5 = SELECT id INTO @into FROM t: OPEN fails after the view is built when t has two or more rows
	{20, "SELECT id INTO @into FROM t", 1, true},
	{21, "SELECT id INTO @into FROM t", 1, true},
	{22, "SELECT id INTO @into FROM t", 1, true},
}

var c16Using = []string{"", " USING 1", " USING 3"}

// cursor sources: direct query ids and prepared statement ids
type c16Src struct {
	stmt  bool
	id    int
	width int
}

var c16Sources = []c16Src{
	{false, 1, 2}, {false, 1, 2}, {false, 1, 2}, {false, 1, 2}, {false, 2, 1}, {false, 2, 1}, {false, 3, 2}, {false, 3, 2}, {false, 3, 2},
	{false, 4, 1}, {false, 4, 1}, {false, 5, 1},
	{true, 1, 2}, {true, 1, 2}, {true, 1, 2}, {true, 2, 0}, {true, 3, 0}, {true, 4, 0}, {true, 5, 1}, {true, 5, 1},
}

func (s c16Src) valid() bool {
	if s.stmt {
		return s.id == 1 || s.id == 5
	}
	return s.id != 5
}

func (s c16Src) sql() string {
	if s.stmt {
		return fmt.Sprintf("s%d", s.id)
	}
	for _, q := range c16Queries {
		if q.id == s.id {
			return q.sql
		}
	}
	panic("c16: no such query")
}
func (s c16Src) coq() string {
	if s.stmt {
		return fmt.Sprintf("(QStmt %d%%N)", s.id)
	}
	return fmt.Sprintf("(QDirect %d%%N)", s.id)
}

const c16Prep = "[(1%N, PSelect 10%N); (2%N, PNotSelect); (4%N, PNotSelect); (5%N, PSelect 20%N)]"

// ---- operations ------------------------------------------------------------------------------------
type c16Pos struct {
	kind    string        // "", NEXT, PRIOR, FIRST, LAST, ABSOLUTE, RELATIVE
	num     value.Primary // ABSOLUTE / RELATIVE
	literal string        // SQL text of the number; "" = passed through the variable @p
}

func (p c16Pos) coq() string {
	switch p.kind {
	case "", "NEXT":
		return "PNext"
	case "PRIOR":
		return "PPrior"
	case "FIRST":
		return "PFirst"
	case "LAST":
		return "PLast"
	case "ABSOLUTE":
		return "(PAbs " + coqVal(p.num) + ")"
	}
	return "(PRel " + coqVal(p.num) + ")"
}
func (p c16Pos) sql() string {
	switch p.kind {
	case "":
		return ""
	case "ABSOLUTE", "RELATIVE":
		if p.literal != "" {
			return p.kind + " " + p.literal + " "
		}
		return p.kind + " @p "
	}
	return p.kind + " "
}
func (p c16Pos) huge() bool {
	if p.kind != "RELATIVE" {
		return false
	}
	i := value.ToInteger(p.num)
	if iv, ok := i.(*value.Integer); ok {
		return iv.Raw() > 1<<62 || iv.Raw() < -(1<<62)
	}
	return false
}

type c16Op struct {
	kind   string // declare pseudo open close dispose fetch isopen inrange count dml push pop break continue while
	cur    int    // cursor id
	name   string // cursor name as written (case varies)
	src    c16Src
	arg    int
	pos    c16Pos
	into   []int
	neg    bool
	vals   []value.Primary // pseudo cursor
	dml    string          // SQL of the data-changing statement
	upd    string          // Coq dbmap of what it changed (filled in after execution)
	body   []*c16Op
	change map[int]string
}

func c16VarName(i int) string {
	if i >= 4 {
		return "@zz"
	}
	return fmt.Sprintf("@v%d", i)
}
func c16Vars(into []int) string {
	s := make([]string, len(into))
	for i, v := range into {
		s[i] = c16VarName(v)
	}
	return strings.Join(s, ", ")
}
func c16NatList(l []int) string {
	s := make([]string, len(l))
	for i, v := range l {
		s[i] = fmt.Sprintf("%d%%nat", v)
	}
	return "[" + strings.Join(s, "; ") + "]"
}

// SQL text of a statement ("" for operations made through the API: pseudo, push, pop)
func (o *c16Op) sql() string {
	switch o.kind {
	case "declare":
		return fmt.Sprintf("DECLARE %s CURSOR FOR %s;", o.name, o.src.sql())
	case "open":
		return fmt.Sprintf("OPEN %s%s;", o.name, c16Using[o.arg])
	case "close":
		return fmt.Sprintf("CLOSE %s;", o.name)
	case "dispose":
		return fmt.Sprintf("DISPOSE CURSOR %s;", o.name)
	case "fetch":
		return fmt.Sprintf("FETCH %s%s INTO %s;", o.pos.sql(), o.name, c16Vars(o.into))
	case "isopen":
		return fmt.Sprintf("CURSOR %s IS %sOPEN", o.name, map[bool]string{true: "NOT ", false: ""}[o.neg])
	case "inrange":
		return fmt.Sprintf("CURSOR %s IS %sIN RANGE", o.name, map[bool]string{true: "NOT ", false: ""}[o.neg])
	case "count":
		return fmt.Sprintf("CURSOR %s COUNT", o.name)
	case "dml":
		return o.dml + ";"
	case "break":
		return "BREAK;"
	case "continue":
		return "CONTINUE;"
	case "while":
		var b strings.Builder
		fmt.Fprintf(&b, "WHILE %s IN %s DO INSERT INTO wlog%d VALUES (%s);", c16Vars(o.into), o.name, len(o.into), c16Vars(o.into))
		for _, s := range o.body {
			b.WriteString(" " + s.sql())
		}
		b.WriteString(" END WHILE;")
		return b.String()
	case "pseudo":
		vs := make([]string, len(o.vals))
		for i, v := range o.vals {
			vs[i] = showVal(v)
		}
		return fmt.Sprintf("[api] AddPseudoCursor(%s, [%s])", o.name, strings.Join(vs, ", "))
	case "push":
		return "[api] enter a block (Processor.NewChildProcessor)"
	case "pop":
		return "[api] leave the block (Processor.Close)"
	}
	panic("c16: unknown op " + o.kind)
}

func (o *c16Op) coqSimple() string {
	c := fmt.Sprintf("%d%%N", o.cur)
	switch o.kind {
	case "declare":
		return fmt.Sprintf("SDeclare %s %s", c, o.src.coq())
	case "pseudo":
		vs := make([]string, len(o.vals))
		for i, v := range o.vals {
			vs[i] = c16Val(v)
		}
		return fmt.Sprintf("SPseudo %s %s", c, coqList(vs))
	case "open":
		return fmt.Sprintf("SOpen %s %d%%N", c, o.arg)
	case "close":
		return "SClose " + c
	case "dispose":
		return "SDispose " + c
	case "fetch":
		return fmt.Sprintf("SFetch %s %s %s", c, o.pos.coq(), c16NatList(o.into))
	case "isopen":
		return fmt.Sprintf("SIsOpen %s %s", c, coqBool(o.neg))
	case "inrange":
		return fmt.Sprintf("SInRange %s %s", c, coqBool(o.neg))
	case "count":
		return "SCount " + c
	case "dml":
		return "SChange " + o.upd
	case "push":
		return "SPush"
	case "pop":
		return "SPop"
	case "break":
		return "SBreak"
	case "continue":
		return "SContinue"
	}
	panic("c16: unknown simple op " + o.kind)
}

func (o *c16Op) coq() string {
	if o.kind == "while" {
		bs := make([]string, len(o.body))
		for i, s := range o.body {
			bs[i] = s.coqSimple()
		}
		return fmt.Sprintf("OWhile %d%%N %s %s", o.cur, c16NatList(o.into), coqList(bs))
	}
	return "OSimple (" + o.coqSimple() + ")"
}

// row data: text cells without oracles (H16.vs), everything else as usual
func c16Val(p value.Primary) string {
	if s, ok := p.(*value.String); ok {
		return "(vs " + coqStr(s.Raw()) + ")"
	}
	return coqVal(p)
}
func c16Rows(rows [][]value.Primary) string {
	rs := make([]string, len(rows))
	for i, r := range rows {
		cs := make([]string, len(r))
		for j, c := range r {
			cs[j] = c16Val(c)
		}
		rs[i] = coqList(cs)
	}
	return coqList(rs)
}

func c16ErrClass(err error) string {
	if err == nil {
		return "None"
	}
	if e, ok := err.(query.Error); ok {
		switch e.Number() {
		case query.ErrorCursorRedeclared:
			return "(Some ERedeclared)"
		case query.ErrorUndeclaredCursor:
			return "(Some EUndeclared)"
		case query.ErrorCursorClosed:
			return "(Some EClosed)"
		case query.ErrorCursorOpen:
			return "(Some EAlreadyOpen)"
		case query.ErrorPseudoCursor:
			return "(Some EPseudo)"
		case query.ErrorInvalidFetchPosition:
			return "(Some EFetchPos)"
		case query.ErrorCursorFetchLength:
			return "(Some EFetchLen)"
		case query.ErrorUndeclaredVariable:
			return "(Some EUndeclVar)"
		case query.ErrorStatementNotExist:
			return "(Some EStmtNotExist)"
		case query.ErrorInvalidCursorStatement:
			return "(Some EInvalidStmt)"
		}
	}
	return "(Some EQuery)"
}

// ---- one history on the implementation ------------------------------------------------------------
type c16Exec struct {
	ctx    context.Context
	tx     *query.Transaction
	procs  []*query.Processor
	lastDB map[int]string
	lastV  string
}

func (x *c16Exec) cur() *query.Processor { return x.procs[len(x.procs)-1] }

func (x *c16Exec) exec(sql string) error {
	stmts, _, err := parser.Parse(sql, "", false, x.tx.Flags.AnsiQuotes)
	if err != nil {
		panic("c16: generated statement does not parse: " + sql + ": " + err.Error())
	}
	if len(stmts) != 1 {
		panic("c16: expected one statement: " + sql)
	}
	return x.guarded(x.cur(), stmts[0], sql)
}

// c16Failure: the implementation panicked or did not come back from a statement
type c16Failure struct {
	kind, sql, detail string
}

const c16StmtTimeout = 20 * time.Second

// every statement runs under a watchdog; a panic or a statement that does not terminate is a
// violation established by the harness itself (reported with the history so far)
func (x *c16Exec) guarded(proc *query.Processor, stmt parser.Statement, sql string) (err error) {
	done := make(chan struct{})
	var perr interface{}
	ctx, cancel := context.WithCancel(x.ctx)
	defer cancel()
	go func() {
		defer func() {
			if r := recover(); r != nil {
				perr = r
			}
			close(done)
		}()
		_, err = proc.ExecuteStatement(ctx, stmt)
	}()
	select {
	case <-done:
	case <-time.After(c16StmtTimeout):
		cancel()
		panic(c16Failure{kind: "statement-does-not-terminate", sql: sql, detail: fmt.Sprintf("no answer after %s", c16StmtTimeout)})
	}
	if perr != nil {
		panic(c16Failure{kind: "panic", sql: sql, detail: fmt.Sprint(perr)})
	}
	return err
}

func (x *c16Exec) must(sql string) {
	if err := x.exec(sql); err != nil {
		panic("c16: setup statement failed: " + sql + ": " + err.Error())
	}
}

func (x *c16Exec) selectRows(sql string, prepared bool) ([][]value.Primary, error) {
	stmts, _, err := parser.Parse(sql, "", prepared, x.tx.Flags.AnsiQuotes)
	if err != nil {
		panic("c16: query does not parse: " + sql)
	}
	ctx := x.ctx
	if prepared {
		ctx = query.ContextForPreparedStatement(ctx, query.NewReplaceValues(nil))
	}
	v, err := query.Select(ctx, x.cur().ReferenceScope, stmts[0].(parser.SelectQuery))
	if err != nil {
		return nil, err
	}
	return viewRows(v), nil
}

// current result of every query, as Coq terms
func (x *c16Exec) evalDB() map[int]string {
	m := map[int]string{}
	for _, q := range c16Queries {
		rows, err := x.selectRows(q.sql, q.prepared)
		if err != nil {
			m[q.id] = "None"
		} else {
			m[q.id] = "(Some " + c16Rows(rows) + ")"
		}
	}
	return m
}

func c16DBCoq(m map[int]string, only map[int]bool) string {
	var items []string
	for _, q := range c16Queries {
		if only != nil && !only[q.id] {
			continue
		}
		items = append(items, fmt.Sprintf("(%d%%N, %s)", q.id, m[q.id]))
	}
	return coqList(items)
}

// entries of the query results that differ from the last time they were recorded
func (x *c16Exec) dbDiff() string {
	now := x.evalDB()
	ch := map[int]bool{}
	for id, s := range now {
		if x.lastDB[id] != s {
			ch[id] = true
		}
	}
	x.lastDB = now
	return c16DBCoq(now, ch)
}

func (x *c16Exec) varsNow() ([]value.Primary, string) {
	vs := make([]value.Primary, 4)
	cs := make([]string, 4)
	for i := range vs {
		v, err := x.procs[0].ReferenceScope.GetVariable(parser.Variable{Name: fmt.Sprintf("v%d", i)})
		if err != nil {
			panic(err)
		}
		vs[i] = v
		cs[i] = c16Val(v)
	}
	return vs, coqList(cs)
}

type c16Obs struct {
	err, val, vars, log string
	show                map[string]interface{}
}

func (x *c16Exec) status(expr string) (value.Primary, error) {
	stmts, _, err := parser.Parse("SELECT "+expr, "", false, x.tx.Flags.AnsiQuotes)
	if err != nil {
		panic("c16: status expression does not parse: " + expr)
	}
	sel := stmts[0].(parser.SelectQuery).SelectEntity.(parser.SelectEntity).SelectClause.(parser.SelectClause)
	return query.Evaluate(x.ctx, x.cur().ReferenceScope, sel.Fields[0].(parser.Field).Object)
}

// run one operation and observe
func (x *c16Exec) step(o *c16Op) c16Obs {
	ob := c16Obs{val: "None", log: "[]", show: map[string]interface{}{}}
	var err error
	switch o.kind {
	case "isopen", "inrange", "count":
		var p value.Primary
		p, err = x.status(o.sql())
		if err == nil {
			ob.val = "(Some " + coqVal(p) + ")"
			ob.show["value"] = showVal(p)
		}
	case "pseudo":
		err = x.cur().ReferenceScope.AddPseudoCursor(parser.Identifier{Literal: o.name}, o.vals)
	case "push":
		x.procs = append(x.procs, x.cur().NewChildProcessor())
	case "pop":
		x.cur().Close()
		x.procs = x.procs[:len(x.procs)-1]
	case "fetch":
		if (o.pos.kind == "ABSOLUTE" || o.pos.kind == "RELATIVE") && o.pos.literal == "" {
			if _, e := x.procs[0].ReferenceScope.SubstituteVariableDirectly(parser.Variable{Name: "p"}, o.pos.num); e != nil {
				panic(e)
			}
		}
		err = x.exec(o.sql())
	case "dml":
		err = x.exec(o.sql())
		if err != nil {
			panic("c16: data-changing statement failed: " + o.sql() + ": " + err.Error())
		}
		o.upd = x.dbDiff()
	case "while":
		for _, s := range o.body {
			if s.kind == "fetch" && (s.pos.kind == "ABSOLUTE" || s.pos.kind == "RELATIVE") && s.pos.literal == "" {
				panic("c16: loop bodies pass fetch numbers as literals")
			}
		}
		err = x.exec(o.sql())
		upd := x.dbDiff()
		for _, s := range o.body {
			if s.kind == "dml" {
				s.upd = upd
			}
		}
		wl := fmt.Sprintf("wlog%d", len(o.into))
		rows, e := x.selectRows("SELECT * FROM "+wl, false)
		if e != nil {
			panic(e)
		}
		ob.log = c16Rows(rows)
		ob.show["visited"] = showValRows(rows)
		if e := x.execOn0("DELETE FROM " + wl + ";"); e != nil {
			panic(e)
		}
	default:
		err = x.exec(o.sql())
	}
	ob.err = c16ErrClass(err)
	if err != nil {
		ob.show["error"] = err.Error()
	}
	vs, vc := x.varsNow()
	if vc == x.lastV {
		ob.vars = "None"
	} else {
		ob.vars = "(Some " + vc + ")"
		x.lastV = vc
		sv := make([]string, len(vs))
		for i, v := range vs {
			sv[i] = showVal(v)
		}
		ob.show["vars"] = sv
	}
	return ob
}

func (x *c16Exec) execOn0(sql string) error {
	stmts, _, err := parser.Parse(sql, "", false, x.tx.Flags.AnsiQuotes)
	if err != nil {
		return err
	}
	return x.guarded(x.procs[0], stmts[0], sql)
}

// ---- tables -------------------------------------------------------------------------------------------
var c16Texts = []string{"a", "b", "c", "d", "e", "f", "", " x ", "1", "NULL"}

func c16TypedLit(r *rand.Rand) string {
	return []string{"1", "2", "-7", "1.5", "'s'", "'t'", "NULL", "TRUE", "FALSE", "''", "0", "'2012-02-03'"}[r.Intn(12)]
}

type c16Case struct {
	tRows  [][]*string
	ttRows [][2]string // literal SQL of (id, v)
	ops    []*c16Op
}

// ---- generator ---------------------------------------------------------------------------------------
type c16Track struct {
	declared, open bool
	width          int
	stmt, valid    bool
}

type c16Gen struct {
	r      *rand.Rand
	scopes []map[int]*c16Track
	nextID int
	tLen   int
}

func (g *c16Gen) look(c int) *c16Track {
	for i := len(g.scopes) - 1; i >= 0; i-- {
		if t, ok := g.scopes[i][c]; ok {
			return t
		}
	}
	return nil
}

func (g *c16Gen) name(c int) string {
	if g.r.Intn(4) == 0 {
		return fmt.Sprintf("C%d", c)
	}
	return fmt.Sprintf("c%d", c)
}

func (g *c16Gen) pickCursor() int {
	switch k := g.r.Intn(10); {
	case k < 6:
		return 1
	case k < 9:
		return 2
	}
	return 3
}

var c16HugeInts = []int64{math.MaxInt64, math.MinInt64, math.MaxInt64 - 1, math.MinInt64 + 1, 1 << 62, -(1 << 62), 1<<62 + 1, math.MaxInt32 + 1, -4611686018427387905}

func (g *c16Gen) number(literalOnly bool) (value.Primary, string) {
	r := g.r
	k := r.Intn(100)
	switch {
	case k < 62:
		n := r.Intn(g.tLen+4) - 2
		if literalOnly || r.Intn(2) == 0 {
			return value.NewInteger(int64(n)), fmt.Sprint(n)
		}
		return value.NewInteger(int64(n)), ""
	case k < 74:
		n := c16HugeInts[r.Intn(len(c16HugeInts))]
		if n >= 0 && (literalOnly || r.Intn(2) == 0) {
			return value.NewInteger(n), fmt.Sprint(n)
		}
		if n > math.MinInt64 && (literalOnly || r.Intn(2) == 0) {
			return value.NewInteger(n), fmt.Sprint(n) // unary minus on an integer literal
		}
		if literalOnly {
			return value.NewInteger(3), "3"
		}
		return value.NewInteger(n), ""
	case k < 80:
		return value.NewNull(), "NULL"
	case k < 88:
		s := []string{"2", " 1 ", "x", "", "1.9", "-1", "2e0", "+3", "0x2", "1_0", "true"}[r.Intn(11)]
		return value.NewString(s), "'" + s + "'"
	case k < 94:
		f := []float64{1.9, 0.5, -0.5, 2, -1.5, 3.99, 1e10, -1e10, 4611686018427387904}[r.Intn(9)]
		if literalOnly {
			return value.NewFloat(1.9), "1.9"
		}
		return value.NewFloat(f), ""
	case k < 96:
		if literalOnly {
			return value.NewNull(), "NULL"
		}
		return value.NewFloat([]float64{math.NaN(), math.Inf(1), math.Inf(-1)}[r.Intn(3)]), ""
	}
	if literalOnly {
		return value.NewNull(), "NULL"
	}
	return []value.Primary{value.NewBoolean(true), value.NewTernary(ternary.TRUE), value.NewTernary(ternary.UNKNOWN), value.NewBoolean(false)}[r.Intn(4)], ""
}

func (g *c16Gen) position(literalOnly bool, forwardOnly bool) c16Pos {
	r := g.r
	if forwardOnly {
		return c16Pos{kind: []string{"", "NEXT", "LAST"}[r.Intn(3)]}
	}
	k := r.Intn(100)
	switch {
	case k < 25:
		return c16Pos{kind: "NEXT"}
	case k < 38:
		return c16Pos{kind: ""}
	case k < 50:
		return c16Pos{kind: "PRIOR"}
	case k < 57:
		return c16Pos{kind: "FIRST"}
	case k < 65:
		return c16Pos{kind: "LAST"}
	case k < 82:
		n, lit := g.number(literalOnly)
		return c16Pos{kind: "ABSOLUTE", num: n, literal: lit}
	}
	n, lit := g.number(literalOnly)
	return c16Pos{kind: "RELATIVE", num: n, literal: lit}
}

func (g *c16Gen) into(width int) []int {
	r := g.r
	n := width
	if width == 0 {
		n = 1 + r.Intn(2)
	}
	switch k := r.Intn(20); {
	case k == 0 && n > 1:
		n--
	case k == 1 && n < 3:
		n++
	}
	l := make([]int, n)
	perm := r.Perm(4)
	for i := range l {
		l[i] = perm[i]
	}
	if r.Intn(25) == 0 {
		l[r.Intn(n)] = r.Intn(4) // possibly a duplicate
	}
	if r.Intn(30) == 0 {
		l[r.Intn(n)] = 9 // @zz, undeclared
	}
	return l
}

func (g *c16Gen) dml(idempotent bool) string {
	r := g.r
	if idempotent {
		return []string{"DELETE FROM t", "UPDATE t SET v = 'w'", "DELETE FROM tt", "UPDATE tt SET v = 0", "DELETE FROM t WHERE id = '2'",
			"UPDATE t SET v = 'z' WHERE id = '3'", "DELETE FROM t WHERE id > 1", "UPDATE tt SET v = 'q' WHERE id = 2"}[r.Intn(8)]
	}
	g.nextID++
	switch r.Intn(14) {
	case 0, 1:
		return fmt.Sprintf("INSERT INTO t VALUES ('%d', 'n%d')", g.nextID, g.nextID)
	case 2:
		return fmt.Sprintf("INSERT INTO t VALUES ('0', NULL), ('%d', 'm')", g.nextID)
	case 3:
		return fmt.Sprintf("UPDATE t SET v = 'u%d'", g.nextID)
	case 4:
		return fmt.Sprintf("UPDATE t SET v = 'u%d' WHERE id = '%d'", g.nextID, 1+r.Intn(6))
	case 5:
		return fmt.Sprintf("UPDATE t SET id = '%d', v = NULL WHERE id = '%d'", g.nextID, 1+r.Intn(4))
	case 6:
		return fmt.Sprintf("DELETE FROM t WHERE id = '%d'", 1+r.Intn(6))
	case 7:
		return "DELETE FROM t"
	case 8:
		return fmt.Sprintf("INSERT INTO tt VALUES (%d, %s)", g.nextID, c16TypedLit(r))
	case 9:
		return fmt.Sprintf("UPDATE tt SET v = %s", c16TypedLit(r))
	case 10:
		return fmt.Sprintf("UPDATE tt SET v = %s WHERE id = %d", c16TypedLit(r), 1+r.Intn(4))
	case 11:
		return fmt.Sprintf("DELETE FROM tt WHERE id = %d", 1+r.Intn(4))
	case 12:
		return "ROLLBACK"
	}
	return "COMMIT"
}

func (g *c16Gen) declareOp(c int) *c16Op {
	src := c16Sources[g.r.Intn(len(c16Sources))]
	top := g.scopes[len(g.scopes)-1]
	if _, ok := top[c]; !ok {
		top[c] = &c16Track{declared: true, width: src.width, stmt: src.stmt, valid: src.valid()}
	}
	return &c16Op{kind: "declare", cur: c, name: g.name(c), src: src}
}

func (g *c16Gen) openOp(c int) *c16Op {
	t := g.look(c)
	arg := 0
	if t != nil && t.stmt {
		arg = 1 + g.r.Intn(2)
		if g.r.Intn(8) == 0 {
			arg = 0
		}
	} else if g.r.Intn(10) == 0 {
		arg = 1
	}
	if t != nil && t.valid && (!t.stmt || arg != 0) {
		t.open = true
	}
	return &c16Op{kind: "open", cur: c, name: g.name(c), arg: arg}
}

func (g *c16Gen) fetchOp(c int, literalOnly, forwardOnly bool) *c16Op {
	w := 0
	if t := g.look(c); t != nil {
		w = t.width
	}
	return &c16Op{kind: "fetch", cur: c, name: g.name(c), pos: g.position(literalOnly, forwardOnly), into: g.into(w)}
}

func (g *c16Gen) whileOp(c int) *c16Op {
	r := g.r
	w := 0
	if t := g.look(c); t != nil {
		w = t.width
	}
	o := &c16Op{kind: "while", cur: c, name: g.name(c), into: g.into(w)}
	nb := r.Intn(4)
	hasDML := false
	for i := 0; i < nb; i++ {
		d := g.pickCursor()
		k := r.Intn(100)
		switch {
		case k < 30 && !hasDML:
			hasDML = true
			o.body = append(o.body, &c16Op{kind: "dml", dml: g.dml(true)})
		case k < 55:
			// fetching from the loop's own cursor only moves forward (no endless loops)
			o.body = append(o.body, g.fetchOp(d, true, d == c))
		case k < 65 && d != c:
			o.body = append(o.body, &c16Op{kind: "open", cur: d, name: g.name(d), arg: r.Intn(2)})
		case k < 72:
			o.body = append(o.body, &c16Op{kind: "close", cur: d, name: g.name(d)})
		case k < 78:
			src := c16Sources[r.Intn(len(c16Sources))]
			o.body = append(o.body, &c16Op{kind: "declare", cur: d, name: g.name(d), src: src})
		case k < 82:
			o.body = append(o.body, &c16Op{kind: "dispose", cur: d, name: g.name(d)})
		case k < 88:
			o.body = append(o.body, &c16Op{kind: "break"})
		case k < 94:
			o.body = append(o.body, &c16Op{kind: "continue"})
		default:
			o.body = append(o.body, g.fetchOp(d, true, d == c))
		}
	}
	return o
}

func (g *c16Gen) statusOp(c int) *c16Op {
	k := []string{"isopen", "inrange", "inrange", "count"}[g.r.Intn(4)]
	return &c16Op{kind: k, cur: c, name: g.name(c), neg: g.r.Intn(3) == 0}
}

func (g *c16Gen) next() *c16Op {
	r := g.r
	c := g.pickCursor()
	t := g.look(c)
	k := r.Intn(100)
	// structure-independent operations
	switch {
	case k < 9:
		return &c16Op{kind: "dml", dml: g.dml(false)}
	case k < 14:
		if len(g.scopes) < 3 && r.Intn(2) == 0 {
			g.scopes = append(g.scopes, map[int]*c16Track{})
			return &c16Op{kind: "push"}
		}
		if len(g.scopes) > 1 {
			g.scopes = g.scopes[:len(g.scopes)-1]
			return &c16Op{kind: "pop"}
		}
	case k < 15:
		n := r.Intn(4)
		vals := make([]value.Primary, n)
		for i := range vals {
			vals[i] = []value.Primary{value.NewInteger(int64(i)), value.NewString("p"), value.NewNull(), value.NewFloat(2.5)}[r.Intn(4)]
		}
		top := g.scopes[len(g.scopes)-1]
		if _, ok := top[c]; !ok {
			top[c] = &c16Track{declared: true, open: true, width: 1}
		}
		return &c16Op{kind: "pseudo", cur: c, name: g.name(c), vals: vals}
	}
	k = r.Intn(100)
	switch {
	case t == nil:
		switch {
		case k < 75:
			return g.declareOp(c)
		case k < 82:
			return g.openOp(c)
		case k < 88:
			return g.fetchOp(c, false, false)
		case k < 94:
			return g.statusOp(c)
		case k < 96:
			return &c16Op{kind: "close", cur: c, name: g.name(c)}
		case k < 98:
			return &c16Op{kind: "dispose", cur: c, name: g.name(c)}
		}
		return g.whileOp(c)
	case !t.open && !t.valid:
		switch {
		case k < 30:
			return g.openOp(c)
		case k < 75:
			delete(g.scopes[len(g.scopes)-1], c)
			return &c16Op{kind: "dispose", cur: c, name: g.name(c)}
		case k < 85:
			return g.statusOp(c)
		case k < 92:
			return g.fetchOp(c, false, false)
		}
		return g.whileOp(c)
	case !t.open:
		switch {
		case k < 62:
			return g.openOp(c)
		case k < 72:
			return g.statusOp(c)
		case k < 80:
			return g.fetchOp(c, false, false)
		case k < 85:
			delete(g.scopes[len(g.scopes)-1], c)
			return &c16Op{kind: "dispose", cur: c, name: g.name(c)}
		case k < 90:
			return g.declareOp(c)
		case k < 94:
			return &c16Op{kind: "close", cur: c, name: g.name(c)}
		}
		return g.whileOp(c)
	}
	switch {
	case k < 52:
		return g.fetchOp(c, false, false)
	case k < 66:
		return g.statusOp(c)
	case k < 76:
		return g.whileOp(c)
	case k < 83:
		t.open = false
		return &c16Op{kind: "close", cur: c, name: g.name(c)}
	case k < 87:
		return g.openOp(c)
	case k < 90:
		return g.declareOp(c)
	case k < 93:
		delete(g.scopes[len(g.scopes)-1], c)
		return &c16Op{kind: "dispose", cur: c, name: g.name(c)}
	}
	return &c16Op{kind: "dml", dml: g.dml(false)}
}

func c16Generate(r *rand.Rand) *c16Case {
	cs := &c16Case{}
	nT := r.Intn(7)
	for i := 0; i < nT; i++ {
		var v *string
		if tx := c16Texts[r.Intn(len(c16Texts))]; tx != "NULL" {
			v = sp(tx)
		}
		cs.tRows = append(cs.tRows, []*string{sp(fmt.Sprint(i + 1)), v})
	}
	nTT := r.Intn(5)
	for i := 0; i < nTT; i++ {
		cs.ttRows = append(cs.ttRows, [2]string{fmt.Sprint(i + 1), c16TypedLit(r)})
	}
	g := &c16Gen{r: r, scopes: []map[int]*c16Track{{}}, nextID: 6, tLen: nT}
	n := 8 + r.Intn(18)
	for i := 0; i < n; i++ {
		cs.ops = append(cs.ops, g.next())
	}
	return cs
}

// hand-written histories that always run first: the boundary walk, the documented finding, the
// snapshot under every kind of change, scopes
func c16Corpus() []*c16Case {
	rows := func(n int) [][]*string {
		var rs [][]*string
		for i := 0; i < n; i++ {
			rs = append(rs, []*string{sp(fmt.Sprint(i + 1)), sp(string(rune('a' + i)))})
		}
		return rs
	}
	decl := func(c int, q int, w int) *c16Op {
		return &c16Op{kind: "declare", cur: c, name: fmt.Sprintf("c%d", c), src: c16Src{false, q, w}}
	}
	open := func(c int) *c16Op { return &c16Op{kind: "open", cur: c, name: fmt.Sprintf("c%d", c)} }
	cls := func(c int) *c16Op { return &c16Op{kind: "close", cur: c, name: fmt.Sprintf("c%d", c)} }
	fetch := func(c int, kind string, n int64, into ...int) *c16Op {
		p := c16Pos{kind: kind}
		if kind == "ABSOLUTE" || kind == "RELATIVE" {
			p.num = value.NewInteger(n)
			if n > math.MinInt64 {
				p.literal = fmt.Sprint(n)
			}
		}
		return &c16Op{kind: "fetch", cur: c, name: fmt.Sprintf("C%d", c), pos: p, into: into}
	}
	st := func(c int, kind string, neg bool) *c16Op {
		return &c16Op{kind: kind, cur: c, name: fmt.Sprintf("c%d", c), neg: neg}
	}
	dml := func(s string) *c16Op { return &c16Op{kind: "dml", dml: s} }
	var out []*c16Case
	// 1. minimal replay of the finding: RELATIVE MaxInt64 from pointer 1 wraps to "before the first row"
	out = append(out, &c16Case{tRows: rows(3), ops: []*c16Op{decl(1, 1, 2), open(1), fetch(1, "NEXT", 0, 0, 1), fetch(1, "NEXT", 0, 0, 1),
		fetch(1, "RELATIVE", math.MaxInt64, 0, 1), st(1, "inrange", false), fetch(1, "NEXT", 0, 2, 3)}})
	// 2. ... and RELATIVE MinInt64 from pointer -1 wraps to "after the last row"
	out = append(out, &c16Case{tRows: rows(3), ops: []*c16Op{decl(1, 1, 2), open(1), fetch(1, "RELATIVE", math.MinInt64, 0, 1), fetch(1, "PRIOR", 0, 2, 3)}})
	// 3. boundary walk on every size 0..6
	for n := 0; n <= 6; n++ {
		ops := []*c16Op{decl(1, 1, 2), st(1, "isopen", false), open(1), st(1, "inrange", false), st(1, "count", false)}
		for i := 0; i <= n+1; i++ {
			ops = append(ops, fetch(1, "NEXT", 0, 0, 1), st(1, "inrange", false))
		}
		ops = append(ops, fetch(1, "PRIOR", 0, 2, 3), fetch(1, "ABSOLUTE", int64(n), 0, 1), fetch(1, "ABSOLUTE", int64(n-1), 0, 1), fetch(1, "ABSOLUTE", -1, 2, 3),
			fetch(1, "FIRST", 0, 0, 1), fetch(1, "RELATIVE", int64(n), 2, 3), fetch(1, "LAST", 0, 0, 1), fetch(1, "RELATIVE", 0, 2, 3), fetch(1, "RELATIVE", -int64(n), 0, 1),
			fetch(1, "ABSOLUTE", math.MaxInt64, 0, 1), st(1, "inrange", true), fetch(1, "ABSOLUTE", math.MinInt64, 0, 1), cls(1), st(1, "count", false), st(1, "inrange", false), fetch(1, "NEXT", 0, 0, 1))
		out = append(out, &c16Case{tRows: rows(n), ops: ops})
	}
	// 4. snapshot under every kind of change, then re-open
	for _, d := range []string{"DELETE FROM t", "UPDATE t SET v = 'changed'", "INSERT INTO t VALUES ('0', 'new')", "UPDATE t SET id = '9' WHERE id = '2'", "DELETE FROM t WHERE id = '2'"} {
		out = append(out, &c16Case{tRows: rows(4), ops: []*c16Op{decl(1, 1, 2), open(1), fetch(1, "NEXT", 0, 0, 1), dml(d), fetch(1, "NEXT", 0, 0, 1), fetch(1, "LAST", 0, 2, 3),
			st(1, "count", false), {kind: "while", cur: 1, name: "c1", into: []int{0, 1}}, fetch(1, "FIRST", 0, 0, 1),
			{kind: "while", cur: 1, name: "c1", into: []int{2, 3}, body: []*c16Op{dml("DELETE FROM t")}},
			dml("ROLLBACK"), fetch(1, "ABSOLUTE", 1, 0, 1), cls(1), open(1), st(1, "count", false), fetch(1, "NEXT", 0, 0, 1)}})
	}
	// 5. the same on the temporary table
	out = append(out, &c16Case{ttRows: [][2]string{{"1", "'x'"}, {"2", "1.5"}, {"3", "NULL"}}, ops: []*c16Op{decl(2, 3, 2), open(2), dml("UPDATE tt SET v = 7"), fetch(2, "NEXT", 0, 0, 1),
		dml("DELETE FROM tt"), fetch(2, "NEXT", 0, 0, 1), {kind: "while", cur: 2, name: "c2", into: []int{2, 3}}, cls(2), open(2), fetch(2, "NEXT", 0, 0, 1), st(2, "count", false)}})
	// 6. scopes: an inner cursor of the same name shadows the outer one and disappears with its block
	out = append(out, &c16Case{tRows: rows(3), ops: []*c16Op{decl(1, 1, 2), open(1), fetch(1, "NEXT", 0, 0, 1), {kind: "push"}, fetch(1, "NEXT", 0, 0, 1), decl(1, 2, 1), fetch(1, "NEXT", 0, 2),
		st(1, "isopen", false), open(1), fetch(1, "NEXT", 0, 2), cls(1), {kind: "dispose", cur: 1, name: "c1"}, fetch(1, "NEXT", 0, 0, 1), decl(1, 2, 1), open(1), {kind: "pop"},
		st(1, "count", false), fetch(1, "NEXT", 0, 0, 1), fetch(1, "NEXT", 0, 0, 1)}})
	return out
}

// ---- driver ---------------------------------------------------------------------------------------------
func c16RunCase(cs *c16Case) (initDB string, obs []c16Obs, fail *c16Failure) {
	sc := newScratch()
	defer sc.Close()
	writeCSV(sc.Path("t.csv"), []string{"id", "v"}, cs.tRows)
	tx := newTx(sc.Dir)
	x := &c16Exec{ctx: context.Background(), tx: tx, procs: []*query.Processor{query.NewProcessor(tx)}}
	release := func() {
		for i := len(x.procs) - 1; i >= 1; i-- {
			x.procs[i].Close()
		}
		_ = tx.ReleaseResourcesWithErrors()
	}
	defer func() {
		if r := recover(); r != nil {
			f, ok := r.(c16Failure)
			if !ok {
				panic(r)
			}
			fail = &f
			if f.kind == "panic" {
				for i := len(x.procs) - 1; i >= 1; i-- {
					x.procs[i].Close()
				}
				_ = tx.ReleaseResourcesWithErrors()
			}
		}
	}()
	x.must("VAR @v0, @v1, @v2, @v3, @p, @into;")
	x.must("DECLARE tt VIEW (id, v);")
	for _, r := range cs.ttRows {
		x.must(fmt.Sprintf("INSERT INTO tt VALUES (%s, %s);", r[0], r[1]))
	}
	x.must("DECLARE wlog1 VIEW (a);")
	x.must("DECLARE wlog2 VIEW (a, b);")
	x.must("DECLARE wlog3 VIEW (a, b, c);")
	x.must("PREPARE s1 FROM 'SELECT id, v FROM t WHERE id > ?';")
	x.must("PREPARE s2 FROM 'INSERT INTO tt VALUES (99, 99)';")
	x.must("PREPARE s4 FROM 'SELECT 1; SELECT 2';")
	x.must("PREPARE s5 FROM 'SELECT id INTO @into FROM t';")
	x.must("COMMIT;")
	x.lastDB = x.evalDB()
	initDB = c16DBCoq(x.lastDB, nil)
	_, x.lastV = x.varsNow()
	for _, o := range cs.ops {
		obs = append(obs, x.step(o))
	}
	release()
	return
}

func runC16(seed int64, tier string, out string) {
	r := rand.New(rand.NewSource(seed))
	meta := newMeta("C16", seed)
	meta.Rule = "a case is one history of 8-25 statements (plus a fixed corpus of boundary walks) over cursors c1..c3 (names in varying case) declared for 5 queries on a CSV file table t (0-6 rows) and a temporary table tt (0-4 typed rows) or for prepared statements (valid with/without USING, a SELECT INTO whose OPEN fails when t has 2+ rows, not a SELECT, two statements, missing): DECLARE / OPEN [USING] / FETCH [NEXT|PRIOR|FIRST|LAST|ABSOLUTE n|RELATIVE n] INTO (n: small, negative, 0, len, +-2^62, +-2^63, NULL, text, float, NaN, boolean; right and wrong variable counts, duplicates, an undeclared variable) / CLOSE / DISPOSE / CURSOR c IS [NOT] OPEN / IS [NOT] IN RANGE / COUNT / WHILE vars IN c DO log; body END WHILE (bodies: fetches, open/close/declare/dispose, one idempotent data change, BREAK, CONTINUE) / entering and leaving blocks / pseudo cursors, interleaved with INSERT/UPDATE/DELETE/ROLLBACK/COMMIT on both tables; executed statement by statement on one transaction. Distinct non-trivial = distinct sequences of (statement kind, position kind, error class, did the variables change) among histories in which at least two fetches delivered a row and a data change happened while a cursor was open."
	w := &shardWriter{dir: out, prop: "C16", max: 100, meta: meta,
		header: "From Coq Require Import ZArith NArith List Floats.\nRequire Import Csvq.Model.Base Csvq.Model.Value Csvq.Model.Cursor Csvq.Harness.H16.\nOpen Scope list_scope.\n",
		footer: func(ls []string) string {
			return "Definition M := Eval vm_compute in (check_cases cases).\nPrint M.\n"
		}}
	n := 1200
	if tier == "thorough" {
		n = 16000
		w.max = 1000
	}
	sig := map[string]bool{}
	id := 0
	stop := false
	emit := func(cs *c16Case, origin string) {
		initDB, obs, fail := c16RunCase(cs)
		if fail != nil {
			var hist []string
			for i := 0; i <= len(obs) && i < len(cs.ops); i++ {
				hist = append(hist, cs.ops[i].sql())
			}
			meta.Direct = append(meta.Direct, DirectViolation{Key: "C16:" + fail.kind,
				What: fmt.Sprintf("%s: %s (%s) after the history shown in the replay", fail.kind, fail.sql, fail.detail),
				Case: map[string]interface{}{"origin": origin, "table_t": showCellRows(cs.tRows), "table_tt": cs.ttRows, "history": hist, "failing_statement": fail.sql, "detail": fail.detail}})
			meta.Distribution["failure:"+fail.kind]++
			if fail.kind != "panic" || len(meta.Direct) >= 5 {
				stop = true
			}
			return
		}
		steps := make([]string, len(cs.ops))
		var show []interface{}
		huge := false
		var sg strings.Builder
		delivered, changedWhileOpen, anyOpen := 0, false, false
		for i, o := range cs.ops {
			steps[i] = fmt.Sprintf("(%s,\n    mkObs %s %s %s %s)", o.coq(), obs[i].err, obs[i].val, obs[i].vars, obs[i].log)
			e := map[string]interface{}{"stmt": o.sql()}
			for k, v := range obs[i].show {
				e[k] = v
			}
			show = append(show, e)
			if o.kind == "fetch" && o.pos.huge() {
				huge = true
			}
			for _, s := range o.body {
				if s.kind == "fetch" && s.pos.huge() {
					huge = true
				}
			}
			fmt.Fprintf(&sg, "%s/%s/%s/%v;", o.kind, o.pos.kind, obs[i].err, obs[i].vars != "None")
			meta.Distribution["stmt:"+o.kind]++
			if o.kind == "fetch" {
				meta.Distribution["fetch:"+map[bool]string{true: "NEXT(default)", false: o.pos.kind}[o.pos.kind == ""]]++
				if obs[i].err == "None" && obs[i].vars != "None" {
					delivered++
				}
			}
			if o.kind == "open" && obs[i].err == "None" {
				anyOpen = true
			}
			if o.kind == "dml" && anyOpen {
				changedWhileOpen = true
			}
			if obs[i].err != "None" {
				meta.Distribution["error:"+strings.Trim(obs[i].err, "()")]++
			}
		}
		meta.Distribution[fmt.Sprintf("size-t:%d", len(cs.tRows))]++
		meta.Distribution["origin:"+origin]++
		if delivered >= 2 && changedWhileOpen {
			sig[sg.String()] = true
		}
		tRows := showCellRows(cs.tRows)
		mk := func(mode int, tags []string) {
			w.add("cases:ccase", fmt.Sprintf("mkC %s %d%%N\n  %s\n  [VNull; VNull; VNull; VNull] %s\n  [%s]", coqN(id), mode, initDB, c16Prep, strings.Join(steps, ";\n   ")))
			c := map[string]interface{}{"origin": origin, "table_t": tRows, "table_tt": cs.ttRows, "history": show,
				"setup": "VAR @v0..@v3,@p; DECLARE tt VIEW (id, v) + rows; wlog1..3; PREPARE s1 FROM 'SELECT id, v FROM t WHERE id > ?'; s2 = an INSERT; s4 = two statements; s5 = 'SELECT id INTO @into FROM t' (its OPEN fails after the view is built when t has 2+ rows); COMMIT"}
			if tags != nil {
				c["tags"] = tags
				c["note"] = "compared with the exact-arithmetic specification only (mode 2); its twin with the previous id is compared with the bug-compatible model"
			}
			meta.Cases[fmt.Sprint(id)] = c
			if len(meta.Samples) < 4 && (id == 0 || id == 9 || id%397 == 40) {
				meta.Samples = append(meta.Samples, c)
			}
			id++
		}
		if huge {
			meta.Distribution["relative-number-near-2^63"]++
			mk(1, nil)
			mk(2, []string{c16FindingOverflow})
		} else {
			mk(0, nil)
		}
		meta.Evaluations += len(cs.ops)
	}
	for _, cs := range c16Corpus() {
		if !stop {
			emit(cs, "corpus")
		}
	}
	for i := 0; i < n && !stop; i++ {
		emit(c16Generate(r), "random")
	}
	w.flush()
	meta.Distinct = len(sig)
	meta.Notes = append(meta.Notes, "evaluations = statements executed on the implementation and compared; out-of-range FETCH leaves the variables unchanged (the manual says NULL) -- the model follows the code, not flagged (DESIGN.md section 5, C16)")
	meta.write(out)
	if stop {
		os.Exit(0) // a statement of the implementation may still be spinning
	}
}
