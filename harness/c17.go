package main

// C17: analytic functions equal their per-partition, per-frame definition.
// SELECT <all columns>, <analytic function> FROM t through parser.Parse + query.Select; the rows
// (which carry a unique first column) are compared as a multiset with Model.Analytic.analyze.

import (
	"context"
	"fmt"
	"math/rand"
	"strings"

	"github.com/mithrandie/csvq/lib/parser"
	"github.com/mithrandie/csvq/lib/query"
	"github.com/mithrandie/csvq/lib/value"
)

func init() { runners["C17"] = runC17 }

func runC17(seed int64, tier string, out string) {
	r := rand.New(rand.NewSource(seed))
	meta := newMeta("C17", seed)
	meta.Rule = "tables with a unique first column plus 2-3 columns of small domains (ties, NULLs; 0-14 rows, some 200-400 rows run with cpu 4 so that several workers take partitions) and one analytic function per query: ROW_NUMBER, RANK, DENSE_RANK, CUME_DIST, PERCENT_RANK, NTILE(n), FIRST/LAST/NTH_VALUE [IGNORE NULLS], LAG/LEAD [offset [, default]] [IGNORE NULLS], COUNT/SUM/AVG/MIN/MAX [DISTINCT] and COUNT(*) with OVER, with PARTITION BY (0-2 expressions), ORDER BY (0-2 keys; made unique by the id column for order-sensitive functions, with ties for the rank family) and ROWS frames (all combinations of UNBOUNDED/n PRECEDING, CURRENT ROW, n FOLLOWING, UNBOUNDED FOLLOWING). Plus, compared on the implementation itself: a user-defined aggregate with an extra argument and OVER against SUM ... OVER times the row's own argument, and LAG / LEAD whose default names a column against a NULL default (cpu 1-8). Non-trivial = at least two rows in some partition; distinct = distinct SQL texts."
	g := &qGen{r: r, pool: qPool(), noDiv: true}
	nTables, perTable := 30, 16
	if tier == "thorough" {
		nTables, perTable = 300, 20
	}
	header := "From Coq Require Import ZArith NArith List Floats.\nRequire Import Csvq.Model.Base Csvq.Model.Value Csvq.Model.Compare Csvq.Model.Arith Csvq.Model.Expr Csvq.Model.Key Csvq.Model.SortVal Csvq.Model.Query Csvq.Model.Analytic Csvq.Harness.H17.\nOpen Scope list_scope.\n"
	var defs, cases []string
	shardN := 0
	flush := func() {
		if len(cases) == 0 {
			return
		}
		name := fmt.Sprintf("cases_C17_%d.v", shardN)
		writeFile(out, name, header+strings.Join(defs, "")+"Definition acases : list acase := [\n "+strings.Join(cases, ";\n ")+"\n].\nDefinition M := Eval vm_compute in (check_analytic acases).\nPrint M.\n")
		meta.Shards = append(meta.Shards, name)
		shardN++
		defs, cases = nil, nil
	}
	distinct := map[string]bool{}
	id := 0
	doms := [][]string{{"1", "2", "3", "2", "1"}, {"a", "b", "A", " a", "c"}, {"1", "1.0", "2", "1.5", "2.50", "2.5"}, {"x", "y"}, {"10", "20", "30", "40", "5", "15", "25"},
		{"2012-02-03", "2012-02-04", "2012/02/03"}, {"true", "false", "1", "0"}}
	for ti := 0; ti < nTables; ti++ {
		sc := newScratch()
		tx := newTx(sc.Dir)
		big := ti%10 == 4
		nrows := r.Intn(15)
		if big {
			nrows = 200 + r.Intn(200)
		}
		ncols := 3 + r.Intn(2)
		t := &qTable{name: "t", coq: fmt.Sprintf("tbl%d", ti)}
		cd := make([][]string, ncols)
		sortable := []int{}
		for c := 0; c < ncols; c++ {
			t.cols = append(t.cols, fmt.Sprintf("c%d", c+1))
			di := r.Intn(len(doms))
			cd[c] = doms[di]
			if c > 0 && di != len(doms)-1 { // the last domain mixes booleans and integers: not mutually comparable
				sortable = append(sortable, c)
			}
		}
		perm := r.Perm(nrows)
		for i := 0; i < nrows; i++ {
			row := make([]*string, ncols)
			row[0] = sp(fmt.Sprint(perm[i] + 1)) // unique id
			for c := 1; c < ncols; c++ {
				if r.Intn(6) == 0 {
					continue
				}
				row[c] = sp(cd[c][r.Intn(len(cd[c]))])
			}
			t.rows = append(t.rows, row)
		}
		writeCSV(sc.Path("t.csv"), t.cols, t.rows)
		defs = append(defs, t.coqDef())
		cols := make([]qCol, ncols)
		for i, c := range t.cols {
			cols[i] = qCol{"t." + c, i}
		}
		dataCols := cols[1:]
		nq := perTable
		if big {
			nq = 6
		}
		for qi := 0; qi < nq; qi++ {
			strict := false
			cpu := 1
			if big || qi%4 == 3 {
				cpu = 4
			}
			colE := func() qE {
				c := dataCols[r.Intn(len(dataCols))]
				return qE{c.sql, fmt.Sprintf("(ECol %d)", c.idx)}
			}
			valE := func() qE {
				if r.Intn(4) == 0 {
					return g.scalar(dataCols, 1)
				}
				return colE()
			}
			// PARTITION BY
			var psql, pcoq []string
			for i := 0; i < r.Intn(3); i++ {
				e := colE()
				if r.Intn(5) == 0 {
					e = g.scalar(dataCols, 1)
				}
				psql, pcoq = append(psql, e.sql), append(pcoq, e.coq)
			}
			kind := r.Intn(14)
			orderSensitive := kind != 1 && kind != 2 && kind != 3 && kind != 4
			// ORDER BY
			var osql, ocoq []string
			nord := r.Intn(3)
			hasFrame := false
			if kind >= 6 && kind <= 8 || kind >= 11 {
				hasFrame = r.Intn(3) != 0
			}
			if hasFrame && nord == 0 {
				nord = 1
			}
			if len(sortable) == 0 && nord > 0 {
				nord = 0
				hasFrame = false
			}
			if nord == 0 {
				strict = r.Intn(4) == 0 // --strict-equal only where no sorting is involved (see C07)
			}
			for i := 0; i < nord; i++ {
				sc := cols[sortable[r.Intn(len(sortable))]]
				e := qE{sc.sql, fmt.Sprintf("(ECol %d)", sc.idx)}
				d := [][2]string{{"", "Asc"}, {" ASC", "Asc"}, {" DESC", "Desc"}}[r.Intn(3)]
				np := [][2]string{{"", "None"}, {" NULLS FIRST", "(Some NFirst)"}, {" NULLS LAST", "(Some NLast)"}}[r.Intn(3)]
				osql = append(osql, e.sql+d[0]+np[0])
				ocoq = append(ocoq, fmt.Sprintf("mkO (OExpr %s) %s %s", e.coq, d[1], np[1]))
			}
			if nord > 0 && orderSensitive {
				d := [][2]string{{"", "Asc"}, {" DESC", "Desc"}}[r.Intn(2)]
				osql = append(osql, "t.c1"+d[0])
				ocoq = append(ocoq, fmt.Sprintf("mkO (OExpr (ECol 0)) %s None", d[1]))
			}
			if nord == 0 && orderSensitive && kind != 0 {
				// without ORDER BY the partition is in table order (deterministic: no sort happens)
			}
			// frame
			fsql, fcoq := "", "None"
			asym := false
			if hasFrame {
				pos := func(high bool) (string, string, int) {
					n := r.Intn(3)
					switch r.Intn(5) {
					case 0:
						if high {
							return "UNBOUNDED FOLLOWING", "FUnbFollowing", 1000
						}
						return "UNBOUNDED PRECEDING", "FUnbPreceding", -1000
					case 1:
						return fmt.Sprintf("%d PRECEDING", n), fmt.Sprintf("(FPreceding %d)", n), -n
					case 2:
						return "CURRENT ROW", "FCurrent", 0
					case 3:
						return fmt.Sprintf("%d FOLLOWING", n), fmt.Sprintf("(FFollowing %d)", n), n
					default:
						return "CURRENT ROW", "FCurrent", 0
					}
				}
				if r.Intn(4) == 0 {
					var s, c string
					var k int
					for {
						s, c, k = pos(false)
						if k <= 0 && !strings.Contains(c, "Following") {
							break
						}
					}
					fsql, fcoq = " ROWS "+s, fmt.Sprintf("(Some (%s, None))", c)
					asym = true
				} else {
					ls, lc, lk := pos(false)
					hs, hc, hk := pos(true)
					fsql, fcoq = " ROWS BETWEEN "+ls+" AND "+hs, fmt.Sprintf("(Some (%s, Some %s))", lc, hc)
					asym = lk != -hk
				}
			}
			ign := r.Intn(3) == 0
			ignS := map[bool]string{true: " IGNORE NULLS", false: ""}[ign]
			var fnsql, fncoq, shape string
			var tags []string
			switch kind {
			case 0:
				fnsql, fncoq, shape = "ROW_NUMBER()", "ARowNumber", "ROW_NUMBER"
				if nord > 0 { // ROW_NUMBER is order sensitive
					d := [][2]string{{"", "Asc"}, {" DESC", "Desc"}}[r.Intn(2)]
					_ = d
				}
			case 1:
				fnsql, fncoq, shape = "RANK()", "ARank", "RANK"
			case 2:
				fnsql, fncoq, shape = "DENSE_RANK()", "ADenseRank", "DENSE_RANK"
			case 3:
				fnsql, fncoq, shape = "CUME_DIST()", "ACumeDist", "CUME_DIST"
			case 4:
				fnsql, fncoq, shape = "PERCENT_RANK()", "APercentRank", "PERCENT_RANK"
			case 5:
				n := []int{1, 2, 3, 4, 7, 100}[r.Intn(6)]
				fnsql, fncoq, shape = fmt.Sprintf("NTILE(%d)", n), fmt.Sprintf("(ANtile (ELit (VInt %d)))", n), "NTILE"
			case 6:
				e := valE()
				fnsql, fncoq, shape = "FIRST_VALUE("+e.sql+")"+ignS, fmt.Sprintf("(AFirstValue %s %s)", e.coq, coqBool(ign)), "FIRST_VALUE"
			case 7:
				e := valE()
				fnsql, fncoq, shape = "LAST_VALUE("+e.sql+")"+ignS, fmt.Sprintf("(ALastValue %s %s)", e.coq, coqBool(ign)), "LAST_VALUE"
				if hasFrame && asym {
					tags = append(tags, "last-value-asymmetric-frame")
				}
			case 8:
				e := valE()
				n := 1 + r.Intn(4)
				fnsql, fncoq, shape = fmt.Sprintf("NTH_VALUE(%s, %d)%s", e.sql, n, ignS), fmt.Sprintf("(ANthValue %s (ELit (VInt %d)) %s)", e.coq, n, coqBool(ign)), "NTH_VALUE"
			case 9, 10:
				e := valE()
				name, ctor := "LAG", "ALag"
				if kind == 10 {
					name, ctor = "LEAD", "ALead"
				}
				args, off, dfl := e.sql, "None", "None"
				if r.Intn(2) == 0 {
					o := []int{0, 1, 2, 3, -1}[r.Intn(5)]
					args += fmt.Sprintf(", %d", o)
					off = fmt.Sprintf("(Some (ELit (VInt (%d))))", o)
					if o < 0 {
						args = e.sql + fmt.Sprintf(", (%d)", o)
						off = fmt.Sprintf("(Some (EUnary true (ELit (VInt %d))))", -o)
					}
					if r.Intn(2) == 0 {
						args += ", 'dflt'"
						dfl = "(Some " + coqLitString("dflt") + ")"
					}
				}
				fnsql, fncoq, shape = name+"("+args+")"+ignS, fmt.Sprintf("(%s %s %s %s %s)", ctor, e.coq, off, dfl, coqBool(ign)), name
			case 11, 12:
				a := qAggs[r.Intn(len(qAggs))]
				e := valE()
				dist := r.Intn(4) == 0
				fnsql = a[0] + "(" + map[bool]string{true: "DISTINCT ", false: ""}[dist] + e.sql + ")"
				fncoq, shape = fmt.Sprintf("(AAgg %s %s %s)", a[1], coqBool(dist), e.coq), "aggregate-over"
			default:
				fnsql, fncoq, shape = "COUNT(*)", "ACountStar", "COUNT(*)-over"
			}
			over := ""
			if len(psql) > 0 {
				over += "PARTITION BY " + strings.Join(psql, ", ")
			}
			if len(osql) > 0 {
				if over != "" {
					over += " "
				}
				over += "ORDER BY " + strings.Join(osql, ", ")
			}
			over += fsql
			colsSQL := make([]string, ncols)
			for i, c := range cols {
				colsSQL[i] = c.sql
			}
			sql := "SELECT " + strings.Join(colsSQL, ", ") + ", " + fnsql + " OVER (" + over + ") FROM t"
			// sometimes the query has its own ORDER BY (often on the column the analytic clause sorted by):
			// the sort values cached by the analytic function must follow the rows
			outer := "[]"
			if len(sortable) > 0 && !strict && r.Intn(3) == 0 {
				oc := cols[sortable[r.Intn(len(sortable))]]
				d := [][2]string{{"", "Asc"}, {" DESC", "Desc"}}[r.Intn(2)]
				sql += " ORDER BY " + oc.sql + d[0] + ", t.c1"
				outer = fmt.Sprintf("[mkO (OSel %d) %s None; mkO (OSel 0) Asc None]", oc.idx, d[1])
				shape += "+order-by"
			}
			tx.Flags.SetCPU(cpu)
			tx.Flags.SetStrictEqual(strict)
			view, err := selectView(tx, sql)
			var obs, show string
			if err != nil {
				if strings.Contains(err.Error(), "syntax error") {
					panic("harness: generated query is not valid: " + sql + ": " + err.Error())
				}
				obs, show = obsRes(nil, err), "error: "+err.Error()
			} else {
				rows := viewRows(view)
				obs = "(Ok " + coqValRows(rows) + ")"
				if len(rows) <= 16 {
					show = fmt.Sprint(showValRows(rows))
				} else {
					show = fmt.Sprintf("%d rows, first: %v", len(rows), showValRows(rows[:3]))
				}
			}
			cases = append(cases, fmt.Sprintf("mkA %s %s %s %s (mkAC %s %s %s) %s %s", coqN(id), coqBool(strict), t.coq, fncoq, coqList(pcoq), coqList(ocoq), fcoq, outer, obs))
			tbl := interface{}(showCellRows(t.rows))
			if len(t.rows) > 16 {
				tbl = fmt.Sprintf("%d rows (definition %s in the shard)", len(t.rows), t.coq)
			}
			c := map[string]interface{}{"sql": sql, "strict_equal": strict, "cpu": cpu, "table": tbl, "observed": show, "tags": tags}
			meta.Cases[fmt.Sprint(id)] = c
			if len(meta.Samples) < 4 && qi == 2 && ti%7 == 1 {
				meta.Samples = append(meta.Samples, c)
			}
			meta.Evaluations++
			meta.Distribution["function:"+shape]++
			if hasFrame {
				meta.Distribution["with-frame"]++
			}
			if err != nil {
				meta.Distribution["result:error"]++
			}
			if nrows >= 2 {
				distinct[sql] = true
			}
			id++
		}
		// ---- user-defined aggregates with OVER, and arguments that are not the first ---------------------
		// uwsum(v, w) OVER (clause) must be SUM(INTEGER(v)) OVER (the same clause) * INTEGER(w) of the row's own w,
		// and a "constant" argument (the default of LAG / LEAD) that names a column is evaluated without a
		// current record, i.e. as NULL: both are compared on the implementation itself (the built-in SUM ... OVER
		// and LAG with a literal default are compared with the model above)
		if nrows >= 2 {
			proc := query.NewProcessor(tx)
			decl, _, perr := parser.Parse("DECLARE uwsum AGGREGATE (list, @w) AS BEGIN VAR @s; VAR @x; WHILE @x IN list DO IF INTEGER(@x) IS NULL THEN CONTINUE; END IF; IF @s IS NULL THEN @s := 0; END IF; @s := @s + INTEGER(@x); END WHILE; RETURN @s * INTEGER(@w); END;", "", false, false)
			if perr != nil {
				panic("harness: " + perr.Error())
			}
			for _, st := range decl {
				if _, err := proc.ExecuteStatement(context.Background(), st); err != nil {
					panic("harness: cannot declare the aggregate: " + err.Error())
				}
			}
			np := 3
			if big {
				np = 4
			}
			for k := 0; k < np; k++ {
				v, wc := dataCols[r.Intn(len(dataCols))], dataCols[r.Intn(len(dataCols))]
				var parts []string
				for i := 0; i < r.Intn(3); i++ {
					parts = append(parts, dataCols[r.Intn(len(dataCols))].sql)
				}
				over := ""
				if len(parts) > 0 {
					over = "PARTITION BY " + strings.Join(parts, ", ")
				}
				switch r.Intn(3) {
				case 1:
					over += " ORDER BY t.c1"
				case 2:
					over += " ORDER BY t.c1 ROWS BETWEEN " + []string{"1 PRECEDING AND 1 FOLLOWING", "UNBOUNDED PRECEDING AND CURRENT ROW", "CURRENT ROW AND 2 FOLLOWING", "2 PRECEDING AND 1 PRECEDING"}[r.Intn(4)]
				}
				cpu := []int{1, 2, 4, 8}[r.Intn(4)]
				if big {
					cpu = []int{4, 8}[r.Intn(2)]
				}
				tx.Flags.SetCPU(cpu)
				tx.Flags.SetStrictEqual(false)
				pairs := [][3]string{
					{"user-aggregate-over", fmt.Sprintf("SELECT t.c1, uwsum(%s, %s) OVER (%s) FROM t", v.sql, wc.sql, over),
						fmt.Sprintf("SELECT t.c1, SUM(INTEGER(%s)) OVER (%s) * INTEGER(%s) FROM t", v.sql, over, wc.sql)},
				}
				if k%2 == 1 {
					lag := []string{"LAG", "LEAD"}[r.Intn(2)]
					po := over
					if !strings.Contains(po, "ORDER BY") {
						po += " ORDER BY t.c1"
					}
					po = strings.Split(po, " ROWS ")[0]
					pairs = append(pairs, [3]string{"constant-argument", fmt.Sprintf("SELECT t.c1, %s(%s, 1, %s) OVER (%s) FROM t", lag, v.sql, wc.sql, po),
						fmt.Sprintf("SELECT t.c1, %s(%s, 1, NULL) OVER (%s) FROM t", lag, v.sql, po)})
				}
				if k%2 == 0 && len(sortable) > 0 {
					// several analytic functions in one select list that share their ORDER BY (with ties): each must
					// give what it gives alone (the single-function forms are compared with the model above)
					rankFns := []string{"RANK()", "DENSE_RANK()", "CUME_DIST()", "PERCENT_RANK()", "COUNT(*)"}
					oc := cols[sortable[r.Intn(len(sortable))]]
					w := strings.TrimSpace(strings.Split(strings.Split(over, " ORDER BY")[0], " ROWS ")[0] + " ORDER BY " + oc.sql + []string{"", " DESC"}[r.Intn(2)])
					f1, f2 := rankFns[r.Intn(len(rankFns))], rankFns[r.Intn(4)]
					for pos, fn := range []string{f1, f2} {
						pairs = append(pairs, [3]string{"several-analytic-functions", fmt.Sprintf("SELECT t.c1, z.a%d FROM (SELECT t.c1 AS id, %s OVER (%s) AS a0, %s OVER (%s) AS a1 FROM t) z JOIN t ON t.c1 = z.id", pos, f1, w, f2, w),
							fmt.Sprintf("SELECT t.c1, %s OVER (%s) FROM t", fn, w)})
					}
				}
				if k%2 == 1 && len(sortable) > 0 {
					// DISTINCT (which removes nothing here: c1 is unique) re-projects the columns; the sort values an
					// analytic function cached per cell must not survive it: the outer ORDER BY gives the same sequence
					oc := cols[sortable[r.Intn(len(sortable))]]
					// the outer sort key is the FIRST item of the select list and the analytic function sorted by the
					// table's first column: a cache kept per cell index would hand the outer sort the wrong column
					list := fmt.Sprintf("%s, t.c1, ROW_NUMBER() OVER (ORDER BY t.c1%s) AS rn", oc.sql, []string{"", " DESC"}[r.Intn(2)])
					tail := fmt.Sprintf(" FROM t ORDER BY %s%s, t.c1", oc.sql, []string{"", " DESC"}[r.Intn(2)])
					pairs = append(pairs, [3]string{"seq:distinct-after-analytic", "SELECT DISTINCT " + list + tail, "SELECT " + list + tail})
				}
				for _, pq := range pairs {
					res := [2]map[string]string{}
					var errs [2]string
					for j := 0; j < 2; j++ {
						view, err := selectViewIn(proc.ReferenceScope, pq[1+j])
						if err != nil {
							if strings.Contains(err.Error(), "syntax error") {
								panic("harness: generated query is not valid: " + pq[1+j] + ": " + err.Error())
							}
							errs[j] = err.Error()
							continue
						}
						res[j] = map[string]string{}
						for ri, row := range viewRows(view) {
							if strings.HasPrefix(pq[0], "seq:") { // the two results are compared as sequences of whole rows
								res[j][fmt.Sprint(ri)] = fmt.Sprint(showValRows([][]value.Primary{row}))
								continue
							}
							// SUM answers with a float, integer arithmetic with an integer: compare numbers as floats
							cell := showVal(row[1])
							if f := value.ToFloat(row[1]); !value.IsNull(f) {
								cell = showVal(f)
							}
							res[j][showVal(row[0])] = cell
						}
					}
					meta.Evaluations++
					meta.Distribution["function:"+pq[0]]++
					distinct[pq[1]] = true
					bad := ""
					if (errs[0] == "") != (errs[1] == "") {
						bad = fmt.Sprintf("one of the two queries failed: %q / %q", errs[0], errs[1])
					} else if errs[0] == "" {
						for idv, a := range res[0] {
							if b, ok := res[1][idv]; !ok || a != b {
								bad = fmt.Sprintf("row %s: %s vs %s", idv, a, b)
								break
							}
						}
						if bad == "" && len(res[0]) != len(res[1]) {
							bad = "different numbers of rows"
						}
					}
					if bad != "" {
						meta.Direct = append(meta.Direct, DirectViolation{Key: pq[0], What: fmt.Sprintf("%s: %q and %q must give the same column (cpu %d): %s", pq[0], pq[1], pq[2], cpu, bad),
							Case: map[string]interface{}{"query": pq[1], "reference_query": pq[2], "cpu": cpu, "rows": nrows, "difference": bad, "table": showCellRows(t.rows)}})
					}
				}
			}
			proc.ReferenceScope.CloseCurrentBlock()
		}
		_ = tx.ReleaseResources()
		sc.Close()
		if len(cases) >= 60 || big {
			flush()
		}
	}
	flush()
	meta.Distinct = len(distinct)
	meta.write(out)
}
