package main

// C17: analytic functions equal their per-partition, per-frame definition.
// SELECT <all columns>, <analytic function> FROM t through parser.Parse + query.Select; the rows
// (which carry a unique first column) are compared as a multiset with Model.Analytic.analyze.

import (
	"fmt"
	"math/rand"
	"strings"
)

func init() { runners["C17"] = runC17 }

func runC17(seed int64, tier string, out string) {
	r := rand.New(rand.NewSource(seed))
	meta := newMeta("C17", seed)
	meta.Rule = "tables with a unique first column plus 2-3 columns of small domains (ties, NULLs; 0-14 rows, some 200-400 rows run with cpu 4 so that several workers take partitions) and one analytic function per query: ROW_NUMBER, RANK, DENSE_RANK, CUME_DIST, PERCENT_RANK, NTILE(n), FIRST/LAST/NTH_VALUE [IGNORE NULLS], LAG/LEAD [offset [, default]] [IGNORE NULLS], COUNT/SUM/AVG/MIN/MAX [DISTINCT] and COUNT(*) with OVER, with PARTITION BY (0-2 expressions), ORDER BY (0-2 keys; made unique by the id column for order-sensitive functions, with ties for the rank family) and ROWS frames (all combinations of UNBOUNDED/n PRECEDING, CURRENT ROW, n FOLLOWING, UNBOUNDED FOLLOWING). Non-trivial = at least two rows in some partition; distinct = distinct SQL texts."
	g := &qGen{r: r, pool: qPool(), noDiv: true}
	nTables, perTable := 30, 16
	if tier == "thorough" {
		nTables, perTable = 300, 20
	}
	header := "From Coq Require Import ZArith NArith List Floats.\nRequire Import Csvq.Model.Base Csvq.Model.Value Csvq.Model.Compare Csvq.Model.Arith Csvq.Model.Expr Csvq.Model.Key Csvq.Model.SortVal Csvq.Model.Query Csvq.Model.Analytic Csvq.Harness.H17.\nOpen Scope list_scope.\n"
	var defs, cases []string
	shardN := 0
	flush := func() {
		if len(cases) == 0 {
			return
		}
		name := fmt.Sprintf("cases_C17_%d.v", shardN)
		writeFile(out, name, header+strings.Join(defs, "")+"Definition acases : list acase := [\n "+strings.Join(cases, ";\n ")+"\n].\nDefinition M := Eval vm_compute in (check_analytic acases).\nPrint M.\n")
		meta.Shards = append(meta.Shards, name)
		shardN++
		defs, cases = nil, nil
	}
	distinct := map[string]bool{}
	id := 0
	doms := [][]string{{"1", "2", "3", "2", "1"}, {"a", "b", "A", " a", "c"}, {"1", "1.0", "2", "1.5", "2.50", "2.5"}, {"x", "y"}, {"10", "20", "30", "40", "5", "15", "25"},
		{"2012-02-03", "2012-02-04", "2012/02/03"}, {"true", "false", "1", "0"}}
	for ti := 0; ti < nTables; ti++ {
		sc := newScratch()
		tx := newTx(sc.Dir)
		big := ti%10 == 4
		nrows := r.Intn(15)
		if big {
			nrows = 200 + r.Intn(200)
		}
		ncols := 3 + r.Intn(2)
		t := &qTable{name: "t", coq: fmt.Sprintf("tbl%d", ti)}
		cd := make([][]string, ncols)
		sortable := []int{}
		for c := 0; c < ncols; c++ {
			t.cols = append(t.cols, fmt.Sprintf("c%d", c+1))
			di := r.Intn(len(doms))
			cd[c] = doms[di]
			if c > 0 && di != len(doms)-1 { // the last domain mixes booleans and integers: not mutually comparable
				sortable = append(sortable, c)
			}
		}
		perm := r.Perm(nrows)
		for i := 0; i < nrows; i++ {
			row := make([]*string, ncols)
			row[0] = sp(fmt.Sprint(perm[i] + 1)) // unique id
			for c := 1; c < ncols; c++ {
				if r.Intn(6) == 0 {
					continue
				}
				row[c] = sp(cd[c][r.Intn(len(cd[c]))])
			}
			t.rows = append(t.rows, row)
		}
		writeCSV(sc.Path("t.csv"), t.cols, t.rows)
		defs = append(defs, t.coqDef())
		cols := make([]qCol, ncols)
		for i, c := range t.cols {
			cols[i] = qCol{"t." + c, i}
		}
		dataCols := cols[1:]
		nq := perTable
		if big {
			nq = 6
		}
		for qi := 0; qi < nq; qi++ {
			strict := false
			cpu := 1
			if big || qi%4 == 3 {
				cpu = 4
			}
			colE := func() qE {
				c := dataCols[r.Intn(len(dataCols))]
				return qE{c.sql, fmt.Sprintf("(ECol %d)", c.idx)}
			}
			valE := func() qE {
				if r.Intn(4) == 0 {
					return g.scalar(dataCols, 1)
				}
				return colE()
			}
			// PARTITION BY
			var psql, pcoq []string
			for i := 0; i < r.Intn(3); i++ {
				e := colE()
				if r.Intn(5) == 0 {
					e = g.scalar(dataCols, 1)
				}
				psql, pcoq = append(psql, e.sql), append(pcoq, e.coq)
			}
			kind := r.Intn(14)
			orderSensitive := kind != 1 && kind != 2 && kind != 3 && kind != 4
			// ORDER BY
			var osql, ocoq []string
			nord := r.Intn(3)
			hasFrame := false
			if kind >= 6 && kind <= 8 || kind >= 11 {
				hasFrame = r.Intn(3) != 0
			}
			if hasFrame && nord == 0 {
				nord = 1
			}
			if len(sortable) == 0 && nord > 0 {
				nord = 0
				hasFrame = false
			}
			if nord == 0 {
				strict = r.Intn(4) == 0 // --strict-equal only where no sorting is involved (see C07)
			}
			for i := 0; i < nord; i++ {
				sc := cols[sortable[r.Intn(len(sortable))]]
				e := qE{sc.sql, fmt.Sprintf("(ECol %d)", sc.idx)}
				d := [][2]string{{"", "Asc"}, {" ASC", "Asc"}, {" DESC", "Desc"}}[r.Intn(3)]
				np := [][2]string{{"", "None"}, {" NULLS FIRST", "(Some NFirst)"}, {" NULLS LAST", "(Some NLast)"}}[r.Intn(3)]
				osql = append(osql, e.sql+d[0]+np[0])
				ocoq = append(ocoq, fmt.Sprintf("mkO (OExpr %s) %s %s", e.coq, d[1], np[1]))
			}
			if nord > 0 && orderSensitive {
				d := [][2]string{{"", "Asc"}, {" DESC", "Desc"}}[r.Intn(2)]
				osql = append(osql, "t.c1"+d[0])
				ocoq = append(ocoq, fmt.Sprintf("mkO (OExpr (ECol 0)) %s None", d[1]))
			}
			if nord == 0 && orderSensitive && kind != 0 {
				// without ORDER BY the partition is in table order (deterministic: no sort happens)
			}
			// frame
			fsql, fcoq := "", "None"
			asym := false
			if hasFrame {
				pos := func(high bool) (string, string, int) {
					n := r.Intn(3)
					switch r.Intn(5) {
					case 0:
						if high {
							return "UNBOUNDED FOLLOWING", "FUnbFollowing", 1000
						}
						return "UNBOUNDED PRECEDING", "FUnbPreceding", -1000
					case 1:
						return fmt.Sprintf("%d PRECEDING", n), fmt.Sprintf("(FPreceding %d)", n), -n
					case 2:
						return "CURRENT ROW", "FCurrent", 0
					case 3:
						return fmt.Sprintf("%d FOLLOWING", n), fmt.Sprintf("(FFollowing %d)", n), n
					default:
						return "CURRENT ROW", "FCurrent", 0
					}
				}
				if r.Intn(4) == 0 {
					var s, c string
					var k int
					for {
						s, c, k = pos(false)
						if k <= 0 && !strings.Contains(c, "Following") {
							break
						}
					}
					fsql, fcoq = " ROWS "+s, fmt.Sprintf("(Some (%s, None))", c)
					asym = true
				} else {
					ls, lc, lk := pos(false)
					hs, hc, hk := pos(true)
					fsql, fcoq = " ROWS BETWEEN "+ls+" AND "+hs, fmt.Sprintf("(Some (%s, Some %s))", lc, hc)
					asym = lk != -hk
				}
			}
			ign := r.Intn(3) == 0
			ignS := map[bool]string{true: " IGNORE NULLS", false: ""}[ign]
			var fnsql, fncoq, shape string
			var tags []string
			switch kind {
			case 0:
				fnsql, fncoq, shape = "ROW_NUMBER()", "ARowNumber", "ROW_NUMBER"
				if nord > 0 { // ROW_NUMBER is order sensitive
					d := [][2]string{{"", "Asc"}, {" DESC", "Desc"}}[r.Intn(2)]
					_ = d
				}
			case 1:
				fnsql, fncoq, shape = "RANK()", "ARank", "RANK"
			case 2:
				fnsql, fncoq, shape = "DENSE_RANK()", "ADenseRank", "DENSE_RANK"
			case 3:
				fnsql, fncoq, shape = "CUME_DIST()", "ACumeDist", "CUME_DIST"
			case 4:
				fnsql, fncoq, shape = "PERCENT_RANK()", "APercentRank", "PERCENT_RANK"
			case 5:
				n := []int{1, 2, 3, 4, 7, 100}[r.Intn(6)]
				fnsql, fncoq, shape = fmt.Sprintf("NTILE(%d)", n), fmt.Sprintf("(ANtile (ELit (VInt %d)))", n), "NTILE"
			case 6:
				e := valE()
				fnsql, fncoq, shape = "FIRST_VALUE("+e.sql+")"+ignS, fmt.Sprintf("(AFirstValue %s %s)", e.coq, coqBool(ign)), "FIRST_VALUE"
			case 7:
				e := valE()
				fnsql, fncoq, shape = "LAST_VALUE("+e.sql+")"+ignS, fmt.Sprintf("(ALastValue %s %s)", e.coq, coqBool(ign)), "LAST_VALUE"
				if hasFrame && asym {
					tags = append(tags, "last-value-asymmetric-frame")
				}
			case 8:
				e := valE()
				n := 1 + r.Intn(4)
				fnsql, fncoq, shape = fmt.Sprintf("NTH_VALUE(%s, %d)%s", e.sql, n, ignS), fmt.Sprintf("(ANthValue %s (ELit (VInt %d)) %s)", e.coq, n, coqBool(ign)), "NTH_VALUE"
			case 9, 10:
				e := valE()
				name, ctor := "LAG", "ALag"
				if kind == 10 {
					name, ctor = "LEAD", "ALead"
				}
				args, off, dfl := e.sql, "None", "None"
				if r.Intn(2) == 0 {
					o := []int{0, 1, 2, 3, -1}[r.Intn(5)]
					args += fmt.Sprintf(", %d", o)
					off = fmt.Sprintf("(Some (ELit (VInt (%d))))", o)
					if o < 0 {
						args = e.sql + fmt.Sprintf(", (%d)", o)
						off = fmt.Sprintf("(Some (EUnary true (ELit (VInt %d))))", -o)
					}
					if r.Intn(2) == 0 {
						args += ", 'dflt'"
						dfl = "(Some " + coqLitString("dflt") + ")"
					}
				}
				fnsql, fncoq, shape = name+"("+args+")"+ignS, fmt.Sprintf("(%s %s %s %s %s)", ctor, e.coq, off, dfl, coqBool(ign)), name
			case 11, 12:
				a := qAggs[r.Intn(len(qAggs))]
				e := valE()
				dist := r.Intn(4) == 0
				fnsql = a[0] + "(" + map[bool]string{true: "DISTINCT ", false: ""}[dist] + e.sql + ")"
				fncoq, shape = fmt.Sprintf("(AAgg %s %s %s)", a[1], coqBool(dist), e.coq), "aggregate-over"
			default:
				fnsql, fncoq, shape = "COUNT(*)", "ACountStar", "COUNT(*)-over"
			}
			over := ""
			if len(psql) > 0 {
				over += "PARTITION BY " + strings.Join(psql, ", ")
			}
			if len(osql) > 0 {
				if over != "" {
					over += " "
				}
				over += "ORDER BY " + strings.Join(osql, ", ")
			}
			over += fsql
			colsSQL := make([]string, ncols)
			for i, c := range cols {
				colsSQL[i] = c.sql
			}
			sql := "SELECT " + strings.Join(colsSQL, ", ") + ", " + fnsql + " OVER (" + over + ") FROM t"
			// sometimes the query has its own ORDER BY (often on the column the analytic clause sorted by):
			// the sort values cached by the analytic function must follow the rows
			outer := "[]"
			if len(sortable) > 0 && !strict && r.Intn(3) == 0 {
				oc := cols[sortable[r.Intn(len(sortable))]]
				d := [][2]string{{"", "Asc"}, {" DESC", "Desc"}}[r.Intn(2)]
				sql += " ORDER BY " + oc.sql + d[0] + ", t.c1"
				outer = fmt.Sprintf("[mkO (OSel %d) %s None; mkO (OSel 0) Asc None]", oc.idx, d[1])
				shape += "+order-by"
			}
			tx.Flags.SetCPU(cpu)
			tx.Flags.SetStrictEqual(strict)
			view, err := selectView(tx, sql)
			var obs, show string
			if err != nil {
				if strings.Contains(err.Error(), "syntax error") {
					panic("harness: generated query is not valid: " + sql + ": " + err.Error())
				}
				obs, show = obsRes(nil, err), "error: "+err.Error()
			} else {
				rows := viewRows(view)
				obs = "(Ok " + coqValRows(rows) + ")"
				if len(rows) <= 16 {
					show = fmt.Sprint(showValRows(rows))
				} else {
					show = fmt.Sprintf("%d rows, first: %v", len(rows), showValRows(rows[:3]))
				}
			}
			cases = append(cases, fmt.Sprintf("mkA %s %s %s %s (mkAC %s %s %s) %s %s", coqN(id), coqBool(strict), t.coq, fncoq, coqList(pcoq), coqList(ocoq), fcoq, outer, obs))
			tbl := interface{}(showCellRows(t.rows))
			if len(t.rows) > 16 {
				tbl = fmt.Sprintf("%d rows (definition %s in the shard)", len(t.rows), t.coq)
			}
			c := map[string]interface{}{"sql": sql, "strict_equal": strict, "cpu": cpu, "table": tbl, "observed": show, "tags": tags}
			meta.Cases[fmt.Sprint(id)] = c
			if len(meta.Samples) < 4 && qi == 2 && ti%7 == 1 {
				meta.Samples = append(meta.Samples, c)
			}
			meta.Evaluations++
			meta.Distribution["function:"+shape]++
			if hasFrame {
				meta.Distribution["with-frame"]++
			}
			if err != nil {
				meta.Distribution["result:error"]++
			}
			if nrows >= 2 {
				distinct[sql] = true
			}
			id++
		}
		_ = tx.ReleaseResources()
		sc.Close()
		if len(cases) >= 60 || big {
			flush()
		}
	}
	flush()
	meta.Distinct = len(distinct)
	meta.write(out)
}
