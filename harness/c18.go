package main

// C18: the parser is total; printed queries re-parse to the same query.
//
// Three streams:
//  (i)   parser.Scanner.Scan on random code-point strings, token soups, mutated valid queries and a
//        grammar-based corpus, in the four mode combinations -> token streams compared in Coq with
//        Model/Lex.v (kind, literal, quoted flag, placeholder ordinal, line, char, error class);
//  (ii)  option.EscapeString / UnescapeString / EscapeIdentifier / UnescapeIdentifier / Quote* on
//        random strings -> compared in Coq with Model/Escape.v;
//  (iii) differential, no model (c18_diff.go): parser.Parse on the same inputs must return without
//        panicking inside a time bound, a SyntaxError position must be a position of the input,
//        String() of what parsed must parse again and print identically, and SELECT-without-FROM
//        expressions of the corpus must evaluate identically before and after the round trip.

import (
	"fmt"
	"go/ast"
	goparser "go/parser"
	"go/token"
	"math/rand"
	"os"
	"path/filepath"
	"regexp"
	"sort"
	"strconv"
	"strings"
	"unicode"
	"unicode/utf8"

	"github.com/mithrandie/csvq/lib/option"
	"github.com/mithrandie/csvq/lib/parser"
)

func init() { runners["C18"] = runC18 }

// shards are cut by size (Coq's elaboration time is proportional to the size of the terms)
const c18ShardBytes = 400000

// ---- rendering -----------------------------------------------------------------------------------

func c18Ranges(t *unicode.RangeTable) string {
	var items []string
	for _, r := range t.R16 {
		if r.Hi > 255 {
			items = append(items, fmt.Sprintf("(%d,%d,%d)", r.Lo, r.Hi, r.Stride))
		}
	}
	for _, r := range t.R32 {
		items = append(items, fmt.Sprintf("(%d,%d,%d)", r.Lo, r.Hi, r.Stride))
	}
	return "[" + strings.Join(items, ";") + "]%N"
}

// c18Pack renders a text as a list of primitive 63-bit integers: three code points per integer,
// 21 bits each, stored + 1 (H18.unpack)
func c18Pack(str string) string {
	rs := []rune(str)
	if len(rs) == 0 {
		return "[]"
	}
	var b strings.Builder
	b.WriteString("[")
	for i := 0; i < len(rs); i += 3 {
		if i > 0 {
			b.WriteString(";")
		}
		var v uint64
		for j := i; j < i+3 && j < len(rs); j++ {
			v = v<<21 | uint64(rs[j]+1)
		}
		b.WriteString(strconv.FormatUint(v, 10))
	}
	b.WriteString("]")
	return b.String()
}

func c18Keywords() []string {
	var kws []string
	for i := parser.KeywordFrom; i <= parser.KeywordTo; i++ {
		kws = append(kws, parser.TokenLiteral(i))
	}
	return kws
}

func c18Header() string {
	var b strings.Builder
	b.WriteString("From Coq Require Import ZArith NArith List Uint63.\nRequire Import Csvq.Model.Base Csvq.Model.Escape Csvq.Model.Lex Csvq.Harness.H18.\nOpen Scope uint63_scope.\nOpen Scope list_scope.\n")
	toks := []int{parser.IDENTIFIER, parser.STRING, parser.INTEGER, parser.FLOAT, parser.TERNARY,
		parser.VARIABLE, parser.FLAG, parser.ENVIRONMENT_VARIABLE, parser.RUNTIME_INFORMATION, parser.EXTERNAL_COMMAND, parser.PLACEHOLDER,
		parser.CONSTANT, parser.TABLE_FUNCTION, parser.URL,
		parser.COMPARISON_OP, parser.STRING_OP, parser.SUBSTITUTION_OP,
		parser.AGGREGATE_FUNCTION, parser.LIST_FUNCTION, parser.ANALYTIC_FUNCTION, parser.FUNCTION_NTH, parser.FUNCTION_WITH_INS}
	var ts []string
	for _, t := range toks {
		ts = append(ts, coqZ(int64(t)))
	}
	var kws []string
	for i := parser.KeywordFrom; i <= parser.KeywordTo; i++ {
		kws = append(kws, fmt.Sprintf("(%s, %s)", coqStr(parser.TokenLiteral(i)), coqZ(int64(i))))
	}
	b.WriteString("Definition CFG : cfg := mkCfg (mkTokc " + strings.Join(ts, " ") + ")\n [" + strings.Join(kws, ";\n  ") + "]\n " +
		c18Ranges(unicode.Letter) + "\n " + c18Ranges(unicode.Digit) + "\n " + c18Private() + ".\n")
	return b.String()
}

// (yyPrivate, len(yyTok2)) read from the generated parser source of the tree under test: the private-use
// code points that are the grammar's token numbers (both names are unexported)
func c18Private() string {
	src := filepath.Join(repoDir(), "lib", "parser", "parser.go")
	f, err := goparser.ParseFile(token.NewFileSet(), src, nil, 0)
	if err != nil {
		panic("harness: " + err.Error())
	}
	private, n := "", -1
	for _, d := range f.Decls {
		gd, ok := d.(*ast.GenDecl)
		if !ok {
			continue
		}
		for _, sp := range gd.Specs {
			vs, ok := sp.(*ast.ValueSpec)
			if !ok || len(vs.Names) != 1 || len(vs.Values) != 1 {
				continue
			}
			switch vs.Names[0].Name {
			case "yyPrivate":
				if bl, ok := vs.Values[0].(*ast.BasicLit); ok {
					private = bl.Value
				}
			case "yyTok2":
				if cl, ok := vs.Values[0].(*ast.CompositeLit); ok {
					n = len(cl.Elts)
				}
			}
		}
	}
	if private == "" || n < 0 {
		panic("harness: yyPrivate / yyTok2 not found in " + src)
	}
	return fmt.Sprintf("(%s%%N, %d%%N)", private, n)
}

// error class numbers of H18.err_of_int
func c18ErrClass(err error) int {
	if err == nil {
		return 0
	}
	m := err.Error()
	switch {
	case m == "literal not terminated":
		return 1
	case m == "invalid variable symbol":
		return 2
	case m == "invalid constant syntax":
		return 3
	case strings.HasPrefix(m, "cound not convert") || strings.HasPrefix(m, "could not convert"):
		return 4
	}
	panic("harness: scanner error of an unknown class: " + m)
}

type c18Tok struct {
	Kind     int    `json:"kind"`
	Literal  string `json:"literal"`
	Quoted   bool   `json:"quoted,omitempty"`
	Ordinal  int    `json:"ordinal,omitempty"`
	Line     int    `json:"line"`
	Char     int    `json:"char"`
	Err      string `json:"err,omitempty"`
	errClass int
}

func (t c18Tok) coq() string {
	if t.Kind+2 < 0 || t.Kind+2 >= 1<<21 || t.Ordinal >= 1<<10 || t.Line >= 1<<12 || t.Char >= 1<<16 {
		panic("harness: token numbers outside the packed transport format")
	}
	v := uint64(t.Kind+2) | uint64(t.Ordinal)<<21 | uint64(t.Line)<<31 | uint64(t.Char)<<43 | uint64(t.errClass)<<59
	if t.Quoted {
		v |= 1 << 62
	}
	return fmt.Sprintf("mkOT %d %s", v, c18Pack(t.Literal))
}

// c18ShowToks: one line per token for replays: kind literal Lline:Cchar [quoted] [#ordinal] [error]
func c18ShowToks(toks []c18Tok) string {
	var parts []string
	for _, t := range toks {
		p := fmt.Sprintf("%d %q L%d:C%d", t.Kind, t.Literal, t.Line, t.Char)
		if t.Quoted {
			p += " quoted"
		}
		if t.Ordinal != 0 {
			p += fmt.Sprintf(" #%d", t.Ordinal)
		}
		if t.Err != "" {
			p += " error=" + t.Err
		}
		parts = append(parts, p)
	}
	return strings.Join(parts, " | ")
}

// c18NeedsRunes: the text has code points that do not show in a JSON string
func c18NeedsRunes(s string) bool {
	for _, r := range s {
		if r < 32 || r > 126 {
			return true
		}
	}
	return false
}

// c18ScanAll drives parser.Scanner the way Lexer.Lex does, until the EOF token.  A panic is
// returned as text.
func c18ScanAll(src string, prep, ansi bool) (toks []c18Tok, holders int, panicked string) {
	defer func() {
		if r := recover(); r != nil {
			panicked = fmt.Sprint(r)
		}
	}()
	s := new(parser.Scanner).Init(src, "", prep, ansi)
	limit := utf8.RuneCountInString(src) + 3
	for i := 0; i < limit; i++ {
		t, err := s.Scan()
		ot := c18Tok{Kind: t.Token, Literal: t.Literal, Quoted: t.Quoted, Ordinal: t.HolderOrdinal, Line: t.Line, Char: t.Char, errClass: c18ErrClass(err)}
		if err != nil {
			ot.Err = err.Error()
		}
		toks = append(toks, ot)
		if t.Token == parser.EOF {
			break
		}
	}
	return toks, s.HolderNumber(), ""
}

// ---- generators ----------------------------------------------------------------------------------

var c18Special = []rune{' ', ' ', '\t', '\n', '\r', '\v', '\f', 0x85, 0xA0, 0x1680, 0x2003, 0x2028, 0x3000,
	'\'', '\'', '"', '"', '`', '`', '\\', '\\', '/', '*', '-', '-', '@', '%', '#', '$', '{', '}', ';', ':', ':', '=', '<', '>', '!', '|',
	'(', ')', ',', '.', '?', '+', '^', '[', ']', '~', '&', '_', '0', '1', '9', 'e', 'E', 'a', 'z', 'A', 'Z', 'n', 't', 'r',
	0x17F, 0x212A, 0x131, 0x130, 0xAA, 0xB5, 0xBA, 0xC0, 0xD7, 0xF7, 0xFF, 0x100, 0x3042, 0x4E2D, 0x661, 0x966, 0xFF11, 0xFF21, 0x2160, 0xB2, 0xBD,
	0xE000, 0xE002, 0xE003, 0xE004, 0xE005, 0xE006, 0xE00C, 0xE010, 0xE012, 0xE0FF, 0xF8FF, 0xFFFD, 0xFEFF, 0x1F600, 0x1D400, 0x1D7D8, 0x10FFFF, 0, 1, 7, 8, 0x7F, 0x1B, 0x1B, 0x0E, 0x1A, 0x1C, 0x1F, 0x02, 0x10, 0x9B}

func c18RandRune(r *rand.Rand) rune {
	switch r.Intn(10) {
	case 0, 1, 2:
		return rune(32 + r.Intn(95))
	case 3, 4, 5, 6:
		return c18Special[r.Intn(len(c18Special))]
	case 7:
		return rune(r.Intn(0x300))
	case 8:
		x := rune(r.Intn(0x11000))
		if x >= 0xD800 && x <= 0xDFFF {
			x = 0xFFFD
		}
		return x
	default:
		return rune(parser.IDENTIFIER - 4 + r.Intn(parser.SUBSTITUTION_OP-parser.IDENTIFIER+8)) // around the goyacc token numbers (private use area)
	}
}

func c18RandString(r *rand.Rand, max int) string {
	n := r.Intn(max + 1)
	rs := make([]rune, n)
	for i := range rs {
		rs[i] = c18RandRune(r)
	}
	return string(rs)
}

var c18Fragments = []string{
	"=", "==", "<>", "!=", ":=", "||", "|", ":", "::", "=!", "<=", ">=", "<", ">", "!", "===", "|||", "<=>",
	"'", "\"", "`", "''", "\"\"", "``", "\\'", "\\\"", "\\`", "\\\\", "\\", "\\n", "'abc'", "\"abc\"", "`abc`", "'a''b'", "'a\\'b'", "`a``b`", "\"a\"\"b\"",
	"/*", "*/", "--", "/", "-", "*", "/**/", "/* x */", "-- x\n", "--\r\n", "/*/", "**/",
	"0", "1", "007", "1.5", "1.", "1e5", "1E+5", "1e-5", "1e", "1e+", "1.e1", "1..2", "1.2.3", "9223372036854775807", "9223372036854775808", "99999999999999999999",
	"1e308", "1e309", "1.7976931348623157e308", "1.7976931348623158e308", "1.7976931348623159e308", "17976931348623157e292", "0.00000000001e320", "1e400", "1e-400", "0e999", "0.0e9999", "1e99999",
	"179769313486231580793728971405303415079934132710037826936173778980444968292764750946649017977587207096330286416692887910946555547851940402630657488671505820681908902000708383676273854845817711531764475730270069855571366959622842914819860834936475292719074168444365510704342711559699508093042880177904174497791",
	"179769313486231580793728971405303415079934132710037826936173778980444968292764750946649017977587207096330286416692887910946555547851940402630657488671505820681908902000708383676273854845817711531764475730270069855571366959622842914819860834936475292719074168444365510704342711559699508093042880177904174497792",
	"179769313486231580793728971405303415079934132710037826936173778980444968292764750946649017977587207096330286416692887910946555547851940402630657488671505820681908902000708383676273854845817711531764475730270069855571366959622842914819860834936475292719074168444365510704342711559699508093042880177904174497791.99999",
	"@a", "@@flag", "@%ENV", "@#INFO", "@%`x y`", "@%`x\\`y`", "@%`", "@%``", "@", "@@", "@%", "@#", "@_1", "@\u3042",
	"$", "${", "}", "{", ";", "$echo 'a;b'", "${a;b}", "$x \"a\\\"b;\" ;",
	"?", ":name", ":a", ":1", ":_", ": x",
	"x::y", "x::", "file::(", "data:: (", "url::\n(", "math::pi", "http://a.b/c?d=e", "file:./a.csv", "a:b", "\u3042::\u3044", "_x::y", "1x::y", "x:::y",
	" ", "  ", "\n", "\r\n", "\r", "\t", "\u3000", "\u0085", "\u00A0", "\n\n",
	"(", ")", ",", ".", "+", "%", "[", "]", "^", "~", "&",
	"true", "TRUE", "fal\u017Fe", "unKnown", "unknown", "null", "NULL", "\u017Felect", "SELECT", "select", "a\u017Fc", "desc", "\u212Aelvin", "\u212Aey", "ran\u212A", "\u017Fum", "min", "listagg", "json_agg", "row_number", "first_value", "lag", "lead", "ntile", "stdevp", "count", "substring", "json_object", "ties", "csv", "jsonl", "\u0131", "\u0130",
	"abc", "a1", "_a", "\u3042\u3044", "col", "t1", "a.b", "t.1", "stdin", "dual",
	"\uE002", "\uE003", "\uE004", "\uE005", "\uE00B", "\uFFFD",
}

func c18Soup(r *rand.Rand, kws []string) string {
	n := 1 + r.Intn(9)
	var b strings.Builder
	for i := 0; i < n; i++ {
		switch r.Intn(12) {
		case 0, 1:
			k := kws[r.Intn(len(kws))]
			switch r.Intn(4) {
			case 0:
				k = strings.ToLower(k)
			case 1:
				k = strings.Replace(strings.ToLower(k), "s", "\u017F", 1)
			case 2:
				k = strings.Replace(k, "K", "\u212A", 1)
			}
			b.WriteString(k)
		case 2:
			b.WriteRune(c18RandRune(r))
		case 3:
			b.WriteString(" ")
		default:
			b.WriteString(c18Fragments[r.Intn(len(c18Fragments))])
		}
		if r.Intn(3) == 0 {
			b.WriteString(" ")
		}
	}
	return b.String()
}

// c18ExtCommand: an external command ($...) made of plain words, quoted parts with escapes, ${...}
// expressions with escapes, stray $ { } and line breaks, with or without the terminating semicolon
func c18ExtCommand(r *rand.Rand) string {
	pieces := []string{"echo", " ", "  ", "-la", "a=b", "'x y'", "'it\\'s'", "\"d q\"", "\"a\\\"b\"", "`bq`", "`b\\`q`", "'a;b'", "'${x}'", "${@a}", "${@a || 'x'}", "${ 1 + 1 }",
		"${'}'}", "${a\\}b}", "${a\\{b}", "${a\\\\}", "${}", "$", "$x", "{", "}", "\\", "\\;", "\n", "\r\n", "\r", "|", "&&", "2>&1", "\u3042", "@a", "--x", "/*c*/"}
	var b strings.Builder
	b.WriteString("$")
	n := 2 + r.Intn(6)
	for i := 0; i < n; i++ {
		b.WriteString(pieces[r.Intn(len(pieces))])
		if r.Intn(2) == 0 {
			b.WriteString(" ")
		}
	}
	if r.Intn(2) == 0 {
		b.WriteString("; SELECT 1")
	}
	s := b.String()
	if rs := []rune(s); len(rs) > 48 {
		s = string(rs[:48])
	}
	return s
}

func c18Mutate(r *rand.Rand, q string) string {
	rs := []rune(q)
	n := 1 + r.Intn(3)
	for i := 0; i < n; i++ {
		if len(rs) == 0 {
			rs = append(rs, c18RandRune(r))
			continue
		}
		p := r.Intn(len(rs))
		switch r.Intn(7) {
		case 0: // delete
			rs = append(rs[:p:p], rs[p+1:]...)
		case 1: // insert a rune
			rs = append(rs[:p:p], append([]rune{c18RandRune(r)}, rs[p:]...)...)
		case 2: // replace
			rs[p] = c18RandRune(r)
		case 3: // truncate
			rs = rs[:p]
		case 4: // insert a fragment
			f := []rune(c18Fragments[r.Intn(len(c18Fragments))])
			rs = append(rs[:p:p], append(f, rs[p:]...)...)
		case 5: // duplicate a slice
			e := p + r.Intn(len(rs)-p+1)
			dup := append([]rune{}, rs[p:e]...)
			rs = append(rs[:e:e], append(dup, rs[e:]...)...)
		case 6: // swap two runes
			o := r.Intn(len(rs))
			rs[p], rs[o] = rs[o], rs[p]
		}
	}
	return string(rs)
}

// c18RepoDir finds the csvq source tree the harness was built against (the replace directive)
func c18RepoDir() string {
	root := os.Getenv("VERIF_ROOT")
	if root == "" {
		return ""
	}
	b, err := os.ReadFile(filepath.Join(root, "harness", "go.mod"))
	if err != nil {
		return ""
	}
	m := regexp.MustCompile(`(?m)^replace\s+github.com/mithrandie/csvq\s+=>\s+(\S+)`).FindSubmatch(b)
	if m == nil {
		return ""
	}
	return string(m[1])
}

// c18TestInputs extracts the program texts of the pinned parser tests (`input: "..."` / `Input:`)
func c18TestInputs(repo string) []string {
	if repo == "" {
		return nil
	}
	var out []string
	seen := map[string]bool{}
	re := regexp.MustCompile("(?m)^\\s*(?:input|Input|Query|query):\\s*((?:\"(?:[^\"\\\\\\n]|\\\\.)*\"|`[^`]*`)(?:\\s*\\+\\s*\\n?\\s*(?:\"(?:[^\"\\\\\\n]|\\\\.)*\"|`[^`]*`))*)\\s*,")
	lit := regexp.MustCompile("\"(?:[^\"\\\\\\n]|\\\\.)*\"|`[^`]*`")
	for _, f := range []string{"lib/parser/parser_test.go", "lib/parser/scanner_test.go"} {
		b, err := os.ReadFile(filepath.Join(repo, f))
		if err != nil {
			continue
		}
		for _, m := range re.FindAllSubmatch(b, -1) {
			var sb strings.Builder
			ok := true
			for _, l := range lit.FindAll(m[1], -1) {
				s, err := strconv.Unquote(string(l))
				if err != nil {
					ok = false
					break
				}
				sb.WriteString(s)
			}
			if s := sb.String(); ok && !seen[s] && utf8.ValidString(s) && len(s) < 2000 {
				seen[s] = true
				out = append(out, s)
			}
		}
	}
	sort.Strings(out)
	return out
}

// ---- Unicode assumptions of the model, checked exhaustively against the Go runtime ---------------
func c18UnicodeSelfCheck(kws []string) []string {
	var bad []string
	words := append([]string{}, kws...)
	words = append(words, "MIN", "MAX", "SUM", "AVG", "STDEV", "STDEVP", "VARP", "MEDIAN", "LISTAGG", "JSON_AGG", "ROW_NUMBER", "RANK", "DENSE_RANK", "CUME_DIST", "PERCENT_RANK", "NTILE", "FIRST_VALUE", "LAST_VALUE", "NTH_VALUE", "LAG", "LEAD")
	alpha := map[rune]bool{}
	for _, w := range words {
		for _, c := range w {
			alpha[c] = true
			if !(c == '_' || (c >= 'A' && c <= 'Z') || (c >= '0' && c <= '9')) {
				bad = append(bad, fmt.Sprintf("keyword %q is not made of A-Z, 0-9 and _ (the model's EqualFold covers ASCII words only)", w))
			}
		}
	}
	up := func(c rune) rune {
		if c >= 'a' && c <= 'z' {
			return c - 32
		}
		return c
	}
	for c := rune(0); c <= unicode.MaxRune; c++ {
		if c >= 0xD800 && c <= 0xDFFF {
			continue
		}
		// strings.ToUpper producing an ASCII rune
		u := []rune(strings.ToUpper(string(c)))
		var mu rune
		switch {
		case c >= 'a' && c <= 'z':
			mu = c - 32
		case c == 0x17F:
			mu = 'S'
		case c == 0x131:
			mu = 'I'
		default:
			mu = c
		}
		if len(u) != 1 || ((u[0] < 128 || mu < 128) && u[0] != mu) {
			bad = append(bad, fmt.Sprintf("strings.ToUpper(U+%04X) = %q, model says U+%04X", c, string(u), mu))
		}
		for k := range alpha {
			got := strings.EqualFold(string(k), string(c))
			want := k == c || (c < 128 && k >= 'A' && k <= 'Z' && up(c) == k) || (k == 'K' && c == 0x212A) || (k == 'S' && c == 0x17F)
			if got != want {
				bad = append(bad, fmt.Sprintf("strings.EqualFold(%q, U+%04X) = %v, model says %v", string(k), c, got, want))
			}
		}
		if len(bad) > 5 {
			break
		}
	}
	return bad
}

// ---- the run ---------------------------------------------------------------------------------------

type c18Input struct {
	Src     string
	Origin  string // random | soup | mutated | corpus-<kind> | test-suite | quoted
	Eval    bool   // corpus expression statement whose evaluation is compared across the round trip
	Ordered bool   // ... and its ORDER BY is total: the records are compared as a sequence
	Table   bool   // corpus query over the fixed tables wt / wt2: query.Select results are compared across the round trip
	Prep    int    // -1 any, 0/1 required
	Ansi    int
}

func runC18(seed int64, tier string, out string) {
	r := rand.New(rand.NewSource(seed))
	meta := newMeta("C18", seed)
	meta.Rule = "inputs: random code-point strings (ASCII, white space of every kind, quotation marks, backslashes, non-ASCII letters/digits, folding specials, private-use code points at the goyacc token numbers, invalid UTF-8), token soups (keywords in every case incl. Unicode folding, operators, quotation marks, comment openers, numbers around the int64/float64 limits, variables, placeholders, external commands glued at random), mutated valid queries, texts that END in every scanner state (prefixes of valid texts; texts followed by a lone CR, an opening quotation mark, a comment opener, a sigil, a half number ...), a grammar-based corpus (expressions, SELECT with every clause, DML, DDL, cursor/variable/flow statements) and the inputs of the pinned parser tests; every input is scanned by parser.Scanner (modes: prepared on/off x ANSI_QUOTES on/off) and the token stream is compared with Model.Lex.tokens; option.Escape*/Unescape*/Quote* on random strings are compared with Model.Escape; a termination pre-pass scans and parses every input in child processes under an address-space and time limit (texts ending inside every state of an external command included); parser.Parse runs on every input in all four modes (time bound, no panic, error position inside the input, print/re-parse/print identity, evaluation identity for corpus expressions; for generated and boundary-literal SELECTs over two fixed tables query.Select on the parsed tree and on the tree parsed from its printed text must give the same header and records; for other valid SELECTs the two trees must be structurally the same). distinct = distinct (mode, token-kind sequence, error classes) signatures of scanner cases with at least two tokens + distinct escape inputs + distinct printed statements re-parsed."
	w := &shardWriter{dir: out, prop: "C18", max: 1200, meta: meta, header: c18Header(),
		footer: func(ls []string) string {
			names := map[string]string{"scases": "[]", "ecases": "[]", "ccases": "[]", "fcases": "[]"}
			for _, l := range ls {
				n := strings.SplitN(l, ":", 2)[0]
				names[n] = n
			}
			return fmt.Sprintf("Definition M := Eval vm_compute in (check_scan CFG %s ++ check_escape %s ++ check_classes CFG %s ++ check_folds %s).\nPrint M.\n",
				names["scases"], names["ecases"], names["ccases"], names["fcases"])
		}}

	kws := c18Keywords()
	for _, b := range c18UnicodeSelfCheck(kws) {
		meta.Direct = append(meta.Direct, DirectViolation{Key: "model-assumption", What: "the Go runtime's Unicode behaviour differs from what Model/Lex.v assumes (harness/model error, not a violation of the property): " + b})
	}

	nRandom, nSoup, nMut, nCorpus, nEsc := 400, 750, 600, 800, 500
	if tier == "thorough" {
		nRandom, nSoup, nMut, nCorpus, nEsc = 4000, 8000, 6000, 7000, 6000
	}

	// ---- inputs -------------------------------------------------------------------------------------
	var inputs []c18Input
	corpus := c18Corpus(r, nCorpus)
	tests := c18TestInputs(c18RepoDir())
	if len(tests) == 0 {
		meta.Notes = append(meta.Notes, "the inputs of lib/parser/parser_test.go could not be extracted; the corpus is the generated one only")
	}
	if tier != "thorough" && len(tests) > 500 {
		r.Shuffle(len(tests), func(i, j int) { tests[i], tests[j] = tests[j], tests[i] })
		tests = tests[:500]
	}
	for _, t := range tests {
		inputs = append(inputs, c18Input{Src: t, Origin: "test-suite", Prep: -1, Ansi: -1})
	}
	inputs = append(inputs, corpus...)
	valid := append([]c18Input{}, inputs...)
	for i := 0; i < nRandom; i++ {
		s := c18RandString(r, 30)
		if i%25 == 0 { // byte strings that are not UTF-8: the scanner sees []rune(src)
			b := make([]byte, 1+r.Intn(12))
			r.Read(b)
			s = string(b) + s
		}
		inputs = append(inputs, c18Input{Src: s, Origin: "random", Prep: -1, Ansi: -1})
	}
	for i := 0; i < nSoup; i++ {
		inputs = append(inputs, c18Input{Src: c18Soup(r, kws), Origin: "soup", Prep: -1, Ansi: -1})
	}
	for i := 0; i < nMut; i++ {
		v := valid[r.Intn(len(valid))]
		inputs = append(inputs, c18Input{Src: c18Mutate(r, v.Src), Origin: "mutated", Prep: -1, Ansi: -1})
	}
	// what String() prints for literals: QuoteString / QuoteIdentifier of random texts, followed by a tail
	tails := []string{"", " ", ", 1", ")", " x", "\n", ";", ".a", "||'a'"}
	for i := 0; i < nEsc/2; i++ {
		s := c18RandString(r, 12)
		q := option.QuoteString(s)
		switch r.Intn(3) {
		case 1:
			q = option.QuoteIdentifier(s)
		case 2:
			q = "@%" + option.QuoteIdentifier(s)
		}
		inputs = append(inputs, c18Input{Src: q + tails[r.Intn(len(tails))], Origin: "quoted", Prep: -1, Ansi: -1})
	}

	// every place the text can END: prefixes of valid texts cut at random code points, all prefixes of a few
	// short ones, and texts followed by each character that makes the scanner look ahead (a lone CR, the
	// openers of strings, identifiers, comments, variables, ...), so that the end of input is met in every
	// scanner state
	enders := []string{"\r", "\r\n", "\n", " \r", "\t", "'", "\"", "`", "\\", "'\\", "@", "@@", "@%", "@#", "@%`", ":", "::", "a::", ":=", "-", "--", "--\r", "/", "/*", "/* *", "*", "$", "${", "?", "!", "<", "|", "1.", "1e", "1e+", "0x", ".", "a.", "a:", "http:", "\u3000", "\ufeff"}
	nEnd := 120
	if tier == "thorough" {
		nEnd = 1500
	}
	for i := 0; i < nEnd; i++ {
		v := []rune(valid[r.Intn(len(valid))].Src)
		if len(v) > 60 {
			v = v[:60]
		}
		switch {
		case i%10 == 0 && len(v) > 0: // all prefixes
			for k := 0; k <= len(v) && k <= 40; k++ {
				inputs = append(inputs, c18Input{Src: string(v[:k]), Origin: "ending", Prep: -1, Ansi: -1})
			}
		case i%2 == 0:
			inputs = append(inputs, c18Input{Src: string(v[:r.Intn(len(v)+1)]) + enders[r.Intn(len(enders))], Origin: "ending", Prep: -1, Ansi: -1})
		default:
			inputs = append(inputs, c18Input{Src: string(v) + enders[i/2%len(enders)], Origin: "ending", Prep: -1, Ansi: -1})
		}
	}
	for _, e := range enders {
		inputs = append(inputs, c18Input{Src: e, Origin: "ending", Prep: -1, Ansi: -1}, c18Input{Src: "SELECT 1" + e, Origin: "ending", Prep: -1, Ansi: -1})
	}

	// ... and inside an external command, in each state of its three loops (plain, quoted, ${...}): fixed
	// texts and every prefix of a few generated commands
	extEnds := []string{"$", "$echo ", "$echo ${", "$echo ${@a", "$echo ${@a \\", "$e 'x", "$e \"x", "$e `x", "$e \\", "$e 'x\\", "$e \"x\\", "$e ${'x", "$e ${\\",
		"$e ${a\\}", "$e ${a\\{", "$e ${a}", "$e ${a} ", "$e ${a} $", "$e ${a} ${", "$e ${{", "$e $", "$e $x", "$e '${", "$e '${'", "$e ${\r", "$e ${\r\n", "$e 'x\r", "$e\n${", "$e ;${", "$e ${;", "$e ${a;b"}
	for _, e := range extEnds {
		inputs = append(inputs, c18Input{Src: e, Origin: "ending", Prep: -1, Ansi: -1}, c18Input{Src: "SELECT 1; " + e, Origin: "ending", Prep: -1, Ansi: -1})
	}
	nExt := 4
	if tier == "thorough" {
		nExt = 40
	}
	for i := 0; i < nExt; i++ {
		v := []rune(c18ExtCommand(r))
		for k := 1; k <= len(v); k++ {
			inputs = append(inputs, c18Input{Src: string(v[:k]), Origin: "ending", Prep: -1, Ansi: -1})
		}
	}

	// ---- termination pre-pass in child processes -----------------------------------------------------------
	nonterminating := c18Guard(inputs, meta)

	// ---- (i) scanner correspondence + (iii) parser differential ------------------------------------------
	id := 0
	shardBytes := 0
	sig := map[string]bool{}
	diff := newC18Diff(meta)
	for idx, in := range inputs {
		meta.Distribution["input:"+in.Origin]++
		if nonterminating[idx] {
			continue // reported by the pre-pass; running it here would take the harness down
		}
		// modes: the corpus carries its own; every other input is scanned in two random modes or, every
		// third input, in all four
		var modes [][2]bool
		for _, p := range []bool{false, true} {
			for _, a := range []bool{false, true} {
				if (in.Prep == 0 && p) || (in.Prep == 1 && !p) || (in.Ansi == 0 && a) || (in.Ansi == 1 && !a) {
					continue
				}
				modes = append(modes, [2]bool{p, a})
			}
		}
		scanModes := modes
		if len(modes) == 4 && idx%3 != 0 {
			k := r.Intn(4)
			scanModes = [][2]bool{modes[k], modes[(k+1+r.Intn(3))%4]}
		}
		for _, m := range scanModes {
			toks, holders, pan := c18ScanAll(in.Src, m[0], m[1])
			c := map[string]interface{}{"kind": "scan", "origin": in.Origin, "src": in.Src, "prepared": m[0], "ansi_quotes": m[1], "holders": holders}
			if c18NeedsRunes(in.Src) {
				c["runes"] = fmt.Sprintf("%U", []rune(in.Src))
			}
			if len(toks) <= 12 || tier != "thorough" {
				c["observed"] = c18ShowToks(toks)
			} else {
				c["observed"] = fmt.Sprintf("%d tokens (re-run parser.Scanner on src)", len(toks))
			}
			if pan != "" {
				meta.Direct = append(meta.Direct, DirectViolation{Key: "scanner-panic", What: "parser.Scanner.Scan panicked: " + pan, Case: c})
				continue
			}
			var ts, kinds []string
			for _, t := range toks {
				ts = append(ts, t.coq())
				kinds = append(kinds, fmt.Sprintf("%d/%d", t.Kind, t.errClass))
			}
			term := fmt.Sprintf("mkSC %s %s %s %s %s %d", coqN(id), coqBool(m[0]), coqBool(m[1]), c18Pack(in.Src), coqList(ts), holders)
			if shardBytes += len(term); shardBytes > c18ShardBytes {
				w.flush()
				shardBytes = len(term)
			}
			w.add("scases:scase", term)
			meta.Cases[fmt.Sprint(id)] = c
			meta.Evaluations++
			meta.Distribution[fmt.Sprintf("scan:prepared=%v,ansi=%v", m[0], m[1])]++
			for _, t := range toks {
				if t.Err != "" {
					meta.Distribution["scan-error:"+[]string{"", "literal-not-terminated", "invalid-variable-symbol", "invalid-constant-syntax", "number"}[t.errClass]]++
				}
			}
			if len(toks) >= 2 {
				sig[fmt.Sprintf("%v%v|%s", m[0], m[1], strings.Join(kinds, ","))] = true
			}
			if len(meta.Samples) < 4 && id%1013 == 17 {
				meta.Samples = append(meta.Samples, c)
			}
			id++
		}
		for _, m := range modes {
			diff.run(in, m[0], m[1])
		}
	}

	// ---- (ii) escaping ---------------------------------------------------------------------------------
	escSeen := map[string]bool{}
	for i := 0; i < nEsc; i++ {
		s := c18RandString(r, 14)
		if i%7 == 0 { // texts that look like escaped output: the unescape side
			s = option.EscapeString(s) + c18Fragments[18+r.Intn(20)]
		}
		s = strings.ToValidUTF8(s, "\uFFFD")
		es, ei := option.EscapeString(s), option.EscapeIdentifier(s)
		w.add("ecases:ecase", fmt.Sprintf("mkEC %s %s %s %s %s %s %s %s %s %s %s %s", coqN(id), c18Pack(s), c18Pack(es), c18Pack(ei),
			c18Pack(option.QuoteString(s)), c18Pack(option.QuoteIdentifier(s)),
			c18Pack(option.UnescapeString(s, '\'')), c18Pack(option.UnescapeString(s, '"')),
			c18Pack(option.UnescapeIdentifier(s, '`')), c18Pack(option.UnescapeIdentifier(s, '"')),
			c18Pack(option.UnescapeString(es, '\'')), c18Pack(option.UnescapeIdentifier(ei, '`'))))
		c := map[string]interface{}{"kind": "escape", "s": s, "runes": fmt.Sprintf("%U", []rune(s)), "EscapeString": es, "EscapeIdentifier": ei,
			"UnescapeString(s,')": option.UnescapeString(s, '\''), "UnescapeIdentifier(s,`)": option.UnescapeIdentifier(s, '`')}
		meta.Cases[fmt.Sprint(id)] = c
		meta.Evaluations++
		meta.Distribution["escape"]++
		escSeen[s] = true
		if len(meta.Samples) < 5 && i == 11 {
			meta.Samples = append(meta.Samples, c)
		}
		id++
	}

	// ---- Unicode classes and folding as data ------------------------------------------------------------------
	pts := map[rune]bool{}
	for c := rune(0); c < 0x400; c++ {
		pts[c] = true
	}
	for _, t := range []*unicode.RangeTable{unicode.Letter, unicode.Digit, unicode.White_Space} {
		for _, x := range t.R16 {
			for _, c := range []rune{rune(x.Lo) - 1, rune(x.Lo), rune(x.Lo) + 1, rune(x.Lo) + rune(x.Stride), rune(x.Hi) - 1, rune(x.Hi), rune(x.Hi) + 1} {
				pts[c] = true
			}
		}
		for _, x := range t.R32 {
			for _, c := range []rune{rune(x.Lo) - 1, rune(x.Lo), rune(x.Lo) + 1, rune(x.Lo) + rune(x.Stride), rune(x.Hi) - 1, rune(x.Hi), rune(x.Hi) + 1} {
				pts[c] = true
			}
		}
	}
	for _, c := range c18Special {
		pts[c] = true
	}
	var ptl []int
	for c := range pts {
		if c >= 0 && c <= unicode.MaxRune && !(c >= 0xD800 && c <= 0xDFFF) {
			ptl = append(ptl, int(c))
		}
	}
	sort.Ints(ptl)
	if tier != "thorough" {
		// quick tier: Latin-1 and the specials always, a seeded third of the table boundaries
		var keep []int
		for _, c := range ptl {
			if c < 0x400 || r.Intn(3) == 0 {
				keep = append(keep, c)
			}
		}
		ptl = keep
	}
	for _, c := range ptl {
		w.add("ccases:ccase", fmt.Sprintf("mkCC %s %d %s %s %s", coqN(id), c, coqBool(unicode.IsSpace(rune(c))), coqBool(unicode.IsLetter(rune(c))), coqBool(unicode.IsDigit(rune(c)))))
		meta.Cases[fmt.Sprint(id)] = map[string]interface{}{"kind": "unicode-class", "rune": fmt.Sprintf("%U", c)}
		meta.Evaluations++
		meta.Distribution["unicode-class"]++
		id++
	}
	foldWords := []string{"SELECT", "ASC", "KEY", "RANK", "TRUE", "FALSE", "UNKNOWN", "IS", "JSON_AGG", "IN"}
	foldTexts := []string{"select", "Select", "\u017Felect", "SELECT", "a\u017Fc", "asc", "a\u017Fc", "\u212Aey", "key", "ran\u212A", "rank", "true", "tru\u0113", "fal\u017Fe", "FAL\u017FE", "un\u212Anown", "unknown", "\u0131s", "\u0130S", "is", "i\u017F", "json_agg", "j\u017Fon_agg", "\u0131n", "in", "IN ", "", "selec", "selectt"}
	for _, wd := range foldWords {
		for _, tx := range foldTexts {
			w.add("fcases:fcase", fmt.Sprintf("mkFC %s %s %s %s %s", coqN(id), c18Pack(wd), c18Pack(tx), coqBool(strings.EqualFold(wd, tx)), coqBool(strings.ToUpper(tx) == wd)))
			meta.Cases[fmt.Sprint(id)] = map[string]interface{}{"kind": "fold", "word": wd, "text": tx}
			meta.Evaluations++
			meta.Distribution["fold"]++
			id++
		}
	}
	w.flush()
	diff.finish()
	meta.Distinct = len(sig) + len(escSeen) + len(diff.printed)
	meta.write(out)
}
