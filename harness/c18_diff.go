package main

// C18, differential part (no model): parser.Parse totality, error positions, print / re-parse /
// print identity of every printable syntax-tree node, evaluation identity of corpus expressions.

import (
	"regexp"
	"context"
	"fmt"
	"math"
	"os"
	"reflect"
	"sort"
	"strings"
	"time"

	"github.com/mithrandie/csvq/lib/parser"
	"github.com/mithrandie/csvq/lib/query"
	"github.com/mithrandie/csvq/lib/value"
)

const c18ParseTimeout = 5 * time.Second

type c18ParseRes struct {
	stmts   []parser.Statement
	holders int
	err     error
	pan     string
	timeout bool
}

func c18Parse(src string, prep, ansi bool) c18ParseRes {
	ch := make(chan c18ParseRes, 1)
	go func() {
		var res c18ParseRes
		defer func() {
			if r := recover(); r != nil {
				res.pan = fmt.Sprint(r)
			}
			ch <- res
		}()
		res.stmts, res.holders, res.err = parser.Parse(src, "", prep, ansi)
	}()
	select {
	case res := <-ch:
		return res
	case <-time.After(c18ParseTimeout):
		return c18ParseRes{timeout: true}
	}
}

// c18Positions: every (line, char) the scanner can be at -- after 0, 1, 2, ... calls of next() (CR, LF
// and CR LF are one line break; char counts code points since the last line break).  A token is
// reported at the position of its first code point, the end of input at the position of the last
// code point consumed.
func c18Positions(src string) map[[2]int]bool {
	rs := []rune(src)
	pos := map[[2]int]bool{{1, 0}: true}
	line, char := 1, 0
	for i := 0; i < len(rs); i++ {
		switch {
		case rs[i] == '\r':
			if i+1 < len(rs) && rs[i+1] == '\n' {
				i++
			}
			line, char = line+1, 0
		case rs[i] == '\n':
			line, char = line+1, 0
		default:
			char++
		}
		pos[[2]int{line, char}] = true
	}
	return pos
}

var c18QE = reflect.TypeOf((*parser.QueryExpression)(nil)).Elem()

// c18Maximal collects the outermost printable nodes (QueryExpression implementations) below v.
// With strict, v itself is not a candidate.
func c18Maximal(v reflect.Value, strict bool, out *[]parser.QueryExpression) {
	if !v.IsValid() {
		return
	}
	switch v.Kind() {
	case reflect.Interface:
		if v.IsNil() {
			return
		}
		c18Maximal(v.Elem(), strict, out)
		return
	case reflect.Ptr:
		if v.IsNil() {
			return
		}
		if v.Type() == reflect.TypeOf((*parser.BaseExpr)(nil)) {
			return
		}
		c18Maximal(v.Elem(), strict, out)
		return
	case reflect.Slice:
		for i := 0; i < v.Len(); i++ {
			c18Maximal(v.Index(i), false, out)
		}
		return
	case reflect.Struct:
		if v.IsZero() { // an unused alternative (e.g. CursorDeclaration.Query / .Statement), not a node
			return
		}
		if !strict && v.Type().Implements(c18QE) && v.Type().PkgPath() == "github.com/mithrandie/csvq/lib/parser" && v.CanInterface() {
			if _, known := c18Context(v.Interface().(parser.QueryExpression)); known {
				*out = append(*out, v.Interface().(parser.QueryExpression))
				return
			}
		}
		if v.Type().PkgPath() != "github.com/mithrandie/csvq/lib/parser" {
			return
		}
		for i := 0; i < v.NumField(); i++ {
			if v.Type().Field(i).PkgPath == "" { // exported
				c18Maximal(v.Field(i), false, out)
			}
		}
	}
}

// c18Context: the SELECT statement, in printed form, in which the printed text s of a node of this
// type is a complete constituent.  ok=false: the type has no context of its own (its children are
// looked at instead).
func c18Context(n parser.QueryExpression) (func(s string) string, bool) {
	if p, ok := n.(parser.Parentheses); ok && p.Expr != nil {
		// '(' table ')' in a FROM clause and '(' value ')' share the node type
		switch p.Expr.(type) {
		case parser.Table, parser.Join:
			return func(s string) string { return "SELECT 1 FROM " + s }, true
		}
	}
	if t, ok := n.(parser.Table); ok && !t.Lateral.IsEmpty() {
		// LATERAL is only allowed after another table
		return func(s string) string { return "SELECT 1 FROM t, " + s }, true
	}
	switch n.(type) {
	case parser.SelectQuery, parser.SelectEntity, parser.SelectSet, parser.SelectClause:
		return func(s string) string { return s }, true
	case parser.PrimitiveType, parser.Placeholder, parser.Identifier, parser.FieldReference, parser.ColumnNumber, parser.Parentheses,
		parser.Subquery, parser.Comparison, parser.Is, parser.Between, parser.In, parser.All, parser.Any, parser.Like, parser.Exists,
		parser.Arithmetic, parser.UnaryArithmetic, parser.Logic, parser.UnaryLogic, parser.Concat, parser.Function, parser.AggregateFunction,
		parser.ListFunction, parser.AnalyticFunction, parser.CaseExpr, parser.Variable, parser.VariableSubstitution, parser.EnvironmentVariable,
		parser.RuntimeInformation, parser.Flag, parser.Constant, parser.CursorStatus, parser.CursorAttrebute, parser.AllColumns, parser.Field:
		return func(s string) string { return "SELECT " + s }, true
	case parser.Table, parser.Join, parser.TableFunction, parser.FormatSpecifiedFunction, parser.Url, parser.Stdin, parser.Dual:
		return func(s string) string { return "SELECT 1 FROM " + s }, true
	case parser.RowValue, parser.ValueList, parser.JsonQuery:
		return func(s string) string { return "SELECT 1 IN " + s }, true
	case parser.RowValueList:
		return func(s string) string { return "SELECT (1, 1) IN " + s }, true
	case parser.FromClause, parser.IntoClause:
		return func(s string) string { return "SELECT 1 " + s }, true
	case parser.WhereClause, parser.GroupByClause, parser.HavingClause, parser.OrderByClause, parser.LimitClause, parser.OffsetClause:
		return func(s string) string { return strings.TrimSpace("SELECT 1 FROM t " + s) }, true
	case parser.OrderItem:
		return func(s string) string { return "SELECT 1 FROM t ORDER BY " + s }, true
	case parser.WithClause:
		return func(s string) string { return s + " SELECT 1" }, true
	case parser.InlineTable:
		return func(s string) string { return "WITH " + s + " SELECT 1" }, true
	}
	return nil, false
}

func c18TypeName(n interface{}) string { return reflect.TypeOf(n).Name() }

type c18Diff struct {
	meta    *Meta
	tx      *query.Transaction
	printed map[string]bool
	perKey  map[string]int
	okMemo  map[string]string // printed context text + mode -> failure kind ("" = round trip fine)
	table   *c18TableEval
}

func newC18Diff(meta *Meta) *c18Diff {
	return &c18Diff{meta: meta, tx: newTx(""), printed: map[string]bool{}, perKey: map[string]int{}, okMemo: map[string]string{}}
}

func (d *c18Diff) violation(key, what string, c map[string]interface{}) {
	d.meta.Distribution["violation:"+key]++
	d.perKey[key]++
	if d.perKey[key] <= 4 {
		d.meta.Direct = append(d.meta.Direct, DirectViolation{Key: key, What: what, Case: c})
	}
}

func c18SafeString(n parser.QueryExpression) (s string, pan string) {
	defer func() {
		if r := recover(); r != nil {
			pan = fmt.Sprint(r)
		}
	}()
	return n.String(), ""
}

// roundTrip: "" when print(parse(ctx(print n))) == ctx(print n); otherwise the kind of failure
func (d *c18Diff) roundTrip(n parser.QueryExpression, prep, ansi bool) (kind, text, detail string) {
	ctx, _ := c18Context(n)
	s, pan := c18SafeString(n)
	if pan != "" {
		return "print-panic", "", pan
	}
	t1 := ctx(s)
	mk := fmt.Sprintf("%v%v|%s", prep, ansi, t1)
	if k, ok := d.okMemo[mk]; ok {
		return k, t1, ""
	}
	res := c18Parse(t1, prep, ansi)
	kind = ""
	switch {
	case res.timeout:
		kind, detail = "print-reparse", "timeout"
	case res.pan != "":
		kind, detail = "print-reparse", "panic: "+res.pan
	case res.err != nil:
		kind, detail = "print-reparse", res.err.Error()
	case len(res.stmts) != 1:
		kind, detail = "print-reparse", fmt.Sprintf("%d statements", len(res.stmts))
	default:
		q, ok := res.stmts[0].(parser.QueryExpression)
		if !ok {
			kind, detail = "print-reparse", fmt.Sprintf("re-parsed as %T", res.stmts[0])
			break
		}
		t2, pan := c18SafeString(q)
		if pan != "" {
			kind, detail = "print-panic", pan
		} else if t2 != t1 {
			kind, detail = "print-differs", t2
		}
	}
	d.okMemo[mk] = kind
	d.printed[t1] = true
	return kind, t1, detail
}

// culprit: the innermost node below n whose own round trip fails in the same way
func (d *c18Diff) culprit(n parser.QueryExpression, prep, ansi bool) (parser.QueryExpression, string, string, string) {
	kind, text, detail := d.roundTrip(n, prep, ansi)
	var kids []parser.QueryExpression
	c18Maximal(reflect.ValueOf(n), true, &kids)
	for _, k := range kids {
		if kk, _, _ := d.roundTrip(k, prep, ansi); kk != "" {
			return d.culprit(k, prep, ansi)
		}
	}
	return n, kind, text, detail
}

func (d *c18Diff) run(in c18Input, prep, ansi bool) {
	meta := d.meta
	res := c18Parse(in.Src, prep, ansi)
	meta.Evaluations++
	c := map[string]interface{}{"kind": "parse", "origin": in.Origin, "src": in.Src, "prepared": prep, "ansi_quotes": ansi}
	if c18NeedsRunes(in.Src) {
		c["runes"] = fmt.Sprintf("%U", []rune(in.Src))
	}
	switch {
	case res.timeout:
		meta.Distribution["parse:timeout"]++
		d.violation("parse-timeout", fmt.Sprintf("parser.Parse did not return within %v", c18ParseTimeout), c)
		return
	case res.pan != "":
		meta.Distribution["parse:panic"]++
		c["panic"] = res.pan
		d.violation("parse-panic", "parser.Parse panicked: "+res.pan, c)
		return
	case res.err != nil:
		meta.Distribution["parse:syntax-error"]++
		se, ok := res.err.(*parser.SyntaxError)
		if !ok {
			c["error"] = res.err.Error()
			d.violation("parse-error-type", fmt.Sprintf("parser.Parse returned an error that is not a *SyntaxError: %T", res.err), c)
			return
		}
		if !c18Positions(in.Src)[[2]int{se.Line, se.Char}] {
			c["error"], c["line"], c["char"] = se.Message, se.Line, se.Char
			d.violation("error-position-outside", fmt.Sprintf("SyntaxError reported at line %d, char %d, which is not a position of the input", se.Line, se.Char), c)
		}
		if strings.HasPrefix(in.Origin, "corpus") {
			meta.Distribution["corpus-unparsable:"+in.Origin]++
			if os.Getenv("C18_DEBUG") != "" {
				fmt.Fprintf(os.Stderr, "UNPARSABLE %s prep=%v ansi=%v L%d C%d %s\n   %q\n", in.Origin, prep, ansi, se.Line, se.Char, se.Message, in.Src)
			}
			if len(meta.Notes) < 12 {
				meta.Notes = append(meta.Notes, fmt.Sprintf("generated %s program does not parse (prepared=%v ansi=%v): %q: %s", in.Origin, prep, ansi, in.Src, se.Message))
			}
		}
		return
	}
	meta.Distribution["parse:ok"]++
	// a lone code point whose number is a goyacc token number is handed to the parser as that token
	// (Scan returns token = ch); what the parser then builds prints to text that means something else
	tokenNumberRune := false
	if toks, _, pan := c18ScanAll(in.Src, prep, ansi); pan == "" {
		for _, t := range toks {
			if rs := []rune(t.Literal); len(rs) == 1 && int(rs[0]) == t.Kind && t.Kind >= parser.IDENTIFIER && t.Kind <= parser.SUBSTITUTION_OP+2 {
				tokenNumberRune = true
			}
		}
	}
	if in.Origin != "" {
		meta.Distribution["parse-ok:"+in.Origin]++
	}
	// every printable node prints to a text that parses to a tree that prints the same
	var nodes []parser.QueryExpression
	for _, st := range res.stmts {
		c18Maximal(reflect.ValueOf(st), false, &nodes)
	}
	for _, n := range nodes {
		kind, _, _ := d.roundTrip(n, prep, ansi)
		meta.Distribution["roundtrip:"+c18TypeName(n)]++
		if kind == "" {
			continue
		}
		cn, ck, ctext, cdetail := d.culprit(n, prep, ansi)
		key := ck + ":" + c18TypeName(cn)
		if tokenNumberRune {
			key = "print-reparse:token-number-code-point"
		}
		// the four known print-reparse findings are identified by what is wrong with the printed text, not by the
		// node type alone: any other failure on a node of these types is reported under its own key
		switch key {
		case "print-reparse:AnalyticFunction":
			if !strings.Contains(ctext, "IGNORE NULLS)") {
				if c18QuotedCallee.MatchString(in.Src) {
					key = "print-reparse:Function" // the quoted name of a user-defined function printed without its quotation marks
				} else {
					key += ":other"
				}
			}
		case "print-reparse:Placeholder":
			if !strings.Contains(ctext, "?{") {
				key += ":other"
			}
		case "print-reparse:Function", "print-reparse:AggregateFunction":
			if !c18QuotedCallee.MatchString(in.Src) {
				key += ":other"
			}
		}
		cc := map[string]interface{}{"kind": "round-trip", "origin": in.Origin, "src": in.Src, "prepared": prep, "ansi_quotes": ansi, "node": c18TypeName(cn), "printed": ctext, "detail": cdetail, "tags": []string{key}}
		d.violation(key, fmt.Sprintf("%s: String() of a %s node gives %q, which %s (%s)", key, c18TypeName(cn), ctext,
			map[string]string{"print-reparse": "does not parse", "print-differs": "parses to a tree that prints differently", "print-panic": "panics"}[ck], cdetail), cc)
	}
	// structural identity of SELECT statements that cannot be evaluated here (search heuristic: the tree
	// parsed from the printed text must be the tree that was printed, up to positions and spellings)
	if !in.Eval && !in.Table && (strings.HasPrefix(in.Origin, "corpus") || in.Origin == "test-suite") {
		for _, st := range res.stmts {
			d.treeIdentity(in, st, prep, ansi)
		}
	}
	// evaluation identity for the expression corpus
	if in.Eval && len(res.stmts) == 1 {
		d.evalIdentity(in, res.stmts[0], prep, ansi)
	}
	// ... and for queries over the fixed tables
	if in.Table && len(res.stmts) == 1 {
		d.tableIdentity(in, res.stmts[0], prep, ansi)
	}
}

// a function called through a quoted identifier: `user fn`(  or, with ANSI quotes, "user fn"(
var c18QuotedCallee = regexp.MustCompile("[`\"]\\s*\\(")

func c18Fields(st parser.Statement) []parser.QueryExpression {
	sq, ok := st.(parser.SelectQuery)
	if !ok {
		return nil
	}
	se, ok := sq.SelectEntity.(parser.SelectEntity)
	if !ok || se.FromClause != nil {
		return nil
	}
	sc, ok := se.SelectClause.(parser.SelectClause)
	if !ok {
		return nil
	}
	var out []parser.QueryExpression
	for _, f := range sc.Fields {
		if fd, ok := f.(parser.Field); ok {
			out = append(out, fd.Object)
		}
	}
	return out
}

func (d *c18Diff) eval(e parser.QueryExpression) (s string) {
	defer func() {
		if r := recover(); r != nil {
			s = "panic"
		}
	}()
	scope := query.NewReferenceScope(d.tx)
	_ = scope.DeclareVariableDirectly(parser.Variable{Name: "a"}, value.NewInteger(1))
	_ = scope.DeclareVariableDirectly(parser.Variable{Name: "b"}, value.NewString("x"))
	_ = scope.DeclareVariableDirectly(parser.Variable{Name: "c"}, value.NewNull())
	_ = scope.DeclareVariableDirectly(parser.Variable{Name: "d"}, value.NewFloat(2.5))
	p, err := query.Evaluate(context.Background(), scope, e)
	if err != nil {
		return "error"
	}
	switch v := p.(type) {
	case *value.Float:
		return fmt.Sprintf("Float:%016x", math.Float64bits(v.Raw()))
	case *value.Datetime:
		return "Datetime:" + v.Raw().Format(time.RFC3339Nano)
	case *value.String:
		return "String:" + v.Raw()
	}
	return fmt.Sprintf("%T:%s", p, p.String())
}

func (d *c18Diff) evalIdentity(in c18Input, st parser.Statement, prep, ansi bool) {
	f1 := c18Fields(st)
	if f1 == nil {
		return
	}
	text, pan := c18SafeString(st.(parser.QueryExpression))
	if pan != "" {
		return
	}
	res := c18Parse(text, prep, ansi)
	if res.err != nil || res.pan != "" || res.timeout || len(res.stmts) != 1 {
		return // reported by the round-trip check
	}
	f2 := c18Fields(res.stmts[0])
	if len(f1) != len(f2) {
		d.violation("eval-differs:field-count", "the printed SELECT has a different number of fields", map[string]interface{}{"src": in.Src, "printed": text})
		return
	}
	for i := range f1 {
		v1, v2 := d.eval(f1[i]), d.eval(f2[i])
		d.meta.Evaluations++
		d.meta.Distribution["eval:"+strings.SplitN(v1, ":", 2)[0]]++
		if v1 != v2 {
			key := "eval-differs:" + c18TypeName(f1[i])
			d.violation(key, fmt.Sprintf("%s: %q evaluates to %s, its printed form %q to %s", key, in.Src, v1, text, v2),
				map[string]interface{}{"kind": "eval", "src": in.Src, "printed": text, "field": i, "before": v1, "after": v2, "prepared": prep, "ansi_quotes": ansi, "tags": []string{key}})
		}
	}
}

func (d *c18Diff) treeIdentity(in c18Input, st parser.Statement, prep, ansi bool) {
	sq, ok := st.(parser.SelectQuery)
	if !ok {
		return
	}
	text, pan := c18SafeString(sq)
	if pan != "" {
		return
	}
	mk := fmt.Sprintf("T%v%v|%s", prep, ansi, text)
	if _, done := d.okMemo[mk]; done {
		return
	}
	d.okMemo[mk] = ""
	res := c18Parse(text, prep, ansi)
	if res.err != nil || res.pan != "" || res.timeout || len(res.stmts) != 1 {
		return // reported by the round-trip check
	}
	sq2, ok := res.stmts[0].(parser.SelectQuery)
	if !ok {
		return
	}
	if t2, _ := c18SafeString(sq2); t2 != text {
		return // reported by the round-trip check
	}
	d.meta.Distribution["tree-identity:checked"]++
	where := c18TreeDiff(reflect.ValueOf(sq), reflect.ValueOf(sq2), "SelectQuery")
	if where == "" {
		return
	}
	key := "tree-differs:" + where
	if strings.HasPrefix(where, "Function->") {
		// the known finding print-reparse:Function seen from the other side: a function called through a
		// quoted identifier whose name, printed bare and upper-cased, is an aggregate / analytic function
		key = "print-reparse:Function"
	}
	d.violation(key, fmt.Sprintf("%s: %q prints as %q, which parses to a different query although it prints identically (the syntax trees part in a %s node); the query cannot be evaluated by the harness", key, in.Src, text, where),
		map[string]interface{}{"kind": "tree-identity", "origin": in.Origin, "src": in.Src, "printed": text, "node": where, "prepared": prep, "ansi_quotes": ansi, "tags": []string{key}})
}

// tableIdentity: query.Select on the parsed query and on the query parsed from its printed text
func (d *c18Diff) tableIdentity(in c18Input, st parser.Statement, prep, ansi bool) {
	sq, ok := st.(parser.SelectQuery)
	if !ok {
		return
	}
	text, pan := c18SafeString(sq)
	if pan != "" {
		return
	}
	res := c18Parse(text, prep, ansi)
	if res.err != nil || res.pan != "" || res.timeout || len(res.stmts) != 1 {
		return // reported by the round-trip check
	}
	sq2, ok := res.stmts[0].(parser.SelectQuery)
	if !ok {
		return
	}
	if d.table == nil {
		d.table = newC18TableEval()
	}
	// csvq leaves the order of the records open where the query does (no ORDER BY, ties): only queries
	// whose ORDER BY is total are compared as sequences, the others as header + multiset of records
	canon := func(r string) string {
		if in.Ordered {
			return r
		}
		return c18SortLines(r)
	}
	r1, r2 := canon(d.table.run(sq)), canon(d.table.run(sq2))
	d.meta.Evaluations++
	switch {
	case r1 == "error" || r1 == "panic" || r1 == "timeout":
		d.meta.Distribution["table-eval:"+r1]++
		if os.Getenv("C18_DEBUG") != "" {
			fmt.Fprintf(os.Stderr, "TABLE-%s %q\n", r1, in.Src)
		}
	default:
		d.meta.Distribution[fmt.Sprintf("table-eval:rows=%d", strings.Count(r1, "\n"))]++
	}
	if r1 == r2 {
		return
	}
	// a query whose own result changes from run to run (ties inside an OVER clause) is not compared
	stable := true
	for i := 0; i < 3 && stable; i++ {
		stable = canon(d.table.run(sq)) == r1 && canon(d.table.run(sq2)) == r2
	}
	if !stable {
		d.meta.Distribution["table-eval:unstable-not-compared"]++
		if os.Getenv("C18_DEBUG") != "" {
			fmt.Fprintf(os.Stderr, "TABLE-UNSTABLE %q\n", in.Src)
		}
		return
	}
	where := c18TreeDiff(reflect.ValueOf(sq), reflect.ValueOf(sq2), "SelectQuery")
	if where == "" {
		where = "SelectQuery"
	}
	key := "eval-differs:" + where
	d.violation(key, fmt.Sprintf("%s: the query %q and its printed form %q give different results (the syntax trees part in a %s node)", key, in.Src, text, where),
		map[string]interface{}{"kind": "table-eval", "src": in.Src, "printed": text, "result": r1, "result_of_printed": r2, "node": where, "prepared": prep, "ansi_quotes": ansi, "tags": []string{key},
			"tables": "wt(id,g,n,f,s) 8 rows, wt2(id,v) 6 rows: harness/c18_table.go"})
}

// c18SortLines: the header line, then the record lines sorted
func c18SortLines(r string) string {
	ls := strings.Split(r, "\n")
	if len(ls) > 2 {
		sort.Strings(ls[1:])
	}
	return strings.Join(ls, "\n")
}

func (d *c18Diff) finish() {
	if d.table != nil {
		d.table.Close()
	}
	var ok []string
	for mk, k := range d.okMemo {
		t := mk[strings.Index(mk, "|")+1:]
		if k == "" && len(t) > 40 && len(t) < 200 {
			ok = append(ok, t)
		}
	}
	sort.Strings(ok)
	for i := 0; i < len(ok) && i < 2 && len(d.meta.Samples) < 6; i++ {
		d.meta.Samples = append(d.meta.Samples, map[string]interface{}{"kind": "round-trip", "printed": ok[len(ok)/2+i], "result": "parses and prints identically"})
	}
}
