package main

// Grammar-based corpus of valid csvq programs for C18 (follows lib/parser/parser.y):
// expressions, SELECT with every clause, DML/DDL, variable / cursor / flow-control statements.

import (
	"fmt"
	"math/rand"
	"strings"
)

type c18Gen struct {
	r       *rand.Rand
	prep    bool // placeholders allowed (the text must be parsed with forPrepared)
	ansi    bool // "x" is an identifier (the text must be parsed with ansiQuotes)
	safe    bool // evaluation-safe expressions only: no tables, sub-queries, cursors, aggregates
	nofield bool // field references are replaced by variables (inside a substantial_value)
	tbl     bool // field references are columns of the fixed tables wt / wt2 (queries that are evaluated)
	used    struct{ prep, dq bool }
}

func (g *c18Gen) pick(xs ...string) string { return xs[g.r.Intn(len(xs))] }
func (g *c18Gen) p(n int) bool             { return g.r.Intn(n) == 0 }

var c18Names = []string{"a", "b", "c1", "col", "t", "t1", "tbl", "x", "y_2", "id", "name", "ties", "nulls", "rows", "csv", "json", "jsonl", "fixed", "ltsv", "あ", "café", "_u", "Abc"}
var c18QuotedNames = []string{"a b", "select", "it's", "back`tick", "q\"q", "a\\b", "tab\tx", "", "あ い", "1st", "x.csv", "dir/file.csv", "a\nb"}

func (g *c18Gen) quoteIdent(s string) string {
	if g.ansi && g.p(2) {
		g.used.dq = true
		return "\"" + strings.NewReplacer("\\", "\\\\", "\"", "\"\"").Replace(s) + "\""
	}
	if g.p(2) {
		return "`" + strings.NewReplacer("\\", "\\\\", "`", "``").Replace(s) + "`"
	}
	return "`" + strings.NewReplacer("\\", "\\\\", "`", "\\`").Replace(s) + "`"
}

func (g *c18Gen) ident() string {
	if g.p(5) {
		s := c18QuotedNames[g.r.Intn(len(c18QuotedNames))]
		if s == "" {
			s = "e"
		}
		return g.quoteIdent(s)
	}
	return c18Names[g.r.Intn(len(c18Names))]
}

var c18StrBodies = []string{"", "abc", "a b", "it's", "say \"hi\"", "back\\slash", "tab\there", "line\nbreak", "cr\rlf\r\nx", "あい", "café", "%_", "a,b", "2012-02-03", "2012-02-03 09:18:15", "1", "-1.5", "true", "null", "{\"k\":1}", "semi;colon", "--no", "/*no*/", "bell\a", "`", "''", "\\'", "\\", "@a", "?", ":x"}

func (g *c18Gen) str() string {
	s := c18StrBodies[g.r.Intn(len(c18StrBodies))]
	switch g.r.Intn(4) {
	case 0: // doubled quotation marks
		return "'" + strings.NewReplacer("\\", "\\\\", "'", "''").Replace(s) + "'"
	case 1: // double-quoted string (only without ANSI_QUOTES)
		if !g.ansi {
			g.used.dq = true
			return "\"" + strings.NewReplacer("\\", "\\\\", "\"", "\\\"").Replace(s) + "\""
		}
		fallthrough
	case 2: // backslash escapes for the control characters
		return "'" + strings.NewReplacer("\\", "\\\\", "'", "\\'", "\n", "\\n", "\t", "\\t", "\r", "\\r", "\a", "\\a").Replace(s) + "'"
	default:
		return "'" + strings.NewReplacer("\\", "\\\\", "'", "\\'").Replace(s) + "'"
	}
}

func (g *c18Gen) num() string {
	switch g.r.Intn(9) {
	case 0:
		return fmt.Sprint(g.r.Intn(10))
	case 1:
		return fmt.Sprint(g.r.Intn(100000))
	case 2:
		return g.pick("9223372036854775807", "9223372036854775808", "007", "0", "18446744073709551616")
	case 3:
		return fmt.Sprintf("%d.%d", g.r.Intn(100), g.r.Intn(1000))
	case 4:
		return g.pick("1e5", "1E5", "1.5e-3", "2.", "2.e3", "1e+10", "0.1", "1e308", "4.9e-324", "1e-400", "1.7976931348623157e308", "0.30000000000000004")
	default:
		return fmt.Sprint(g.r.Intn(20))
	}
}

func (g *c18Gen) prim() string {
	switch g.r.Intn(8) {
	case 0, 1, 2:
		return g.num()
	case 3, 4:
		return g.str()
	case 5:
		return g.pick("TRUE", "FALSE", "UNKNOWN", "true", "False", "unknown")
	case 6:
		return g.pick("NULL", "null")
	default:
		return g.num()
	}
}

func (g *c18Gen) variable() string { return "@" + g.pick("a", "b", "c", "d", "var1", "_v", "あ") }

// sub: a substantial_value (the grammar excludes a bare or parenthesised field reference there)
func (g *c18Gen) sub(d int) string {
	old := g.nofield
	g.nofield = true
	v := g.value(d)
	g.nofield = old
	return v
}

// plainIdent: a name that is not one of the keywords the grammar also accepts as identifiers
func (g *c18Gen) plainIdent() string {
	for {
		switch s := g.ident(); strings.ToLower(s) {
		case "ties", "nulls", "rows", "csv", "json", "jsonl", "fixed", "ltsv":
		default:
			return s
		}
	}
}

func (g *c18Gen) fieldRef() string {
	if g.nofield {
		return g.variable()
	}
	if g.tbl {
		c := g.pick("id", "g", "n", "n", "f", "s", "ID", "`n`")
		if g.p(4) {
			return "wt." + c
		}
		return c
	}
	switch g.r.Intn(8) {
	case 0:
		return g.ident() + "." + g.ident()
	case 1:
		return g.ident() + "." + fmt.Sprint(1+g.r.Intn(5))
	case 2:
		return g.pick("stdin", "STDIN") + "." + g.ident()
	default:
		return g.ident()
	}
}

var c18SafeFuncs = []string{"COALESCE", "UPPER", "LOWER", "TRIM", "LEN", "ABS", "CEIL", "FLOOR", "NULLIF", "IFNULL", "CONCAT", "BYTE_LEN", "LTRIM", "RTRIM", "ROUND", "STRING", "INTEGER", "FLOAT", "BOOLEAN", "TERNARY", "IS_NAN", "REVERSE", "BASE64_ENCODE", "HEX_ENCODE"}

func (g *c18Gen) args(d, min, max int) string {
	n := min + g.r.Intn(max-min+1)
	var a []string
	for i := 0; i < n; i++ {
		a = append(a, g.value(d-1))
	}
	return strings.Join(a, ", ")
}

func (g *c18Gen) function(d int) string {
	switch g.r.Intn(9) {
	case 0:
		return "SUBSTRING(" + g.value(d-1) + " FROM " + g.pick("1", "2", "-2") + g.pick("", " FOR 2") + ")"
	case 1:
		return g.pick("SUBSTRING", "substring", "SUBSTR") + "(" + g.value(d-1) + ", 1" + g.pick("", ", 3") + ")"
	case 2:
		return g.pick("IF", "if") + "(" + g.value(d-1) + ", " + g.value(d-1) + ", " + g.value(d-1) + ")"
	case 3:
		return g.pick("REPLACE", "replace") + "(" + g.value(d-1) + ", 'a', 'b')"
	case 4:
		if g.safe {
			return "(NOW() IS NOT NULL)"
		}
		return g.pick("JSON_OBJECT()", "JSON_OBJECT(a, b AS c)", "json_object(t.*)", "JSON_OBJECT(*)", "userfn()", "userfn("+g.args(d, 1, 2)+")", "`user fn`(1)", "`userfn`(1, 2)", "`sum`(1)")
	default:
		f := c18SafeFuncs[g.r.Intn(len(c18SafeFuncs))]
		if g.p(3) {
			f = strings.ToLower(f)
		}
		switch strings.ToUpper(f) {
		case "COALESCE", "CONCAT":
			return f + "(" + g.args(d, 1, 3) + ")"
		case "NULLIF", "IFNULL":
			return f + "(" + g.args(d, 2, 2) + ")"
		default:
			return f + "(" + g.args(d, 1, 1) + ")"
		}
	}
}

func (g *c18Gen) orderBy(d int) string {
	var items []string
	for i := 0; i <= g.r.Intn(2); i++ {
		items = append(items, g.value(d-1)+g.pick("", " ASC", " DESC", " asc")+g.pick("", "", " NULLS FIRST", " NULLS LAST"))
	}
	if g.tbl {
		// evaluated queries: a total order (id is unique), so that the result does not depend on how csvq
		// happens to arrange ties
		items = append(items, g.pick("id", "id DESC", "wt.id"))
	}
	return "ORDER BY " + strings.Join(items, ", ")
}

func (g *c18Gen) aggregate(d int) string {
	switch g.r.Intn(8) {
	case 0:
		return "COUNT(" + g.pick("", "DISTINCT ") + g.pick("*", g.value(d-1)) + ")"
	case 1:
		return g.pick("LISTAGG", "listagg", "JSON_AGG") + "(" + g.pick("", "DISTINCT ") + g.fieldRef() + g.pick("", ", ','") + ")" + g.pick("", " WITHIN GROUP ("+g.orderBy(d)+")")
	case 2:
		return "VAR(" + g.pick("", "DISTINCT ") + g.fieldRef() + ")"
	case 3:
		return g.userAggr() + "(" + g.pick("", "DISTINCT ") + g.fieldRef() + ")"
	default:
		return g.pick("MIN", "MAX", "SUM", "AVG", "STDEV", "STDEVP", "VARP", "MEDIAN", "sum", "Max") + "(" + g.pick("", "", "DISTINCT ") + g.value(d-1) + ")"
	}
}

// userAggr: a user-defined aggregate name (quoted or not); an ordinary one where the query is evaluated
func (g *c18Gen) userAggr() string {
	if g.tbl {
		return g.pick("SUM", "COUNT", "AVG")
	}
	return g.pick("useraggr", "useraggr", "`user aggr`")
}

func (g *c18Gen) analytic(d int) string {
	part := g.pick("", "PARTITION BY "+g.fieldRef()+" ", "PARTITION BY "+g.fieldRef()+", "+g.fieldRef()+" ")
	ord := g.pick("", g.orderBy(d))
	if g.tbl {
		ord = g.orderBy(d)
	}
	frame := g.pick("", "", " ROWS UNBOUNDED PRECEDING", " ROWS 2 PRECEDING", " ROWS CURRENT ROW", " ROWS BETWEEN 1 PRECEDING AND 1 FOLLOWING", " ROWS BETWEEN UNBOUNDED PRECEDING AND CURRENT ROW", " ROWS BETWEEN CURRENT ROW AND UNBOUNDED FOLLOWING", g.frame(), g.frame(), g.frame())
	over := func(withFrame bool) string {
		o := ord
		if withFrame && frame != "" {
			o = g.orderBy(d) + frame
		}
		return " OVER (" + strings.TrimSpace(part+o) + ")"
	}
	switch g.r.Intn(7) {
	case 0:
		return g.pick("ROW_NUMBER", "RANK", "DENSE_RANK", "CUME_DIST", "PERCENT_RANK", "rank") + "()" + over(false)
	case 1:
		return "NTILE(" + fmt.Sprint(1+g.r.Intn(4)) + ")" + over(false)
	case 2:
		return g.pick("FIRST_VALUE", "LAST_VALUE", "first_value") + "(" + g.fieldRef() + ")" + g.pick("", " IGNORE NULLS") + over(true)
	case 3:
		return "NTH_VALUE(" + g.fieldRef() + ", 2)" + g.pick("", " IGNORE NULLS") + over(true)
	case 4:
		return g.pick("LAG", "LEAD", "lag") + "(" + g.fieldRef() + g.pick("", ", 1", ", 1, 0") + ")" + g.pick("", " IGNORE NULLS") + over(false)
	case 5:
		return g.pick("COUNT(*)", "COUNT(DISTINCT "+g.fieldRef()+")", "SUM("+g.fieldRef()+")", "AVG(DISTINCT "+g.fieldRef()+")", g.pick("MIN", "MAX", "MEDIAN")+"("+g.fieldRef()+")", g.userAggr()+"("+g.fieldRef()+")", "VAR("+g.fieldRef()+")") + over(true)
	default:
		return g.pick("LISTAGG("+g.fieldRef()+g.pick("", ", ';'")+")", "JSON_AGG("+g.fieldRef()+")") + over(false)
	}
}

// frame: a windowing clause of every shape the grammar has, with boundary offsets (0, 1, large)
func (g *c18Gen) frame() string {
	off := func() string { return g.pick("0", "0", "1", "2", "3", "1000000", "9223372036854775807") }
	if g.tbl {
		off = func() string { return g.pick("0", "0", "1", "2", "3", "1000000") }
	}
	if g.p(3) {
		return " ROWS " + g.pick("UNBOUNDED PRECEDING", off()+" PRECEDING", "CURRENT ROW")
	}
	lo := g.pick("UNBOUNDED PRECEDING", off()+" PRECEDING", off()+" FOLLOWING", "CURRENT ROW")
	hi := g.pick("UNBOUNDED FOLLOWING", off()+" PRECEDING", off()+" FOLLOWING", "CURRENT ROW")
	return " ROWS BETWEEN " + lo + " AND " + hi
}

func (g *c18Gen) caseExpr(d int) string {
	var b strings.Builder
	b.WriteString("CASE")
	if g.p(2) {
		b.WriteString(" " + g.arith(d-1))
	}
	for i := 0; i <= g.r.Intn(2); i++ {
		b.WriteString(" WHEN " + g.value(d-1) + " THEN " + g.value(d-1))
	}
	if g.p(2) {
		b.WriteString(" ELSE " + g.value(d-1))
	}
	b.WriteString(" END")
	return b.String()
}

func (g *c18Gen) subquery(d int) string { return "(" + g.selectQuery(d-1) + ")" }

// atom: something that needs no parentheses as an operand
func (g *c18Gen) atom(d int) string {
	if g.tbl && g.p(3) {
		return g.fieldRef()
	}
	if d <= 0 {
		if g.safe || g.p(2) {
			return g.prim()
		}
		return g.fieldRef()
	}
	n := 16
	if g.safe {
		n = 9
	}
	switch g.r.Intn(n) {
	case 0, 1:
		return g.prim()
	case 2:
		return g.variable()
	case 3:
		return "(" + g.value(d-1) + ")"
	case 4:
		return g.function(d)
	case 5:
		return g.caseExpr(d)
	case 6:
		if g.prep {
			g.used.prep = true
			return g.pick("?", ":name", ":n2", ":name")
		}
		return g.prim()
	case 7:
		return g.pick("@@DATETIME_FORMAT", "@@delimiter", "@@ANSI_QUOTES", "@#UNCOMMITTED", "@#version", "@%HOME", "@%`PATH`", "@%`a b`", "MATH::PI", "math::e", "Float::MAX", "INTEGER::MIN")
	case 8:
		return "(" + g.variable() + " := " + g.value(d-1) + ")"
	case 9, 10, 11:
		return g.fieldRef()
	case 12:
		return g.subquery(d)
	case 13:
		return g.aggregate(d)
	case 14:
		return g.analytic(d)
	default:
		return "(CURSOR " + g.ident() + g.pick(" IS OPEN", " IS NOT OPEN", " IS IN RANGE", " IS NOT IN RANGE", " COUNT") + ")"
	}
}

func (g *c18Gen) arith(d int) string {
	if d <= 0 {
		return g.atom(d)
	}
	switch g.r.Intn(9) {
	case 0, 1, 2:
		return g.arith(d-1) + " " + g.pick("+", "-", "*", "/", "%") + " " + g.arith(d-1)
	case 3:
		a := g.atom(d - 1)
		op := g.pick("-", "+", "-")
		if strings.HasPrefix(a, op) || g.p(4) {
			return op + " " + a
		}
		return op + a
	case 4:
		return g.arith(d-1) + g.pick("+", "-", "*", "/") + g.atom(d-1) // no blanks
	default:
		return g.atom(d)
	}
}

func (g *c18Gen) concat(d int) string {
	if g.p(4) {
		return g.arith(d) + " || " + g.arith(d-1) + g.pick("", " || "+g.arith(d-1))
	}
	return g.arith(d)
}

func (g *c18Gen) rowValue(d int) string {
	if !g.safe && g.p(5) {
		return g.subquery(d)
	}
	if !g.safe && g.p(8) {
		return "JSON_ROW('key', " + g.str() + ")"
	}
	return "(" + g.args(d, 1, 3) + ")"
}

func (g *c18Gen) comp(d int) string {
	if d <= 0 {
		return g.concat(d)
	}
	cop := g.pick("=", "==", "<", ">", "<=", ">=", "<>", "!=")
	switch g.r.Intn(14) {
	case 0, 1, 2:
		return g.concat(d-1) + " " + cop + " " + g.concat(d-1)
	case 3:
		return g.concat(d-1) + " IS " + g.pick("", "NOT ") + g.pick("NULL", "TRUE", "FALSE", "UNKNOWN", "null")
	case 4:
		return g.concat(d-1) + g.pick(" ", " NOT ") + "BETWEEN " + g.concat(d-1) + " AND " + g.concat(d-1)
	case 5:
		return g.concat(d-1) + g.pick(" ", " NOT ") + "IN " + g.rowValue(d)
	case 6:
		return g.concat(d-1) + g.pick(" ", " NOT ") + "LIKE " + g.pick("'a%'", "'_b'", "'%'", g.concat(d-1))
	case 7:
		return g.concat(d-1) + " " + cop + g.pick(" ANY ", " ALL ") + g.rowValue(d)
	case 8:
		if g.safe {
			return g.concat(d - 1)
		}
		return "EXISTS " + g.subquery(d)
	case 9:
		return "(" + g.args(d, 2, 2) + ") " + cop + " (" + g.args(d, 2, 2) + ")"
	case 10:
		return "(" + g.args(d, 2, 2) + ")" + g.pick(" ", " NOT ") + "IN ((" + g.args(d, 2, 2) + "), (" + g.args(d, 2, 2) + "))"
	case 11:
		return "(" + g.args(d, 2, 2) + ") " + cop + g.pick(" ANY ", " ALL ") + "((" + g.args(d, 2, 2) + "), (" + g.args(d, 2, 2) + "))"
	case 12:
		return "(" + g.args(d, 2, 2) + ")" + g.pick(" ", " NOT ") + "BETWEEN (" + g.args(d, 2, 2) + ") AND (" + g.args(d, 2, 2) + ")"
	default:
		return g.concat(d)
	}
}

func (g *c18Gen) value(d int) string {
	if d <= 0 {
		return g.atom(0)
	}
	switch g.r.Intn(10) {
	case 0, 1:
		return g.value(d-1) + g.pick(" AND ", " OR ", " and ", " or ") + g.value(d-1)
	case 2:
		return g.pick("NOT ", "not ") + g.value(d-1)
	case 3:
		if a := g.atom(d - 1); strings.HasPrefix(a, ":") {
			return "! " + a
		} else {
			return "!" + a
		}
	case 4, 5, 6:
		return g.comp(d)
	default:
		return g.concat(d)
	}
}

// ---- tables and queries ------------------------------------------------------------------------------
func (g *c18Gen) tableObject(d int) string {
	switch g.r.Intn(14) {
	case 0:
		return g.pick("`data.csv`", "`dir/t.tsv`", "`a b.json`")
	case 1:
		return g.pick("CSV", "csv", "LTSV", "JSONL", "FIXED", "JSON", "ltsv") + "(" + g.pick("',', ", "'[1,2]', ", "", "") + g.pick("`t.txt`", "t", "stdin", "STDIN") + g.pick("", ", 'utf8'", ", 'utf8', true") + ")"
	case 2:
		return g.pick("JSON_TABLE", "CSV_INLINE", "JSON_INLINE", "json_table") + "('{}', " + g.pick("'{\"a\":1}'", "`j.json`", "jdata") + g.pick("", ", 'utf8'") + ")"
	case 3:
		return g.pick("FILE", "INLINE", "URL", "DATA", "file") + g.pick("::", ":: ", "::\n") + "(" + g.pick("'./t.csv'", "@a", "'a,b\\n1,2'") + ")"
	case 4:
		return g.pick("https://example.com/data.csv", "file:./t.csv", "file:///tmp/t.csv", "http://h/p?q=1&r=2")
	case 5:
		return g.pick("STDIN", "stdin")
	default:
		return g.ident()
	}
}

func (g *c18Gen) table(d int) string {
	if d > 0 && g.p(6) {
		return g.subquery(d) + g.pick("", " sq", " AS sq")
	}
	if g.p(12) {
		return "DUAL"
	}
	t := g.tableObject(d)
	if strings.Contains(t, ":") && !strings.Contains(t, "::") { // a URL ends at white space
		return t + g.pick(" u", " AS u")
	}
	return t + g.pick("", "", " "+g.pick("t1", "t2", "al"), " AS "+g.pick("t1", "t2", "al"))
}

func (g *c18Gen) joined(d int) string {
	t := g.table(d)
	for i := 0; i < g.r.Intn(3); i++ {
		rhs := g.table(d - 1)
		if d > 0 && g.p(6) {
			rhs = "LATERAL " + g.subquery(d) + g.pick("", " ls", " AS ls")
		}
		cond := g.pick(" ON "+g.comp(1), " USING ("+g.ident()+")", " ON t1.a = t2.a")
		switch g.r.Intn(6) {
		case 0:
			t += " CROSS JOIN " + rhs
		case 1:
			t += g.pick(" JOIN ", " INNER JOIN ", " join ") + rhs + cond
		case 2:
			t += g.pick(" LEFT", " RIGHT", " FULL", " left") + g.pick("", " OUTER") + " JOIN " + rhs + cond
		case 3:
			t += " NATURAL" + g.pick("", " INNER", " LEFT", " RIGHT OUTER", " FULL") + " JOIN " + rhs
		case 4:
			t = "(" + t + ")"
		default:
			t += " JOIN " + rhs + cond
		}
	}
	return t
}

func (g *c18Gen) from(d int) string {
	ts := []string{g.joined(d)}
	for i := 0; i < g.r.Intn(2); i++ {
		ts = append(ts, g.pick("", "", "LATERAL ")+g.subquery(d)+g.pick(" s1", " AS s1", ""))
		if g.p(2) {
			ts[len(ts)-1] = g.table(d - 1)
		}
	}
	// joinable_tables: after the first table only plain tables or (LATERAL) sub-queries followed by more
	if len(ts) > 1 && !strings.HasPrefix(ts[len(ts)-1], "(") && !strings.HasPrefix(ts[len(ts)-1], "LATERAL") {
		for i := 1; i < len(ts)-1; i++ {
			ts[i] = g.subquery(d) + " sx"
		}
	}
	return "FROM " + strings.Join(ts, ", ")
}

func (g *c18Gen) fields(d int) string {
	var fs []string
	for i := 0; i <= g.r.Intn(3); i++ {
		switch g.r.Intn(10) {
		case 0:
			fs = append(fs, "*")
		case 1:
			fs = append(fs, g.ident()+".*")
		case 2, 3:
			fs = append(fs, g.value(d)+" AS "+g.ident())
		default:
			fs = append(fs, g.value(d))
		}
	}
	return strings.Join(fs, ", ")
}

func (g *c18Gen) limit(d int) string {
	off := g.pick("", "", " OFFSET "+g.pick("0", "1", "2", "@a", "(1 + 1)", "1000000")+g.pick("", " ROW", " ROWS"))
	switch g.r.Intn(6) {
	case 0:
		return strings.TrimSpace(off)
	case 1:
		return strings.TrimSpace(off + " FETCH " + g.pick("FIRST", "NEXT") + " " + g.pick("0", "1", "3", "@a", "50", "100") + g.pick(" ROW", " ROWS", " PERCENT") + g.pick("", " ONLY", " WITH TIES"))
	default:
		return "LIMIT " + g.pick("0", "1", "10", "@a", "(2 * 3)", "50.5", "100", "0.0") + g.pick("", "", " PERCENT", " ROWS", " ROW") + g.pick("", "", " ONLY", " WITH TIES") + off
	}
}

func (g *c18Gen) selectEntity(d int) string {
	var b strings.Builder
	b.WriteString(g.pick("SELECT ", "SELECT ", "select ", "SELECT DISTINCT ", "Select Distinct "))
	b.WriteString(g.fields(d))
	if g.p(5) {
		return b.String()
	}
	b.WriteString(" " + g.from(d))
	if g.p(2) {
		b.WriteString(" WHERE " + g.value(d))
	}
	if g.p(4) {
		b.WriteString(" GROUP BY " + g.fieldRef() + g.pick("", ", "+g.arith(1)))
		if g.p(2) {
			b.WriteString(" HAVING " + g.comp(1))
		}
	} else if g.p(12) {
		b.WriteString(" HAVING " + g.comp(1))
	}
	return b.String()
}

func (g *c18Gen) selectQuery(d int) string {
	var b strings.Builder
	if d > 0 && g.p(7) {
		b.WriteString("WITH " + g.pick("", "RECURSIVE ") + g.ident() + g.pick("", " (n)", " (a, b)") + " AS (" + g.selectQuery(d-1) + ")")
		if g.p(3) {
			b.WriteString(", " + g.ident() + " AS (" + g.selectQuery(d-1) + ")")
		}
		b.WriteString(" ")
	}
	e := g.selectEntity(d)
	for i := 0; d > 0 && i < 2 && g.p(6); i++ {
		rhs := g.selectEntity(d - 1)
		if g.p(3) {
			rhs = "(" + g.selectQuery(d-1) + ")"
		}
		e += g.pick(" UNION ", " UNION ALL ", " INTERSECT ", " EXCEPT ", " EXCEPT ALL ", " union all ") + rhs
	}
	b.WriteString(e)
	if g.p(3) {
		b.WriteString(" " + g.orderBy(d))
	}
	if g.p(3) {
		if l := g.limit(d); l != "" {
			b.WriteString(" " + l)
		}
	}
	if d >= 2 && g.p(15) {
		b.WriteString(" FOR UPDATE")
	}
	return b.String()
}

func (g *c18Gen) updatable() string {
	switch g.r.Intn(6) {
	case 0:
		return g.pick("CSV", "JSON", "LTSV") + "(" + g.pick("", "',', ") + g.pick("`t.txt`", "t") + ")"
	case 1:
		return g.pick("FILE", "INLINE") + "::('t.csv')"
	default:
		return g.plainIdent()
	}
}

func (g *c18Gen) fieldRefs() string {
	n := 1 + g.r.Intn(3)
	var a []string
	for i := 0; i < n; i++ {
		a = append(a, g.fieldRef())
	}
	return strings.Join(a, ", ")
}

func (g *c18Gen) rowValues(d int) string {
	var a []string
	for i := 0; i <= g.r.Intn(2); i++ {
		a = append(a, "("+g.args(d, 1, 3)+")")
	}
	return strings.Join(a, ", ")
}

func (g *c18Gen) with() string {
	if g.p(6) {
		return "WITH w AS (" + g.selectQuery(1) + ") "
	}
	return ""
}

func (g *c18Gen) dml(d int) string {
	switch g.r.Intn(12) {
	case 0:
		return g.with() + "INSERT INTO " + g.updatable() + g.pick("", " ("+g.fieldRefs()+")") + " VALUES " + g.rowValues(d)
	case 1:
		return g.with() + "INSERT INTO " + g.updatable() + g.pick("", " ("+g.fieldRefs()+")") + " " + g.selectQuery(d)
	case 2:
		sets := g.fieldRef() + " = " + g.value(d)
		if g.p(2) {
			sets += ", " + g.fieldRef() + " = " + g.value(d)
		}
		return g.with() + "UPDATE " + g.updatable() + g.pick("", ", "+g.updatable()) + " SET " + sets + g.pick("", " "+g.from(1)) + g.pick("", " WHERE "+g.value(d))
	case 3:
		return g.with() + "DELETE " + g.pick("", g.ident()+" ", g.ident()+", "+g.ident()+" ") + g.from(1) + g.pick("", " WHERE "+g.value(d))
	case 4:
		return g.with() + "REPLACE INTO " + g.updatable() + g.pick("", " ("+g.fieldRefs()+")") + " USING (" + g.fieldRefs() + ") " + g.pick("VALUES "+g.rowValues(d), g.selectQuery(d))
	case 5:
		return "CREATE TABLE " + g.pick("", "IF NOT EXISTS ") + g.pick("`new.csv`", "newt") + g.pick(" (a, b)", " (a, b) AS "+g.selectQuery(d), " AS "+g.selectQuery(d), " ("+g.ident()+") "+g.selectQuery(d), " "+g.selectQuery(d))
	case 6:
		return "ALTER TABLE " + g.updatable() + " ADD " + g.pick(g.ident(), g.ident()+" DEFAULT "+g.value(d), "("+g.ident()+", "+g.ident()+" DEFAULT "+g.prim()+")") + g.pick("", " FIRST", " LAST", " AFTER "+g.fieldRef(), " BEFORE "+g.fieldRef())
	case 7:
		return "ALTER TABLE " + g.updatable() + " DROP " + g.pick(g.fieldRef(), "("+g.fieldRefs()+")")
	case 8:
		return "ALTER TABLE " + g.updatable() + " RENAME " + g.fieldRef() + " TO " + g.ident()
	case 9:
		return "ALTER TABLE " + g.updatable() + " SET " + g.pick("format", "delimiter", "header") + " TO " + g.pick("tsv", "','", "false", "'CSV'", "@a")
	case 10:
		return g.pick("COMMIT", "ROLLBACK", "commit")
	default:
		return g.selectEntityInto(d)
	}
}

func (g *c18Gen) selectEntityInto(d int) string {
	return "SELECT " + g.value(d) + ", " + g.value(d) + " INTO @a, @b" + g.pick("", " "+g.from(1)+g.pick("", " WHERE "+g.value(d))+g.pick("", " LIMIT 1"))
}

func (g *c18Gen) block(d int, loop, fn bool) string {
	var b strings.Builder
	for i := 0; i <= g.r.Intn(2); i++ {
		b.WriteString(g.stmt(d-1, loop, fn) + "; ")
	}
	return b.String()
}

func (g *c18Gen) stmt(d int, loop, fn bool) string {
	if d <= 0 {
		return g.pick("PRINT "+g.prim(), g.variable()+" := "+g.value(1), "SELECT "+g.value(1), "COMMIT")
	}
	n := 30
	switch g.r.Intn(n) {
	case 0:
		return g.pick("VAR ", "DECLARE ", "var ") + g.variable() + g.pick("", " := "+g.value(d), ", "+g.variable()+" := "+g.value(d))
	case 1:
		return g.variable() + " := " + g.value(d)
	case 2:
		return "DISPOSE " + g.variable()
	case 3:
		return g.pick("SET @%ENV = ", "SET @%`my var` TO ", "SET @%E TO ") + g.pick(g.sub(d), g.ident())
	case 4:
		return "UNSET @%ENV"
	case 5:
		return "DECLARE " + g.ident() + " CURSOR FOR " + g.pick(g.selectQuery(d), "stmt")
	case 6:
		return "OPEN " + g.ident() + g.pick("", " USING "+g.sub(d), " USING "+g.sub(d)+" AS p, 2")
	case 7:
		return g.pick("CLOSE ", "DISPOSE CURSOR ") + g.ident()
	case 8:
		return "FETCH " + g.pick("", "NEXT ", "PRIOR ", "FIRST ", "LAST ", "ABSOLUTE 3 ", "RELATIVE -1 ", "ABSOLUTE @a ") + g.ident() + " INTO @a" + g.pick("", ", @b")
	case 9:
		return "DECLARE " + g.ident() + " VIEW " + g.pick("(a, b)", "(a) AS "+g.selectQuery(d), "AS "+g.selectQuery(d))
	case 10:
		return "DISPOSE VIEW " + g.pick(g.ident(), "STDIN")
	case 11:
		return g.pick("PREPARE st FROM 'SELECT ?'", "EXECUTE st", "EXECUTE st USING 1, "+g.sub(d)+" AS n", "DISPOSE PREPARE st", "PREPARE st FROM "+g.str())
	case 12:
		if fn {
			return g.pick("RETURN", "RETURN "+g.sub(d))
		}
		return "DECLARE " + g.ident() + " FUNCTION (" + g.pick("", "@p1", "@p1, @p2", "@p1, @p2 DEFAULT 1", "@p1 DEFAULT "+g.prim()) + ") AS BEGIN " + g.block(d, false, true) + "END"
	case 13:
		if fn {
			return g.pick("RETURN", "RETURN "+g.sub(d))
		}
		return "DECLARE " + g.ident() + " AGGREGATE (cur" + g.pick("", ", @p1", ", @p1 DEFAULT 0") + ") AS BEGIN " + g.block(d, false, true) + "END"
	case 14:
		return "DISPOSE FUNCTION " + g.ident()
	case 15:
		return "IF " + g.sub(d) + " THEN " + g.block(d, loop, fn) + g.pick("", "ELSEIF "+g.sub(1)+" THEN "+g.block(d, loop, fn)) + g.pick("", "ELSE "+g.block(d, loop, fn)) + "END IF"
	case 16:
		return "CASE " + g.pick("", g.arith(1)+" ") + "WHEN " + g.sub(1) + " THEN " + g.block(d, loop, fn) + g.pick("", "WHEN "+g.sub(1)+" THEN "+g.block(d, loop, fn)) + g.pick("", "ELSE "+g.block(d, loop, fn)) + "END CASE"
	case 17:
		return "WHILE (" + g.sub(d) + ") DO " + g.block(d, true, fn) + "END WHILE"
	case 18:
		return "WHILE " + g.pick("", "VAR ", "DECLARE ") + g.pick("@a", "@a, @b") + " IN " + g.ident() + " DO " + g.block(d, true, fn) + "END WHILE"
	case 19:
		if loop {
			return g.pick("CONTINUE", "BREAK")
		}
		if fn {
			return "RETURN"
		}
		return g.pick("EXIT", "EXIT 1")
	case 20:
		return g.pick("SET @@DELIMITER = ", "SET @@delimiter TO ", "SET @@WAIT_TIMEOUT TO ") + g.pick("','", "csv", "15", g.sub(1))
	case 21:
		return g.pick("ADD '%Y' TO @@DATETIME_FORMAT", "REMOVE '%Y' FROM @@DATETIME_FORMAT", "REMOVE 1 FROM @@datetime_format", "SHOW @@DELIMITER")
	case 22:
		return g.pick("ECHO ", "PRINT ", "print ") + g.sub(d)
	case 23:
		return "PRINTF " + g.str() + g.pick("", ", "+g.sub(1), " USING "+g.sub(1)+", "+g.sub(1))
	case 24:
		return g.pick("SOURCE `f.sql`", "SOURCE 'f.sql'", "SOURCE f", "EXECUTE 'SELECT 1'", "EXECUTE 'SELECT %s' USING 1", "CHDIR `dir`", "CHDIR '/tmp'", "PWD", "RELOAD CONFIG", "SYNTAX", "SYNTAX 'select', 'from'", "SYNTAX sel")
	case 25:
		return g.pick("SHOW TABLES", "SHOW FIELDS FROM "+g.updatable(), "SHOW cursors", "SHOW ENV")
	case 26:
		return "TRIGGER ERROR" + g.pick("", " 'msg'", " 300 'msg'", " "+g.str())
	case 27:
		e := g.sub(d) // an expression statement
		if u := strings.ToUpper(e); strings.HasPrefix(u, "CASE") || strings.HasPrefix(u, "IF") {
			return "(" + e + ")" // CASE / IF at the start of a statement are the flow-control statements
		}
		return e
	case 28:
		if !loop && !fn {
			return g.pick("$ls -la", "$echo 'a;b' \"c;d\"", "$echo ${@a} ${'x;y'}", "$")
		}
		return "COMMIT"
	default:
		return g.dml(d)
	}
}

// ---- queries over the fixed tables wt (id, g, n, f, s) and wt2 (id, v): these are evaluated ----------
func (g *c18Gen) tblOrderBy() string {
	var items []string
	for i := 0; i <= g.r.Intn(2); i++ {
		items = append(items, g.pick("id", "n", "g", "s", "f", "n % 3", "-n", "wt.id", "1", "2")+g.pick("", " ASC", " DESC", " DESC")+g.pick("", "", " NULLS FIRST", " NULLS LAST"))
	}
	items = append(items, g.pick("id", "id DESC", "wt.id ASC"))
	return " ORDER BY " + strings.Join(items, ", ")
}

func (g *c18Gen) tblLimit() string {
	switch g.r.Intn(8) {
	case 0:
		return " OFFSET " + g.pick("0", "1", "3", "100") + g.pick("", " ROW", " ROWS")
	case 1:
		return g.pick("", " OFFSET "+g.pick("0", "2")) + " FETCH " + g.pick("FIRST", "NEXT") + " " + g.pick("0", "1", "3", "50", "100") + g.pick(" ROW", " ROWS", " PERCENT") + g.pick("", " ONLY", " WITH TIES")
	default:
		return " LIMIT " + g.pick("0", "1", "2", "3", "50", "100", "0.0", "33.4", "1000000") + g.pick("", "", " PERCENT", " ROWS") + g.pick("", "", " ONLY", " WITH TIES") + g.pick("", "", " OFFSET "+g.pick("0", "1", "4"))
	}
}

func (g *c18Gen) tblWhere() string {
	switch g.r.Intn(9) {
	case 0:
		return " WHERE n IN (" + g.pick("0", "1", "NULL", "-1") + ")"
	case 1:
		return " WHERE n" + g.pick(" ", " NOT ") + "BETWEEN " + g.pick("0", "-1", "1") + " AND " + g.pick("0", "2", "5")
	case 2:
		return " WHERE s" + g.pick(" ", " NOT ") + "LIKE " + g.pick("'%'", "'_'", "''", "'a%'", "'%\\_%'")
	case 3:
		return " WHERE g IS " + g.pick("", "NOT ") + "NULL"
	case 4:
		return " WHERE id " + g.pick("=", "<", ">=", "<>") + g.pick(" ANY ", " ALL ") + "(SELECT id FROM wt2" + g.pick("", " WHERE v > 0", " LIMIT 0") + ")"
	case 5:
		return " WHERE " + g.pick("", "NOT ") + "EXISTS (SELECT 1 FROM wt2 WHERE wt2.id = wt.id" + g.pick("", " AND v = 0", " LIMIT 0") + ")"
	default:
		return " WHERE " + g.value(2)
	}
}

func (g *c18Gen) tableQuery() string {
	g.tbl, g.safe = true, true
	dist := g.pick("", "", "", "DISTINCT ")
	switch g.r.Intn(10) {
	case 0, 1: // grouped
		aggs := []string{"COUNT(*)", "COUNT(n)", "COUNT(DISTINCT n)", "SUM(n)", "MIN(s)", "MAX(f)", "AVG(n)", "MEDIAN(n)", "LISTAGG(s, ',') WITHIN GROUP (ORDER BY id)", "LISTAGG(DISTINCT s)", "JSON_AGG(n)", "SUM(n) + 0", "COUNT(*) * 0", "SUM(n * 0)"}
		var fs []string
		for i := 0; i <= g.r.Intn(3); i++ {
			fs = append(fs, aggs[g.r.Intn(len(aggs))])
		}
		key := g.pick("g", "n", "g, n")
		q := "SELECT " + key + ", " + strings.Join(fs, ", ") + " FROM wt" + g.pick("", g.tblWhere()) + " GROUP BY " + key
		if g.p(2) {
			q += " HAVING " + aggs[g.r.Intn(6)] + " " + g.pick(">", ">=", "=", "<>") + " " + g.pick("0", "1", "2")
		}
		if g.p(3) {
			return q
		}
		return q + g.pick(" ORDER BY 1, 2", " ORDER BY 1 DESC NULLS LAST, 2") + g.pick("", "", g.tblLimit())
	case 2: // set operations
		a := "SELECT " + g.pick("n", "g", "id", "n, g") + " FROM wt" + g.pick("", g.tblWhere())
		b := strings.Replace(strings.Replace(a, " FROM wt", " FROM wt AS u", 1), "wt.id", "u.id", -1)
		if g.p(2) {
			b = "SELECT " + g.pick("v", "id") + " FROM wt2"
			a = "SELECT " + g.pick("n", "id") + " FROM wt"
		}
		ob := g.pick(" ORDER BY 1", " ORDER BY 1 DESC")
		if strings.HasPrefix(a, "SELECT n, g") {
			ob += ", 2"
		}
		q := a + g.pick(" UNION ", " UNION ALL ", " INTERSECT ", " EXCEPT ", " EXCEPT ALL ", " INTERSECT ALL ") + b
		if g.p(3) {
			return q
		}
		return q + ob + g.pick("", g.tblLimit())
	case 3: // joins
		j := g.pick("wt JOIN wt2 ON wt.id = wt2.id", "wt LEFT JOIN wt2 ON wt.id = wt2.id AND wt2.v > 0", "wt RIGHT OUTER JOIN wt2 USING (id)", "wt NATURAL JOIN wt2", "wt FULL JOIN wt2 ON wt.n = wt2.v", "wt CROSS JOIN wt2", "wt, wt2",
			"wt JOIN wt2 ON wt.id = wt2.id + 0", "wt a JOIN wt b ON a.n = b.n AND a.id < b.id", "wt, LATERAL (SELECT v FROM wt2 WHERE wt2.id = wt.id) l")
		f := g.pick("wt.id, wt2.v", "*", "wt.n, wt2.v, wt.n + wt2.v", "COUNT(*)")
		if strings.Contains(j, " a JOIN ") {
			f = g.pick("a.id, b.id", "a.n, b.s", "COUNT(*)")
		} else if strings.Contains(j, "LATERAL") {
			f = g.pick("id, v", "n, l.v")
		} else if strings.Contains(j, "USING") || strings.Contains(j, "NATURAL") {
			f = g.pick("id, v", "*", "n, v")
		}
		q := "SELECT " + f + " FROM " + j
		if !strings.Contains(f, "COUNT") {
			q += g.pick("", " ORDER BY 1, 2", " ORDER BY 1 DESC, 2")
		}
		return q
	case 4: // derived table / CTE
		inner := "SELECT id, n, g FROM wt" + g.pick("", g.tblWhere()) + g.pick("", g.tblOrderBy()+g.tblLimit())
		if g.p(2) {
			return "WITH c (a, b, c) AS (" + inner + ") SELECT a, b" + g.pick("", ", c") + " FROM c" + g.pick("", " WHERE b IS NOT NULL", " ORDER BY a DESC", " ORDER BY b NULLS LAST, a LIMIT 3")
		}
		return "SELECT " + dist + g.pick("sq.id", "sq.n, sq.g", "*") + " FROM (" + inner + ") sq" + g.pick("", " ORDER BY 1", " WHERE sq.n > 0")
	default: // plain, with scalar expressions and analytic functions in the select list
		var fs []string
		for i := 0; i <= g.r.Intn(3); i++ {
			switch g.r.Intn(4) {
			case 0:
				fs = append(fs, g.fieldRef())
			case 1, 2:
				fs = append(fs, g.analytic(2))
			default:
				fs = append(fs, g.value(2)+g.pick("", "", " AS x"+fmt.Sprint(i)))
			}
		}
		q := "SELECT " + dist + strings.Join(fs, ", ") + " FROM wt" + g.pick("", " AS wt", "") + g.pick("", "", g.tblWhere())
		if dist != "" || g.p(3) {
			return q
		}
		return q + g.tblOrderBy() + g.pick("", "", g.tblLimit())
	}
}

// c18BoundaryQueries: queries over wt / wt2 with the boundary literals (0, 1, a large number, an empty
// text, a one-element list) in every place of a query that String() prints: every shape of window
// frame, LIMIT / OFFSET / FETCH, analytic function arguments, IN lists, BETWEEN, SUBSTRING, CASE ...
// all = the whole cross product; otherwise a seeded sample of the frames
func c18BoundaryQueries(r *rand.Rand, all bool) []string {
	var qs []string
	offs := []string{"0", "1", "2", "1000000"}
	lows, highs := []string{"UNBOUNDED PRECEDING", "CURRENT ROW"}, []string{"UNBOUNDED FOLLOWING", "CURRENT ROW"}
	for _, o := range offs {
		lows = append(lows, o+" PRECEDING", o+" FOLLOWING")
		highs = append(highs, o+" PRECEDING", o+" FOLLOWING")
	}
	var frames []string
	for _, o := range offs {
		frames = append(frames, "ROWS "+o+" PRECEDING")
	}
	frames = append(frames, "ROWS UNBOUNDED PRECEDING", "ROWS CURRENT ROW")
	for _, l := range lows {
		for _, h := range highs {
			frames = append(frames, "ROWS BETWEEN "+l+" AND "+h)
		}
	}
	fns := []string{"SUM(n)", "COUNT(*)", "LISTAGG(s, '')", "FIRST_VALUE(n)", "LAST_VALUE(s)", "NTH_VALUE(n, 1)", "MAX(f)", "COUNT(DISTINCT g)", "AVG(n)", "MIN(id)"}
	for i, f := range frames {
		if !all && r.Intn(2) != 0 {
			continue
		}
		fn := fns[i%len(fns)]
		part := []string{"", "PARTITION BY g "}[i/len(fns)%2]
		if strings.HasPrefix(fn, "LISTAGG") {
			// LISTAGG takes no windowing clause: the aggregate form of the same frame test
			fn = "SUM(id)"
		}
		qs = append(qs, "SELECT id, "+fn+" OVER ("+part+"ORDER BY id "+f+") FROM wt ORDER BY id")
	}
	for _, l := range []string{"LIMIT 0", "LIMIT 1", "LIMIT 100", "LIMIT 0 PERCENT", "LIMIT 50 PERCENT", "LIMIT 100 PERCENT", "LIMIT 0 WITH TIES", "LIMIT 1 WITH TIES", "LIMIT 2 ROWS ONLY", "LIMIT 0.0 PERCENT",
		"LIMIT 3 OFFSET 0", "LIMIT 3 OFFSET 1", "LIMIT 0 OFFSET 0", "OFFSET 0", "OFFSET 1 ROW", "OFFSET 100 ROWS", "FETCH FIRST 0 ROWS ONLY", "FETCH FIRST 1 ROW ONLY", "OFFSET 0 FETCH NEXT 2 ROWS WITH TIES",
		"FETCH FIRST 0 PERCENT ONLY", "FETCH NEXT 50 PERCENT WITH TIES", "OFFSET 2 FETCH FIRST 100 PERCENT ONLY"} {
		qs = append(qs, "SELECT id, n FROM wt ORDER BY n NULLS LAST "+l, "SELECT n FROM wt ORDER BY n DESC "+l)
	}
	for _, e := range []string{"NTILE(1) OVER (ORDER BY id)", "NTILE(3) OVER (ORDER BY id DESC)", "LAG(n, 0) OVER (ORDER BY id)", "LAG(n, 1, 0) OVER (ORDER BY id)", "LEAD(n, 2, -1) OVER (PARTITION BY g ORDER BY id)",
		"LAG(n) IGNORE NULLS OVER (ORDER BY id)", "NTH_VALUE(n, 1) OVER (ORDER BY id ROWS BETWEEN 0 PRECEDING AND 0 FOLLOWING)", "NTH_VALUE(n, 2) OVER (ORDER BY id ROWS BETWEEN 1 PRECEDING AND 1 FOLLOWING)",
		"RANK() OVER (ORDER BY n NULLS FIRST)", "RANK() OVER (ORDER BY n NULLS LAST)", "DENSE_RANK() OVER (ORDER BY n DESC NULLS FIRST)", "ROW_NUMBER() OVER (PARTITION BY g ORDER BY n DESC, id)",
		"CUME_DIST() OVER (ORDER BY n ASC)", "PERCENT_RANK() OVER (ORDER BY n DESC)", "LISTAGG(s, '') OVER (PARTITION BY g ORDER BY id DESC)", "LISTAGG(DISTINCT g, ', ') OVER ()", "JSON_AGG(n) OVER (PARTITION BY g)",
		"COUNT(DISTINCT n) OVER (PARTITION BY g)", "SUM(DISTINCT n) OVER ()", "FIRST_VALUE(n) OVER (ORDER BY id DESC)", "LAST_VALUE(n) OVER (ORDER BY id ROWS BETWEEN CURRENT ROW AND 0 FOLLOWING)",
		"n IN (0)", "n NOT IN (1)", "n IN (0, 1)", "(n, g) IN ((0, 'a'))", "n BETWEEN 0 AND 0", "n NOT BETWEEN 0 AND 1", "n = ANY (0)", "n <> ALL (0, 1)", "n > ALL (SELECT v FROM wt2 WHERE v IS NOT NULL)",
		"SUBSTRING(s FROM 0)", "SUBSTRING(s FROM 1 FOR 0)", "SUBSTRING(s FROM 2 FOR 1)", "SUBSTRING(s FROM -1)", "SUBSTRING(s, 0, 1)", "CASE n WHEN 0 THEN 'z' END", "CASE WHEN n = 0 THEN 0 ELSE 1 END", "CASE n WHEN 0 THEN 'z' WHEN 1 THEN 'o' ELSE '' END",
		"n + 0", "n - 0", "n * 1", "n / 1", "n % 1", "0 - n", "-n", "+n", "- -n", "-(-n)", "n || ''", "'' || s || ''", "NOT n = 0", "!(n = 0)", "n = 0 OR n = 1 AND g = 'a'", "(n = 0 OR n = 1) AND g = 'a'", "n IS NULL", "n IS NOT NULL", "s IS NOT TRUE",
		"s LIKE ''", "s LIKE '%'", "s NOT LIKE '_'", "s LIKE '\\%'", "(g = 'a') IS UNKNOWN", "COALESCE(n, 0)", "NULLIF(n, 0)", "IF(n = 0, 0, 1)", "REPLACE(s, ' ', '')", "f * 1.0", "f + 0.0", "f = -0", "1e0 * n", "007 + n", "n < 9223372036854775807", "n + 9223372036854775808",
		"(SELECT COUNT(*) FROM wt2 WHERE wt2.id = wt.id)", "EXISTS (SELECT 1 FROM wt2 WHERE wt2.id = wt.id LIMIT 0)", "(SELECT v FROM wt2 WHERE wt2.id = wt.id ORDER BY v DESC LIMIT 1)", "(SELECT MAX(v) FROM wt2 WHERE v > 0 OFFSET 0)"} {
		qs = append(qs, "SELECT id, "+e+" FROM wt ORDER BY id")
	}
	for _, q := range []string{"SELECT g, COUNT(*) FROM wt GROUP BY g HAVING COUNT(*) > 0 ORDER BY g NULLS FIRST", "SELECT g, COUNT(*) FROM wt GROUP BY g HAVING COUNT(*) > 1 ORDER BY g DESC NULLS FIRST",
		"SELECT g, LISTAGG(s, '') WITHIN GROUP (ORDER BY id DESC) FROM wt GROUP BY g ORDER BY 1", "SELECT g, LISTAGG(DISTINCT n, '|') WITHIN GROUP (ORDER BY n NULLS LAST) FROM wt GROUP BY g ORDER BY 1",
		"SELECT DISTINCT n FROM wt ORDER BY 1", "SELECT n FROM wt UNION SELECT v FROM wt2 ORDER BY 1", "SELECT n FROM wt UNION ALL SELECT v FROM wt2 ORDER BY 1", "SELECT n FROM wt EXCEPT SELECT v FROM wt2 ORDER BY 1",
		"SELECT n FROM wt EXCEPT ALL SELECT v FROM wt2 ORDER BY 1", "SELECT n FROM wt INTERSECT ALL SELECT v FROM wt2 ORDER BY 1", "SELECT n FROM wt INTERSECT SELECT v FROM wt2 UNION SELECT 5 ORDER BY 1",
		"SELECT n FROM wt UNION (SELECT v FROM wt2 INTERSECT SELECT 0) ORDER BY 1", "(SELECT n FROM wt UNION SELECT v FROM wt2) EXCEPT SELECT 0 ORDER BY 1",
		"SELECT wt.id, v FROM wt LEFT JOIN wt2 ON wt.id = wt2.id ORDER BY 1, 2", "SELECT wt.id, v FROM wt RIGHT JOIN wt2 ON wt.id = wt2.id ORDER BY 1, 2", "SELECT wt.id, v FROM wt FULL OUTER JOIN wt2 ON wt.id = wt2.id ORDER BY 1, 2",
		"SELECT wt.id, v FROM wt INNER JOIN wt2 ON wt.id = wt2.id ORDER BY 1, 2", "SELECT id, v FROM wt NATURAL LEFT JOIN wt2 ORDER BY 1, 2", "SELECT id, v FROM wt JOIN wt2 USING (id) ORDER BY 1, 2", "SELECT COUNT(*) FROM wt CROSS JOIN wt2",
		"SELECT id, v FROM wt, LATERAL (SELECT v FROM wt2 WHERE wt2.id = wt.id ORDER BY v LIMIT 1) l ORDER BY 1", "SELECT id, v FROM wt LEFT JOIN LATERAL (SELECT v FROM wt2 WHERE wt2.id = wt.id) l ON TRUE ORDER BY 1, 2",
		"WITH RECURSIVE t (n) AS (SELECT 0 UNION ALL SELECT n + 1 FROM t WHERE n < 3) SELECT n FROM t", "WITH c AS (SELECT id FROM wt LIMIT 0) SELECT COUNT(*) FROM c", "SELECT 1 WHERE FALSE", "SELECT 1 FROM DUAL",
		"SELECT id FROM wt WHERE n = 0 OR n IS NULL ORDER BY id DESC", "SELECT id FROM wt ORDER BY n IS NULL, n, id", "SELECT id FROM wt ORDER BY g ASC NULLS LAST, n DESC NULLS FIRST, id", "SELECT id FROM wt ORDER BY g DESC NULLS LAST, id ASC"} {
		qs = append(qs, q)
	}
	return qs
}

// c18Corpus builds n valid programs of the four kinds, each tagged with the modes it is written for
func c18Corpus(r *rand.Rand, n int) []c18Input {
	var out []c18Input
	for i := 0; i < n; i++ {
		g := &c18Gen{r: r, prep: r.Intn(4) == 0, ansi: r.Intn(3) == 0}
		in := c18Input{Prep: -1, Ansi: -1}
		switch i % 10 {
		case 8, 9:
			g.prep = false
			in.Src, in.Origin, in.Table = g.tableQuery(), "corpus-table-query", true
		case 0, 1:
			g.safe = true
			var fs []string
			for k := 0; k <= r.Intn(3); k++ {
				fs = append(fs, g.value(3))
			}
			in.Src, in.Origin, in.Eval = "SELECT "+strings.Join(fs, ", "), "corpus-expression", true
		case 2:
			in.Src, in.Origin = "SELECT "+g.fields(3), "corpus-expression-any"
		case 3, 4:
			in.Src, in.Origin = g.selectQuery(3), "corpus-select"
		case 5:
			in.Src, in.Origin = g.dml(2), "corpus-dml"
		default:
			var b strings.Builder
			k := 1 + r.Intn(3)
			for j := 0; j < k; j++ {
				b.WriteString(g.stmt(2, false, false))
				if j < k-1 || r.Intn(2) == 0 {
					b.WriteString(g.pick(";", "; ", ";\n", " ;\r\n"))
				}
			}
			in.Src, in.Origin = b.String(), "corpus-procedure"
		}
		if g.used.prep {
			in.Prep = 1
		} else if strings.ContainsAny(in.Src, "?") || strings.Contains(in.Src, ":") {
			// ':' / '?' inside literals and constants are tokenised differently with forPrepared only
			// outside quotation marks; keep such programs to the mode they were written for
			in.Prep = 0
		}
		if g.ansi && g.used.dq {
			in.Ansi = 1
		} else if strings.Contains(in.Src, "\"") {
			in.Ansi = 0
		}
		out = append(out, in)
	}
	for _, q := range c18BoundaryQueries(r, n > 2000) {
		out = append(out, c18Input{Src: q, Origin: "corpus-boundary-query", Table: true, Ordered: strings.Contains(q, " ORDER BY id") && !strings.Contains(q, "LIMIT"), Prep: 0, Ansi: 0})
	}
	return out
}
