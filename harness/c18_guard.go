package main

// C18, termination guard: before anything is scanned or parsed in the harness process itself, every
// input goes through child processes of this same binary that only run parser.Scanner and
// parser.Parse on it, under an address-space limit and a per-input time limit.  A scanner loop that
// does not stop at the end of the input (and allocates without bound) kills a child, not the
// harness; the input it died on is a direct violation with the text as replay, and is left out of
// the in-process runs.

import (
	"bufio"
	"bytes"
	"fmt"
	"io"
	"os"
	"os/exec"
	"strconv"
	"strings"
	"sync"
	"time"

	"github.com/mithrandie/csvq/lib/parser"
)

const (
	c18GuardEnv       = "C18_GUARD_CHILD"
	c18GuardMemKB     = 800000           // address space of one child (ulimit -v)
	c18GuardPerInput  = 20 * time.Second // no progress for this long = not terminating
	c18GuardWorkers   = 4
	c18GuardMaxReport = 6
)

func init() {
	if os.Getenv(c18GuardEnv) == "1" {
		c18GuardChild()
		os.Exit(0)
	}
}

// child: stdin = records "<index> <byte length>\n<bytes>"; for each record scan and parse the text in the
// four modes; stdout = "B i" (begun), "S i" (all scans returned), "E i" (all parses returned)
func c18GuardChild() {
	in := bufio.NewReaderSize(os.Stdin, 1<<16)
	out := bufio.NewWriter(os.Stdout)
	say := func(tag string, i int) {
		fmt.Fprintf(out, "%s %d\n", tag, i)
		out.Flush()
	}
	for {
		line, err := in.ReadString('\n')
		if err != nil {
			return
		}
		f := strings.Fields(line)
		if len(f) != 2 {
			return
		}
		idx, _ := strconv.Atoi(f[0])
		n, _ := strconv.Atoi(f[1])
		buf := make([]byte, n)
		if _, err := io.ReadFull(in, buf); err != nil {
			return
		}
		src := string(buf)
		say("B", idx)
		for _, p := range []bool{false, true} {
			for _, a := range []bool{false, true} {
				c18ScanAll(src, p, a) // recovers panics; those are reported by the in-process run
			}
		}
		say("S", idx)
		for _, p := range []bool{false, true} {
			for _, a := range []bool{false, true} {
				func() {
					defer func() { _ = recover() }()
					_, _, _ = parser.Parse(src, "", p, a)
				}()
			}
		}
		say("E", idx)
	}
}

type c18GuardHit struct {
	Index int
	Key   string // scanner-nontermination | parse-nontermination
	What  string
}

// c18GuardRange feeds the inputs with the given indices to children, restarting after every input a
// child died on
func c18GuardRange(exe string, inputs []c18Input, idxs []int, confirm bool) []c18GuardHit {
	var hits []c18GuardHit
	pos := map[int]int{}
	for k, i := range idxs {
		pos[i] = k
	}
	lo, hi := 0, len(idxs) // positions in idxs
	for lo < hi {
		cmd := exec.Command("sh", "-c", fmt.Sprintf("ulimit -v %d; exec \"$0\"", c18GuardMemKB), exe)
		cmd.Env = append(os.Environ(), c18GuardEnv+"=1", "GOMAXPROCS=2", "MALLOC_ARENA_MAX=2")
		stdin, err1 := cmd.StdinPipe()
		stdout, err2 := cmd.StdoutPipe()
		var stderr bytes.Buffer
		cmd.Stderr = &stderr
		if err1 != nil || err2 != nil || cmd.Start() != nil {
			panic("harness: cannot start the C18 guard child")
		}
		go func(from int) {
			w := bufio.NewWriter(stdin)
			for k := from; k < hi; k++ {
				fmt.Fprintf(w, "%d %d\n", idxs[k], len(inputs[idxs[k]].Src))
				w.WriteString(inputs[idxs[k]].Src)
			}
			w.Flush()
			stdin.Close()
		}(lo)
		lines := make(chan string, 64)
		go func() {
			sc := bufio.NewScanner(stdout)
			for sc.Scan() {
				lines <- sc.Text()
			}
			close(lines)
		}()
		cur, stage, done := lo, "", false
		timedOut := false
		for !done {
			select {
			case l, ok := <-lines:
				if !ok {
					done = true
					break
				}
				f := strings.Fields(l)
				if len(f) == 2 {
					i, _ := strconv.Atoi(f[1])
					cur, stage = pos[i], f[0]
					if stage == "E" {
						cur, stage = pos[i]+1, ""
					}
				}
			case <-time.After(c18GuardPerInput):
				timedOut, done = true, true
			}
		}
		_ = cmd.Process.Kill()
		_ = cmd.Wait()
		if cur >= hi && !timedOut {
			break
		}
		// the child stopped while working on input cur
		key, fn := "scanner-nontermination", "parser.Scanner.Scan"
		if stage == "S" {
			key, fn = "parse-nontermination", "parser.Parse"
		}
		how := "the process was killed by the address-space limit of " + strconv.Itoa(c18GuardMemKB/1000) + " MB"
		if timedOut {
			how = fmt.Sprintf("no return within %v", c18GuardPerInput)
		}
		first := ""
		for _, l := range strings.Split(stderr.String(), "\n") {
			if strings.TrimSpace(l) != "" {
				first = first + " | " + strings.TrimSpace(l)
				if len(first) > 200 {
					break
				}
			}
		}
		// a child can also die of its environment: only what happens again on the input alone counts
		// (after three confirmed inputs the rest is taken as it comes)
		if !confirm || len(hits) >= 3 || len(c18GuardRange(exe, inputs, []int{idxs[cur]}, false)) > 0 {
			hits = append(hits, c18GuardHit{Index: idxs[cur], Key: key, What: fmt.Sprintf("%s does not terminate on this text (%s%s)", fn, how, first)})
		}
		lo = cur + 1
	}
	return hits
}

// c18Guard runs the pre-pass over all inputs; returns the indices that must not be run in-process
func c18Guard(inputs []c18Input, meta *Meta) map[int]bool {
	exe, err := os.Executable()
	if err != nil {
		panic(err)
	}
	t0 := time.Now()
	n := len(inputs)
	var mu sync.Mutex
	var all []c18GuardHit
	var wg sync.WaitGroup
	for w := 0; w < c18GuardWorkers; w++ {
		var idxs []int
		for i := w; i < n; i += c18GuardWorkers {
			idxs = append(idxs, i)
		}
		wg.Add(1)
		go func() {
			defer wg.Done()
			h := c18GuardRange(exe, inputs, idxs, true)
			mu.Lock()
			all = append(all, h...)
			mu.Unlock()
		}()
	}
	wg.Wait()
	bad := map[int]bool{}
	reported := map[string]int{}
	// deterministic order
	for i := 0; i < n; i++ {
		for _, h := range all {
			if h.Index != i {
				continue
			}
			bad[i] = true
			meta.Distribution["violation:"+h.Key]++
			if reported[h.Key]++; reported[h.Key] <= c18GuardMaxReport {
				c := map[string]interface{}{"kind": "termination", "origin": inputs[i].Origin, "src": inputs[i].Src, "tags": []string{h.Key}}
				if c18NeedsRunes(inputs[i].Src) {
					c["runes"] = fmt.Sprintf("%U", []rune(inputs[i].Src))
				}
				meta.Direct = append(meta.Direct, DirectViolation{Key: h.Key, What: h.What, Case: c})
			}
		}
	}
	meta.Evaluations += n
	meta.Distribution["guard:inputs"] += n
	meta.Notes = append(meta.Notes, fmt.Sprintf("termination pre-pass: %d inputs x 4 modes scanned and parsed in child processes (ulimit -v %d KB, %v per input) in %.1fs; %d did not terminate", n, c18GuardMemKB, c18GuardPerInput, time.Since(t0).Seconds(), len(bad)))
	return bad
}
