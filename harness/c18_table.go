package main

// C18, evaluation identity over a small fixed table: a generated SELECT over wt / wt2 is run with
// query.Select from the tree parser.Parse built and from the tree parsed from its printed text; header
// labels and result rows must be the same.  A structural comparison of the two trees (positions and
// spellings normalised) names the node kind where they part.

import (
	"context"
	"fmt"
	"math"
	"os"
	"reflect"
	"strings"
	"time"

	"github.com/mithrandie/csvq/lib/parser"
	"github.com/mithrandie/csvq/lib/query"
	"github.com/mithrandie/csvq/lib/value"
	"github.com/mithrandie/ternary"
)

type c18TableEval struct {
	sc *Scratch
	tx *query.Transaction
}

func newC18TableEval() *c18TableEval {
	sc := newScratch()
	n := func() *string { return nil }
	writeCSV(sc.Path("wt.csv"), []string{"id", "g", "n", "f", "s"}, [][]*string{
		{sp("1"), sp("a"), sp("0"), sp("1.5"), sp("x")},
		{sp("2"), sp("a"), sp("1"), sp("-2.25"), n()},
		{sp("3"), sp("b"), sp("1"), sp("0"), sp("x y")},
		{sp("4"), sp("b"), sp("-1"), sp("100"), sp("a_b")},
		{sp("5"), n(), sp("2"), n(), sp("")},
		{sp("6"), sp("c"), n(), sp("0.5"), sp("X")},
		{sp("7"), sp("a"), sp("3"), sp("2"), sp("abc")},
		{sp("8"), sp("c"), sp("0"), sp("-0"), sp("%")},
	})
	writeCSV(sc.Path("wt2.csv"), []string{"id", "v"}, [][]*string{
		{sp("1"), sp("0")}, {sp("2"), sp("10")}, {sp("3"), n()}, {sp("5"), sp("-1")}, {sp("9"), sp("1")}, {sp("1"), sp("2")},
	})
	return &c18TableEval{sc: sc, tx: newTx(sc.Dir)}
}

func (e *c18TableEval) Close() { e.sc.Close() }

func c18ShowPrimary(p value.Primary) string {
	switch v := p.(type) {
	case *value.Float:
		return fmt.Sprintf("F:%016x", math.Float64bits(v.Raw()))
	case *value.Datetime:
		return "D:" + v.Raw().Format(time.RFC3339Nano)
	case *value.String:
		return fmt.Sprintf("S:%q", v.Raw())
	case *value.Integer:
		return fmt.Sprintf("I:%d", v.Raw())
	case *value.Null:
		return "NULL"
	}
	return fmt.Sprintf("%T:%s", p, p.String())
}

// run: the result of query.Select as text: header labels, then one line per record; "error" for an
// error of any kind (both trees must fail alike), "panic" / "timeout" likewise
func (e *c18TableEval) run(sq parser.SelectQuery) string {
	ch := make(chan string, 1)
	go func() {
		res := ""
		defer func() {
			if r := recover(); r != nil {
				res = "panic"
			}
			ch <- res
		}()
		scope := query.NewReferenceScope(e.tx)
		_ = scope.DeclareVariableDirectly(parser.Variable{Name: "a"}, value.NewInteger(1))
		_ = scope.DeclareVariableDirectly(parser.Variable{Name: "b"}, value.NewString("x"))
		_ = scope.DeclareVariableDirectly(parser.Variable{Name: "c"}, value.NewNull())
		_ = scope.DeclareVariableDirectly(parser.Variable{Name: "d"}, value.NewFloat(2.5))
		_ = scope.DeclareVariableDirectly(parser.Variable{Name: "var1"}, value.NewInteger(0))
		_ = scope.DeclareVariableDirectly(parser.Variable{Name: "_v"}, value.NewString(""))
		_ = scope.DeclareVariableDirectly(parser.Variable{Name: "\u3042"}, value.NewTernary(ternary.UNKNOWN))
		v, err := query.Select(context.Background(), scope, sq)
		if err != nil {
			res = "error"
			if os.Getenv("C18_DEBUG") != "" {
				fmt.Fprintf(os.Stderr, "TABLE-ERR %s\n", err.Error())
			}
			return
		}
		var b strings.Builder
		for _, h := range v.Header {
			fmt.Fprintf(&b, "[%s|%s]", h.Column, strings.Join(h.Aliases, ","))
		}
		for _, row := range viewRows(v) {
			b.WriteString("\n")
			for j, c := range row {
				if j > 0 {
					b.WriteString(" ; ")
				}
				b.WriteString(c18ShowPrimary(c))
			}
		}
		res = b.String()
	}()
	select {
	case r := <-ch:
		return r
	case <-time.After(10 * time.Second):
		return "timeout"
	}
}

// ---- structural comparison of two syntax trees ----------------------------------------------------------
var (
	c18TokenType = reflect.TypeOf(parser.Token{})
	c18BaseType  = reflect.TypeOf((*parser.BaseExpr)(nil))
	c18PrimType  = reflect.TypeOf(parser.PrimitiveType{})
)

// c18TreeDiff returns the name of the innermost parser node type that contains the first difference
// between a and b ("" = the trees are the same).  Not compared: source positions, the spelling of
// keywords and of literals (the values are compared), letter case of names that String() upper-cases.
func c18TreeDiff(a, b reflect.Value, node string) string {
	if a.IsValid() != b.IsValid() {
		return node
	}
	if !a.IsValid() {
		return ""
	}
	if a.Type() != b.Type() {
		if a.Type().PkgPath() == "github.com/mithrandie/csvq/lib/parser" && a.Kind() == reflect.Struct {
			return a.Type().Name() + "->" + b.Type().Name() // a node of another kind
		}
		return node
	}
	switch a.Kind() {
	case reflect.Interface, reflect.Ptr:
		if a.IsNil() != b.IsNil() {
			return node
		}
		if a.IsNil() || a.Type() == c18BaseType {
			return ""
		}
		if a.Kind() == reflect.Interface {
			if p, ok := a.Interface().(value.Primary); ok {
				q, ok2 := b.Interface().(value.Primary)
				if !ok2 || c18ShowPrimary(p) != c18ShowPrimary(q) {
					return node
				}
				return ""
			}
		}
		return c18TreeDiff(a.Elem(), b.Elem(), node)
	case reflect.Slice:
		if a.Len() != b.Len() {
			return node
		}
		for i := 0; i < a.Len(); i++ {
			if d := c18TreeDiff(a.Index(i), b.Index(i), node); d != "" {
				return d
			}
		}
		return ""
	case reflect.Struct:
		if a.Type() == c18TokenType {
			ta, tb := a.Interface().(parser.Token), b.Interface().(parser.Token)
			if ta.Token != tb.Token || (ta.Token != 0 && !strings.EqualFold(ta.Literal, tb.Literal)) {
				return node
			}
			return ""
		}
		name := node
		if a.Type().PkgPath() == "github.com/mithrandie/csvq/lib/parser" {
			name = a.Type().Name()
		}
		if a.Type() == c18PrimType {
			pa, pb := a.Interface().(parser.PrimitiveType), b.Interface().(parser.PrimitiveType)
			if c18ShowPrimary(pa.Value) != c18ShowPrimary(pb.Value) {
				return name
			}
			return ""
		}
		for i := 0; i < a.NumField(); i++ {
			if a.Type().Field(i).PkgPath != "" {
				continue
			}
			if d := c18TreeDiff(a.Field(i), b.Field(i), name); d != "" {
				return d
			}
		}
		return ""
	case reflect.String:
		if strings.ToUpper(a.String()) != strings.ToUpper(b.String()) {
			return node
		}
		return ""
	case reflect.Bool:
		if a.Bool() != b.Bool() {
			return node
		}
	case reflect.Int, reflect.Int64, reflect.Int32:
		if a.Int() != b.Int() {
			return node
		}
	}
	return ""
}
