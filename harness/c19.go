package main

// C19: csvq never fails internally.
//
//  1. translator/c19 re-extracts the error table / cli.Exit shape / function tables / nil-error sites from
//     the current source; the Coq shard compares the table with Csvq.Model.ExitCode (vm_compute).
//  2. exit-code correspondence: programs that end in a known error class are run through the library
//     (action.Run: error number and Code()) and through build/csvq (exit status); Coq compares both with
//     process_status of the model.
//  3. exploration (DirectViolation with stable keys): corpus, loader fuzzing, boundary sweeps of every
//     built-in function and clause, command line, file-system conditions -- all with the binary, each
//     process under runCmd's limits plus a 1 GB address-space limit of its own.

import (
	"context"
	"crypto/sha1"
	"encoding/json"
	"fmt"
	"math/rand"
	"os"
	"os/exec"
	"path/filepath"
	"regexp"
	"sort"
	"strings"
	"time"

	"github.com/mithrandie/csvq/lib/action"
	"github.com/mithrandie/csvq/lib/query"
)

func init() { runners["C19"] = runC19 }

type c19NilSite struct {
	ID   string `json:"id"`
	File string `json:"file"`
	Line int    `json:"line"`
	Func string `json:"func"`
	Var  string `json:"var"`
	Sel  string `json:"sel"`
	Why  string `json:"why"`
}

type c19ErrRow struct {
	Ctor       string `json:"ctor"`
	Type       string `json:"type"`
	CodeConst  bool   `json:"code_const"`
	Code       int64  `json:"code"`
	CodeExpr   string `json:"code_expr"`
	NumConst   bool   `json:"num_const"`
	Number     int64  `json:"number"`
	NumberExpr string `json:"number_expr"`
}

type c19Facts struct {
	Repo      string       `json:"repo"`
	Errors    []c19ErrRow  `json:"errors"`
	Scalar    []string     `json:"scalar_functions"`
	Aggregate []string     `json:"aggregate_functions"`
	Analytic  []string     `json:"analytic_functions"`
	Flags     []string     `json:"flags"`
	NilSites  []c19NilSite `json:"nil_sites"`
	Problems  []string     `json:"problems"`
}

// the two sites known when the check was written (F-C19-1)
var c19KnownNilSites = map[string]bool{
	"lib/query/load_view.go:cacheViewFromFile:err.Error":          true,
	"lib/query/processor.go:Processor.ExecuteStatement:err.Error": true,
}


// the source tree the harness is built against: the `replace` line of harness/go.mod
func repoPath(root string) string {
	b, err := os.ReadFile(filepath.Join(root, "harness", "go.mod"))
	if err == nil {
		if m := regexp.MustCompile(`(?m)^replace\s+github\.com/mithrandie/csvq\s+=>\s+(\S+)`).FindSubmatch(b); m != nil {
			return string(m[1])
		}
	}
	return "/repo"
}

func runTranslator(root, out string) (*c19Facts, string) {
	build := os.Getenv("VERIF_BUILD")
	if build == "" {
		build = filepath.Join(root, "build")
	}
	bin := filepath.Join(build, "c19facts")
	env := append(os.Environ(), "GOFLAGS=-mod=mod", "GOPROXY=off", "GOSUMDB=off", "GOTOOLCHAIN=local", "CGO_ENABLED=0")
	ctx, cancel := context.WithTimeout(context.Background(), 300*time.Second)
	defer cancel()
	cmd := exec.CommandContext(ctx, "go", "build", "-o", bin, ".")
	cmd.Dir = filepath.Join(root, "translator", "c19")
	cmd.Env = env
	if b, err := cmd.CombinedOutput(); err != nil {
		panic(fmt.Sprintf("C19: cannot build translator/c19: %v\n%s", err, b))
	}
	jsonPath, coqPath := filepath.Join(out, "facts.json"), filepath.Join(out, "Errors.v")
	ctx2, cancel2 := context.WithTimeout(context.Background(), 120*time.Second)
	defer cancel2()
	cmd = exec.CommandContext(ctx2, bin, "-repo", repoPath(root), "-json", jsonPath, "-coq", coqPath)
	if b, err := cmd.CombinedOutput(); err != nil {
		panic(fmt.Sprintf("C19: translator failed: %v\n%s", err, b))
	}
	b, err := os.ReadFile(jsonPath)
	if err != nil {
		panic(err)
	}
	var f c19Facts
	if err := json.Unmarshal(b, &f); err != nil {
		panic(err)
	}
	frag, err := os.ReadFile(coqPath)
	if err != nil {
		panic(err)
	}
	return &f, string(frag)
}

// ---- exit-code triggers -----------------------------------------------------------------------------
type c19Trigger struct {
	Name        string
	SQL         string
	Args        []string // extra command-line arguments for the binary
	Param       *int64   // code written in EXIT n / TRIGGER ERROR n
	KnownNumber int64    // != 0: not run through the library (command-line level, stdin, signals): the error number is stated
	Pre         string
	Stdin       string
	Shell       string // != "": run this sh script instead of csvq (signals); $CSVQ is the binary
}

func i64(v int64) *int64 { return &v }

func c19Triggers() []c19Trigger {
	ts := []c19Trigger{
		{Name: "success", SQL: "SELECT 1"},
		{Name: "success-table", SQL: "SELECT * FROM t"},
		{Name: "exit-0", SQL: "EXIT 0"},
		{Name: "exit", SQL: "EXIT"},
		{Name: "exit-3", SQL: "EXIT 3", Param: i64(3)},
		{Name: "exit-255", SQL: "EXIT 255", Param: i64(255)},
		{Name: "exit-256", SQL: "EXIT 256", Param: i64(256)},
		{Name: "exit-300", SQL: "EXIT 300", Param: i64(300)},
		{Name: "trigger-default", SQL: "TRIGGER ERROR"},
		{Name: "trigger-message", SQL: "TRIGGER ERROR 'boom'"},
		{Name: "trigger-7", SQL: "TRIGGER ERROR 7 'boom'", Param: i64(7)},
		{Name: "trigger-0", SQL: "TRIGGER ERROR 0 'boom'", Param: i64(0)},
		{Name: "trigger-300", SQL: "TRIGGER ERROR 300", Param: i64(300)},
		{Name: "syntax", SQL: "SELEC"},
		{Name: "syntax-unterminated", SQL: "SELECT 'abc"},
		{Name: "field-not-exist", SQL: "SELECT nofield FROM t"},
		{Name: "field-ambiguous", SQL: "SELECT a FROM t, t AS t2"},
		{Name: "field-not-group-key", SQL: "SELECT a, COUNT(*) FROM t"},
		{Name: "duplicate-field-name", SQL: "CREATE TABLE `n.csv` (a, a)"},
		{Name: "not-grouping-records", SQL: "SELECT a FROM t WHERE COUNT(a) > 1"},
		{Name: "analytic-not-allowed", SQL: "SELECT a FROM t WHERE ROW_NUMBER() OVER () = 1"},
		{Name: "nested-aggregate", SQL: "SELECT SUM(SUM(a)) FROM t"},
		{Name: "invalid-value-expression", SQL: "SELECT (1, 2)"},
		{Name: "undeclared-variable", SQL: "SELECT @undeclared"},
		{Name: "variable-redeclared", SQL: "VAR @a; VAR @a;"},
		{Name: "undefined-constant", SQL: "SELECT NO::CONSTANT"},
		{Name: "invalid-url", SQL: "SELECT * FROM URL::('::')"},
		{Name: "unsupported-url-scheme", SQL: "SELECT * FROM URL::('ftp://example.com/x.csv')"},
		{Name: "function-not-exist", SQL: "SELECT NOFUNC(1)"},
		{Name: "function-arguments-length", SQL: "SELECT ABS()"},
		{Name: "function-arguments-length-custom", SQL: "SELECT JSON_OBJECT() FROM t GROUP BY a, b, c HAVING COUNT(1, 2) > 0"},
		{Name: "function-invalid-argument", SQL: "SELECT RAND(2, 1)"},
		{Name: "function-redeclared", SQL: "DECLARE f FUNCTION () AS BEGIN RETURN 1; END; DECLARE f FUNCTION () AS BEGIN RETURN 1; END;"},
		{Name: "built-in-function-declared", SQL: "DECLARE abs FUNCTION () AS BEGIN RETURN 1; END;"},
		{Name: "duplicate-parameter", SQL: "DECLARE f FUNCTION (@a, @a) AS BEGIN RETURN 1; END;"},
		{Name: "subquery-too-many-records", SQL: "SELECT (SELECT a FROM t)"},
		{Name: "subquery-too-many-fields", SQL: "SELECT (SELECT a, b FROM t LIMIT 1)"},
		{Name: "json-query-too-many-records", SQL: "SELECT JSON_ROW('[]{a}', '[{\"a\":1},{\"a\":2}]')"},
		{Name: "load-json", SQL: "SELECT * FROM JSON('', `t.csv`)"},
		{Name: "json-lines-structure", SQL: "SELECT * FROM `bad.jsonl`"},
		{Name: "lateral-usage", SQL: "SELECT * FROM t t1 RIGHT JOIN LATERAL (SELECT 1) x ON 1 = 1"},
		{Name: "invalid-table-object", SQL: "SELECT * FROM CSV('ab', t)"},
		{Name: "invalid-delimiter-positions", SQL: "SELECT * FROM FIXED('x', t)"},
		{Name: "invalid-json-query-object", SQL: "SELECT * FROM JSON('{', t)"},
		{Name: "table-object-arguments-length", SQL: "SELECT * FROM CSV(',', t, 'UTF8', TRUE, TRUE, 1)"},
		{Name: "table-object-json-arguments-length", SQL: "SELECT * FROM JSON('', t, 'UTF8')"},
		{Name: "table-object-invalid-argument", SQL: "SELECT * FROM CSV(',', t, 'NOENC')"},
		{Name: "cursor-redeclared", SQL: "DECLARE c CURSOR FOR SELECT 1; DECLARE c CURSOR FOR SELECT 1;"},
		{Name: "undeclared-cursor", SQL: "OPEN nocur"},
		{Name: "cursor-closed", SQL: "VAR @a; DECLARE c CURSOR FOR SELECT 1; FETCH c INTO @a;"},
		{Name: "cursor-open", SQL: "DECLARE c CURSOR FOR SELECT 1; OPEN c; OPEN c;"},
		{Name: "invalid-cursor-statement", SQL: "PREPARE s FROM 'INSERT INTO t VALUES (1, 2, 3)'; DECLARE c CURSOR FOR s; OPEN c;"},
		{Name: "pseudo-cursor", SQL: "DECLARE f AGGREGATE (c) AS BEGIN OPEN c; RETURN 1; END; SELECT f(a) FROM t"},
		{Name: "cursor-fetch-length", SQL: "VAR @a; DECLARE c CURSOR FOR SELECT 1, 2; OPEN c; FETCH c INTO @a;"},
		{Name: "invalid-fetch-position", SQL: "VAR @a; DECLARE c CURSOR FOR SELECT 1; OPEN c; FETCH ABSOLUTE 'x' c INTO @a;"},
		{Name: "inline-table-redefined", SQL: "WITH x AS (SELECT 1), x AS (SELECT 2) SELECT * FROM x"},
		{Name: "inline-table-field-length", SQL: "WITH x (a) AS (SELECT 1, 2) SELECT * FROM x"},
		{Name: "file-name-ambiguous", SQL: "SELECT * FROM amb"},
		{Name: "data-parsing", SQL: "SELECT * FROM `bad.csv`"},
		{Name: "data-encoding", SQL: "SELECT 1 AS `a.b`, 2 AS `a`", Args: []string{"-f", "JSON"}},
		{Name: "table-field-length", SQL: "CREATE TABLE `n.csv` (a) AS SELECT 1, 2"},
		{Name: "view-redeclared", SQL: "DECLARE v VIEW (a); DECLARE v VIEW (a);"},
		{Name: "view-undeclared", SQL: "DISPOSE VIEW nov"},
		{Name: "view-field-length", SQL: "DECLARE v VIEW (a) AS SELECT 1, 2"},
		{Name: "duplicate-table-name", SQL: "SELECT * FROM t, t"},
		{Name: "table-not-loaded", SQL: "ALTER TABLE STDIN SET FORMAT TO 'CSV'"},
		{Name: "stdin-empty", SQL: "SELECT * FROM STDIN", KnownNumber: 11603},
		{Name: "inline-table-cannot-be-updated", SQL: "WITH x AS (SELECT 1 AS a) UPDATE x SET a = 2"},
		{Name: "alias-for-update", SQL: "UPDATE FILE::('t.csv') SET a = 1"},
		{Name: "row-value-length-comparison", SQL: "SELECT (1, 2) = (1, 2, 3)"},
		{Name: "field-length-comparison", SQL: "SELECT (1, 2) = (SELECT a FROM t LIMIT 1)"},
		{Name: "invalid-limit-percentage", SQL: "SELECT * FROM t LIMIT 'a' PERCENT"},
		{Name: "invalid-limit-number", SQL: "SELECT * FROM t LIMIT 'a'"},
		{Name: "invalid-offset-number", SQL: "SELECT * FROM t OFFSET 'a'"},
		{Name: "combined-set-field-length", SQL: "SELECT 1 UNION SELECT 1, 2"},
		{Name: "recursion-exceeded", SQL: "SET @@LIMIT_RECURSION TO 5; WITH RECURSIVE r (n) AS (SELECT 1 UNION ALL SELECT n + 1 FROM r) SELECT * FROM r"},
		{Name: "nested-recursion", SQL: "WITH RECURSIVE r (n) AS (SELECT 1 UNION ALL SELECT n + 1 FROM r WHERE n IN (SELECT n FROM r)) SELECT * FROM r"},
		{Name: "insert-row-value-length", SQL: "INSERT INTO t VALUES (1)"},
		{Name: "insert-select-field-length", SQL: "INSERT INTO t SELECT 1"},
		{Name: "update-field-not-exist", SQL: "UPDATE t SET nofield = 1"},
		{Name: "update-value-ambiguous", SQL: "UPDATE t SET a = e2.a FROM t JOIN t AS e2 ON TRUE"},
		{Name: "delete-table-not-specified", SQL: "DELETE FROM t JOIN e ON TRUE"},
		{Name: "show-invalid-object", SQL: "SHOW NOOBJECTS"},
		{Name: "replace-value-length", SQL: "SELECT * FROM t WHERE a = ?"},
		{Name: "source-invalid-path", SQL: "SOURCE 1"},
		{Name: "invalid-flag-name", SQL: "SET @@NOFLAG TO 1"},
		{Name: "flag-value-format", SQL: "SET @@CPU TO 'abc'"},
		{Name: "invalid-flag-value", SQL: "SET @@IMPORT_FORMAT TO 'XYZ'"},
		{Name: "add-flag-unsupported", SQL: "ADD 'x' TO @@CPU"},
		{Name: "remove-flag-unsupported", SQL: "REMOVE 'x' FROM @@CPU"},
		{Name: "remove-flag-invalid-value", SQL: "REMOVE TRUE FROM @@DATETIME_FORMAT"},
		{Name: "invalid-runtime-information", SQL: "SELECT @#NOINFO"},
		{Name: "not-table", SQL: "DECLARE v VIEW (a); ALTER TABLE v SET FORMAT TO 'CSV'"},
		{Name: "invalid-table-attribute-name", SQL: "ALTER TABLE t SET NOATTR TO 1"},
		{Name: "table-attribute-value-format", SQL: "ALTER TABLE t SET FORMAT TO NULL"},
		{Name: "invalid-table-attribute-value", SQL: "ALTER TABLE t SET FORMAT TO 'XYZ'"},
		{Name: "invalid-event-name", SQL: "TRIGGER NOEVENT"},
		{Name: "field-length-not-match", SQL: "ALTER TABLE t ADD (x, y) AFTER nofield"},
		{Name: "row-value-length-in-list", SQL: "SELECT 1 FROM t WHERE (a, b) IN ((1, 'x'), (2))"},
		{Name: "format-length", SQL: "SELECT FORMAT('%s')"},
		{Name: "format-placeholder", SQL: "SELECT FORMAT('%z', 1)"},
		{Name: "format-termination", SQL: "SELECT FORMAT('%', 1)"},
		{Name: "external-command", SQL: "SELECT CALL('csvqv-no-such-command-xyz')"},
		{Name: "invalid-reload-type", SQL: "RELOAD NOTHING"},
		{Name: "duplicate-statement-name", SQL: "PREPARE s FROM 'SELECT 1'; PREPARE s FROM 'SELECT 1';"},
		{Name: "statement-not-exist", SQL: "EXECUTE nostmt"},
		{Name: "statement-value-not-specified", SQL: "PREPARE s FROM 'SELECT ?'; EXECUTE s;"},
		{Name: "prepared-syntax", SQL: "PREPARE s FROM 'SELEC'"},
		{Name: "replace-key-not-set", SQL: "REPLACE INTO t (a, b, c) USING (nokey) VALUES (1, 2, 3)"},
		{Name: "select-into-field-length", SQL: "VAR @x; SELECT a, b INTO @x FROM t LIMIT 1"},
		{Name: "select-into-too-many", SQL: "VAR @x; SELECT a INTO @x FROM t"},
		{Name: "integer-divided-by-zero", SQL: "SELECT 1 / 0"},
		{Name: "file-not-exist", SQL: "SELECT * FROM nofile"},
		{Name: "file-already-exist", SQL: "CREATE TABLE `t.csv` (a)"},
		{Name: "file-unable-to-read", SQL: "SELECT * FROM `dir.csv`"},
		{Name: "invalid-path", SQL: "CHDIR 'nodir'", KnownNumber: 90180},
		{Name: "io-error-source-dir", SQL: "SOURCE `dir.csv`"},
		{Name: "out-exists", SQL: "SELECT 1", Args: []string{"-o", "t.csv"}, KnownNumber: 90182},
		{Name: "lock-timeout", SQL: "UPDATE t SET a = 1", Args: []string{"-w", "0.3"}, Pre: ": > .t.csv.lock", KnownNumber: 90082},
		{Name: "usage-unknown-option", SQL: "SELECT 1", Args: []string{"--bogus"}, KnownNumber: 90020},
		{Name: "usage-two-arguments", SQL: "SELECT 1", Args: []string{"SELECT 2"}, KnownNumber: 90020},
		{Name: "usage-bad-delimiter", SQL: "SELECT 1", Args: []string{"-d", "ab"}, KnownNumber: 90020},
		{Name: "usage-bad-cpu", SQL: "SELECT 1", Args: []string{"--cpu", "abc"}, KnownNumber: 90020},
		{Name: "usage-source-and-argument", SQL: "SELECT 1", Args: []string{"-s", "t.csv"}, KnownNumber: 90020},
		{Name: "signal-int", KnownNumber: 91280 + 2, Shell: `"$CSVQ" "VAR @i := 0; WHILE TRUE DO @i := @i + 1; END WHILE" & pid=$!; sleep 0.7; kill -INT $pid; wait $pid`},
		{Name: "signal-term", KnownNumber: 91280 + 15, Shell: `"$CSVQ" "VAR @i := 0; WHILE TRUE DO @i := @i + 1; END WHILE" & pid=$!; sleep 0.7; kill -TERM $pid; wait $pid`},
	}
	return ts
}

func c19TriggerFiles(dir string) {
	w := func(name, content string) {
		if err := os.WriteFile(filepath.Join(dir, name), []byte(content), 0644); err != nil {
			panic(err)
		}
	}
	w("t.csv", c19TableCSV)
	w("e.csv", c19EmptyCSV)
	w("amb.csv", "a\n1\n")
	w("amb.tsv", "a\n1\n")
	w("bad.csv", "a,b\n1,2,3\n")
	w("bad.jsonl", "1\n2\n")
	_ = os.Mkdir(filepath.Join(dir, "dir.csv"), 0755)
}

// run a program the way csvq's main action does, in-process: returns (number, code) of the error;
// number 0 = success, -1 = error that is not a query.Error
func c19LibraryRun(dir, sql string) (number int64, code int64, hasCode bool, msg string) {
	tx := newTx(dir)
	proc := query.NewProcessor(tx)
	defer func() {
		_ = proc.AutoRollback()
		_ = proc.ReleaseResourcesWithErrors()
	}()
	ctx, cancel := context.WithTimeout(context.Background(), 10*time.Second)
	defer cancel()
	err := action.Run(ctx, proc, sql, "", "")
	if err == nil {
		return 0, 0, false, ""
	}
	if qe, ok := err.(query.Error); ok {
		return int64(qe.Number()), int64(qe.Code()), true, err.Error()
	}
	return -1, 0, false, err.Error()
}

func coqOptZ64(p *int64) string {
	if p == nil {
		return "None"
	}
	return "(Some " + coqZ(*p) + ")"
}

// ---- the run -------------------------------------------------------------------------------------------
func runC19(seed int64, tier string, out string) {
	t0 := time.Now()
	r := rand.New(rand.NewSource(seed))
	meta := newMeta("C19", seed)
	root := verifRoot()
	defer cleanupPublicBinary()

	facts, fragment := runTranslator(root, out)
	for _, p := range facts.Problems {
		meta.Notes = append(meta.Notes, "translator: "+p)
	}

	w := &shardWriter{dir: out, prop: "C19", max: 1 << 30, meta: meta,
		header: "From Coq Require Import ZArith NArith List Bool.\nImport ListNotations.\nFrom Csvq.Model Require Import ExitCode.\nFrom Csvq.Harness Require Import H19.\nLocal Open Scope Z_scope.\n" + fragment,
		footer: func(ls []string) string {
			name := func(prefix string) string {
				for _, l := range ls {
					if strings.HasPrefix(l, prefix+":") {
						return prefix
					}
				}
				return "[]"
			}
			return fmt.Sprintf("Definition M := Eval vm_compute in (check_all extracted_errors extracted_exit extracted_return_codes extracted_orphans extracted_problems %s %s %s).\nPrint M.\n",
				name("tcases"), name("statuses"), name("nil_sites"))
		}}

	// --- extracted table rows as replayable cases
	for i, e := range facts.Errors {
		meta.Cases[fmt.Sprint(100000+i)] = map[string]interface{}{"what": "error constructor extracted from lib/query/error.go", "row": e}
	}
	meta.Cases["300000"] = map[string]interface{}{"what": "shape of cli.Exit in lib/cli/app.go / of the panic capture in Processor.execute differs from the model (Model/ExitCode.v model_exit); see gen/C19/facts.json"}
	meta.Cases["300001"] = map[string]interface{}{"what": "ReturnCode… constants of lib/query/error_code.go differ from the model"}
	meta.Cases["300002"] = map[string]interface{}{"what": "set of error struct types that no constructor builds differs from the model (model_orphans)"}
	meta.Cases["300003"] = map[string]interface{}{"what": "the translator could not interpret part of the source", "problems": facts.Problems}
	meta.Evaluations += len(facts.Errors) + 4
	meta.Distribution["table:constructors"] = len(facts.Errors)

	// --- nil-error sites
	for i, s := range facts.NilSites {
		id := 400000 + i
		c := map[string]interface{}{"what": "selector on an error variable that is provably nil here (translator/c19/nilsites.go)", "site": s}
		if c19KnownNilSites[s.ID] {
			c["tags"] = []string{"nil-err-dereference"}
		}
		meta.Cases[fmt.Sprint(id)] = c
		w.add("nil_sites:N", coqN(id))
		meta.Distribution["nil-site"]++
	}
	meta.Evaluations += len(facts.NilSites)

	// --- exit-code triggers
	reached := map[int64]bool{}
	tid := 500000
	sc := newScratch()
	for _, tr := range c19Triggers() {
		tid++
		var number, code int64
		hasCode := false
		msg := ""
		if tr.KnownNumber != 0 {
			number = tr.KnownNumber
		} else {
			d := filepath.Join(sc.Dir, fmt.Sprintf("lib%d", tid))
			_ = os.Mkdir(d, 0755)
			c19TriggerFiles(d)
			number, code, hasCode, msg = c19LibraryRun(d, tr.SQL)
		}
		d := filepath.Join(sc.Dir, fmt.Sprintf("bin%d", tid))
		_ = os.Mkdir(d, 0755)
		c19TriggerFiles(d)
		var res RunResult
		if tr.Shell != "" {
			res = runCmd(d, []string{"/bin/sh", "-c", "ulimit -v 1000000\nCSVQ=" + csvqBinary() + "\n" + tr.Shell}, "", 15*time.Second)
		} else {
			pre := ""
			if tr.Pre != "" {
				pre = tr.Pre + "\n"
			}
			if tr.Stdin == "" {
				pre = "exec </dev/null\n" + pre
			}
			argv := append([]string{"/bin/sh", "-c", "ulimit -v 1000000\n" + pre + "exec \"$@\"", "sh", csvqBinary()}, tr.Args...)
			argv = append(argv, tr.SQL)
			res = runCmd(d, argv, tr.Stdin, 15*time.Second)
		}
		status := int64(res.Code)
		if res.TimedOut {
			status = -2
		}
		reached[number] = true
		libCode := "None"
		if hasCode {
			libCode = "(Some " + coqZ(code) + ")"
		}
		w.add("tcases:tcase", fmt.Sprintf("mkT %s %s %s %s %s", coqN(tid), coqZ(number), coqOptZ64(tr.Param), libCode, coqZ(status)))
		meta.Cases[fmt.Sprint(tid)] = map[string]interface{}{"trigger": tr.Name, "program": tr.SQL, "args": tr.Args, "pre": tr.Pre, "shell": tr.Shell,
			"library_error_number": number, "library_code": code, "library_message": msg, "binary_status": status, "binary_stderr": truncate(res.Stderr, 300)}
		meta.Distribution[fmt.Sprintf("trigger:status=%d", status)]++
		meta.Evaluations++
		if len(meta.Samples) < 2 && number > 0 {
			meta.Samples = append(meta.Samples, meta.Cases[fmt.Sprint(tid)])
		}
	}
	sc.Close()
	delete(reached, 0)
	meta.Distribution["trigger:distinct-error-numbers-reached"] = len(reached)

	// --- exploration
	workers := 16
	nLoader := 2000
	if tier == "thorough" {
		nLoader = 60000
	}
	var probes []*Probe
	corpus := loadCorpus(root)
	for _, p := range corpus {
		if p.Group == "" {
			p.Group = "corpus"
		}
	}
	probes = append(probes, corpus...)
	probes = append(probes, genFSConditions(tier, os.Geteuid() != 0 || haveSetpriv(), &meta.Notes)...)
	probes = append(probes, genCLISweep(r, tier)...)
	probes = append(probes, genClauseSweep(r, facts, tier)...)
	probes = append(probes, genAggregateSweep(r, facts, tier)...)
	probes = append(probes, genLoaderFuzz(r, nLoader)...)
	probes = append(probes, genLoaderSizes(r, tier)...)
	probes = append(probes, genFormatSweep(r, tier)...)
	probes = append(probes, genTableFormPrograms(r, tier)...)
	arity := genArityProbes(facts)
	results := runProbes(append(probes, arity...), workers)
	phase2 := genFunctionSweep(r, facts, tier, acceptedArities(results[len(probes):]))
	results = append(results, runProbes(phase2, workers)...)
	probes = append(append(probes, arity...), phase2...)

	distinct := map[[20]byte]bool{}
	statusSeen := map[int]*Probe{}
	perKey := map[string]int{}
	for _, pr := range results {
		p := pr.P
		meta.Evaluations++
		distinct[sha1.Sum([]byte(p.signature()))] = true
		verdict := "clean-ok"
		if pr.Key != "" {
			verdict = "FAILURE"
		} else if pr.Status != 0 {
			verdict = "clean-error"
		}
		meta.Distribution[p.Group+":"+verdict]++
		meta.Distribution[fmt.Sprintf("status=%d", pr.Status)]++
		if p.Group == "clause" || p.Group == "fs" {
			meta.Distribution[fmt.Sprintf("%s/%s:status=%d", p.Group, p.Hint, pr.Status)]++
		}
		if pr.Key == "" && !p.AnyStatus {
			if _, ok := statusSeen[pr.Status]; !ok {
				statusSeen[pr.Status] = p
			}
		}
		if pr.Key != "" {
			perKey[pr.Key]++
			if perKey[pr.Key] <= 3 { // a few witnesses per key are enough
				meta.Direct = append(meta.Direct, DirectViolation{Key: pr.Key, What: fmt.Sprintf("[%s/%s] %s", p.Group, p.Hint, pr.What),
					Case: map[string]interface{}{"probe": p, "status": pr.Status, "timed_out": pr.R.TimedOut, "stderr": truncate(pr.R.Stderr, 600), "stdout": truncate(pr.R.Stdout, 300), "replay_shell": shellReplay(p)}})
			}
		}
		if len(meta.Samples) < 6 && !strings.HasPrefix(p.Note, "corpus/") && (len(meta.Samples)%2 == 0) == (pr.Status == 0) {
			meta.Samples = append(meta.Samples, map[string]interface{}{"group": p.Group, "hint": p.Hint, "args": truncateArgs(p.Args), "stdin": truncate(p.stdinBytes(), 80), "status": pr.Status, "stderr": truncate(pr.R.Stderr, 120)})
		}
	}
	keys := make([]string, 0, len(perKey))
	for k := range perKey {
		keys = append(keys, k)
	}
	sort.Strings(keys)
	for _, k := range keys {
		meta.Distribution["finding:"+k] = perKey[k]
	}
	// distinct exit statuses of clean runs -> Coq (status_documented)
	sts := make([]int, 0, len(statusSeen))
	for s := range statusSeen {
		sts = append(sts, s)
	}
	sort.Ints(sts)
	for i, s := range sts {
		id := 600000 + i
		p := statusSeen[s]
		w.add("statuses:(N * Z)", fmt.Sprintf("(%s, %s)", coqN(id), coqZ(int64(s))))
		meta.Cases[fmt.Sprint(id)] = map[string]interface{}{"what": fmt.Sprintf("a run ended with exit status %d", s), "probe": p, "replay_shell": shellReplay(p)}
	}
	w.flush()

	// --- fixed-length loader: model vs implementation
	nFixed := 500
	if tier == "thorough" {
		nFixed = 12000
	}
	fw := &shardWriter{dir: out, prop: "C19", max: 1200, meta: meta, k: 1,
		header: "Require Import Csvq.Model.Base Csvq.Model.Value Csvq.Model.Conv Csvq.Model.Fixed Csvq.Harness.H19Fixed.\nOpen Scope list_scope.\n",
		footer: func(ls []string) string {
			return "Definition M := Eval vm_compute in (check_fixed fcases).\nPrint M.\n"
		}}
	fcs := genFixedCases(r, nFixed, 700000)
	fps := make([]*Probe, len(fcs))
	for i, c := range fcs {
		fps[i] = c.Probe
	}
	fres := runProbes(fps, workers)
	for i, c := range fcs {
		pr := fres[i]
		meta.Evaluations++
		distinct[sha1.Sum([]byte(c.Probe.signature()))] = true
		if pr.R.Code != 0 && strings.Contains(pr.R.Stderr, "is ambiguous") {
			// two header names coincide: SELECT * refuses the table before printing anything -- outside the fragment
			meta.Distribution["fixed:skipped-duplicate-header"]++
			continue
		}
		term, shown := coqFixedCase(c, pr.R)
		fw.add("fcases:fcase", term)
		meta.Cases[fmt.Sprint(c.ID)] = shown
		if pr.R.Code == 0 {
			meta.Distribution["fixed:table"]++
		} else {
			meta.Distribution["fixed:error"]++
		}
		if c.Single {
			meta.Distribution["fixed:single-line"]++
		}
		if pr.Key != "" && !strings.HasSuffix(pr.Key, ":non-rectangular") { // shape is judged in Coq (kind 8)
			meta.Direct = append(meta.Direct, DirectViolation{Key: pr.Key, What: "[fixed] " + pr.What, Case: shown})
		}
	}
	fw.flush()

	meta.Distinct = len(distinct)
	meta.Rule = "one evaluation = one csvq process (fresh scratch directory, 10 s wall clock, 1 GB address space) or one row of the extracted error table / one nil-error site / one exit-code trigger. " +
		"Inputs: corpus/C19 first; file-system conditions; every command-line option x boundary values; every clause / statement kind x boundary literals (0, 1, -1, int64 min/max, 2^31, 2^63, 1e308, NULL, '', strings, 10 000-char string, booleans, datetimes); " +
		"every name of the Functions / AggregateFunctions / AnalyticFunctions tables (extracted from the source at run time) x 0..6 arguments from the boundary set (all singletons, a cross product of pairs, random triples), aggregate / analytic / window-frame forms; " +
		"loader fuzzing: mutated / structured / random / cross-format byte strings as CSV, TSV, FIXED, LTSV, JSON, JSONL through STDIN, files and table objects x delimiter, delimiter positions, encoding (really encoded or merely declared), no-header, allow-uneven-fields, without-null, json-query, incl. invalid option values; the little languages inside string arguments (FORMAT directives flag x width x precision x verb against values of every class, DATETIME_FORMAT directives, regular expressions, JSON queries); programs of two statements that reach one file through different table forms (identifier, quoted path, table objects, INLINE::, FILE::, subquery) after it was loaded / updated / locked / created; regular tables of 1..1000 rows around the loaders' size thresholds (150, 300/301) in CSV/TSV/LTSV/FIXED x UTF-8 / Shift_JIS / UTF-16 (kanji, half-width katakana: text that grows when decoded) x --cpu 1..16. " +
		"Fixed-length correspondence: random valid-UTF-8 texts (ASCII, multi-byte, Unicode spaces, LF/CRLF/CR, empty lines, trailing CR) x strictly ascending position lists x single-line / no-header / without-null, SELECT * FROM FIXED(...) of the binary vs Model.Fixed.fixed_load. " +
		"Pass: exit 0, or a documented status with a non-empty message; no 'Fatal Error' / panic / goroutine dump / Go fatal error, no timeout, no death by signal; SELECT * output (CSV --enclose-all or JSON) rectangular. " +
		"distinct = distinct (arguments, stdin, files, pre-condition) inputs by SHA-1."
	meta.Notes = append(meta.Notes, fmt.Sprintf("harness wall %.1fs, %d processes, %d workers", time.Since(t0).Seconds(), len(probes), workers))
	meta.write(out)
}

func truncate(s string, n int) string {
	if len(s) > n {
		return s[:n] + "…"
	}
	return s
}

func truncateArgs(a []string) []string {
	out := make([]string, len(a))
	for i, s := range a {
		out[i] = truncate(s, 200)
	}
	return out
}
