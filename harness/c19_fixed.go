package main

// C19, fixed-length loader correspondence: build/csvq on SELECT * FROM FIXED('[…]', file, 'UTF8', no_header,
// without_null) vs Csvq.Model.Fixed.fixed_load, compared inside Coq (Harness/H19Fixed.v).
//
// Fragment (DESIGN.md section 14): valid UTF-8 text; explicit, strictly ascending, positive position lists
// (at least one position); both line modes; no automatic SPACES detection.  Everything outside the fragment
// is only fuzzed for "no internal failure" (c19_gen.go).

import (
	"fmt"
	"math/rand"
	"strings"
)

type fixedCase struct {
	ID                   int
	Positions            []int
	Single, NoHeader, WN bool
	Input                string
	Probe                *Probe
}

var c19FixedAlphabet = []rune{'a', 'b', 'c', 'Z', '1', '2', '0', ' ', ' ', ' ', '\t', '\u00e9', '\u3042', '\u3000', '"', ',', '|', '\u0085', '\u00a0', '\U0001D11E', '_', '@'}

func genFixedLine(r *rand.Rand) string {
	n := r.Intn(12)
	ascii := r.Intn(5) > 0 // most lines are ASCII only: a multi-byte rune across a position is an error
	var b strings.Builder
	for i := 0; i < n; i++ {
		c := c19FixedAlphabet[r.Intn(len(c19FixedAlphabet))]
		if ascii && c >= 0x80 {
			c = ' '
		}
		b.WriteRune(c)
	}
	return b.String()
}

func genFixedCases(r *rand.Rand, n int, firstID int) []*fixedCase {
	var cs []*fixedCase
	for i := 0; i < n; i++ {
		c := &fixedCase{ID: firstID + i}
		np := 1 + r.Intn(4)
		pos := 0
		for j := 0; j < np; j++ {
			pos += 1 + r.Intn(5)
			c.Positions = append(c.Positions, pos)
		}
		c.Single, c.NoHeader, c.WN = r.Intn(4) == 0, r.Intn(3) == 0, r.Intn(2) == 0
		var b strings.Builder
		lines := r.Intn(5)
		for l := 0; l < lines; l++ {
			switch r.Intn(8) {
			case 0: // empty line
			case 1: // a line of ASCII exactly filling the positions
				b.WriteString("abcdefghijklmnopqrstuvwxyz"[:c.Positions[len(c.Positions)-1]])
			default:
				b.WriteString(genFixedLine(r))
			}
			if l < lines-1 || r.Intn(3) > 0 {
				b.WriteString([]string{"\n", "\n", "\r\n", "\r"}[r.Intn(4)])
			}
		}
		c.Input = b.String()
		ps := make([]string, len(c.Positions))
		for j, p := range c.Positions {
			ps[j] = fmt.Sprint(p)
		}
		spec := "[" + strings.Join(ps, ",") + "]"
		if c.Single {
			spec = "S" + spec
		}
		bl := func(x bool) string {
			if x {
				return "TRUE"
			}
			return "FALSE"
		}
		p := &Probe{Group: "fixed", Hint: "FIXED", Arg: spec, Shape: "CSV"}
		p.addFile("in.txt", []byte(c.Input))
		p.Args = []string{"-f", "CSV", "--enclose-all", fmt.Sprintf("SELECT * FROM FIXED('%s', `in.txt`, 'UTF8', %s, %s)", spec, bl(c.NoHeader), bl(c.WN))}
		c.Probe = p
		cs = append(cs, c)
	}
	return cs
}

// CSV as printed with --enclose-all, keeping NULL (unquoted empty) apart from "" (quoted empty)
func parseCSVOutputCells(s string) ([][]*string, bool) {
	s = strings.TrimSuffix(s, "\n")
	if s == "" {
		return nil, true
	}
	var recs [][]*string
	var rec []*string
	var cur strings.Builder
	inQ, quoted := false, false
	flush := func() {
		if !quoted && cur.Len() == 0 {
			rec = append(rec, nil)
		} else {
			v := cur.String()
			rec = append(rec, &v)
		}
		cur.Reset()
		quoted = false
	}
	for i := 0; i < len(s); i++ {
		c := s[i]
		switch {
		case inQ && c == '"' && i+1 < len(s) && s[i+1] == '"':
			cur.WriteByte('"')
			i++
		case inQ && c == '"':
			inQ = false
		case inQ:
			cur.WriteByte(c)
		case c == '"':
			inQ, quoted = true, true
		case c == ',':
			flush()
		case c == '\n':
			flush()
			recs = append(recs, rec)
			rec = nil
		default:
			cur.WriteByte(c)
		}
	}
	flush()
	recs = append(recs, rec)
	return recs, !inQ
}

func c19CoqOptStr(p *string) string {
	if p == nil {
		return "None"
	}
	return "(Some " + coqStr(*p) + ")"
}

func coqFixedCase(c *fixedCase, r RunResult) (term string, shown map[string]interface{}) {
	ps := make([]string, len(c.Positions))
	for i, p := range c.Positions {
		ps[i] = coqZ(int64(p))
	}
	obs := "ObsErr"
	var shownObs interface{} = fmt.Sprintf("error (status %d): %s", r.Code, truncate(r.Stderr, 200))
	if r.Code == 0 && !r.TimedOut {
		recs, ok := parseCSVOutputCells(r.Stdout)
		if ok && len(recs) > 0 {
			hs := make([]string, len(recs[0]))
			for i, h := range recs[0] {
				if h == nil {
					hs[i] = "[]"
				} else {
					hs[i] = coqStr(*h)
				}
			}
			rows := make([]string, 0, len(recs)-1)
			for _, rec := range recs[1:] {
				cells := make([]string, len(rec))
				for i, x := range rec {
					cells[i] = c19CoqOptStr(x)
				}
				rows = append(rows, coqList(cells))
			}
			obs = "(ObsTable " + coqList(hs) + " " + coqList(rows) + ")"
			shownObs = r.Stdout
		} else {
			obs = "(ObsTable [] [[None]])" // unparseable output: can never equal the model's table
			shownObs = "unparseable: " + truncate(r.Stdout, 200)
		}
	}
	term = fmt.Sprintf("mkF %s %s %s %s %s %s %s", coqN(c.ID), coqList(ps), coqBool(c.Single), coqBool(c.NoHeader), coqBool(c.WN), coqStr(c.Input), obs)
	shown = map[string]interface{}{"positions": c.Positions, "single_line": c.Single, "no_header": c.NoHeader, "without_null": c.WN,
		"input": c.Input, "query": c.Probe.Args[len(c.Probe.Args)-1], "observed": shownObs, "replay_shell": shellReplay(c.Probe)}
	return
}
