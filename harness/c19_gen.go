package main

// C19 generators: loader fuzzing, boundary sweeps of built-in functions and clauses, command-line and
// file-system conditions.  Everything random comes from the one *rand.Rand of the run.

import (
	"bytes"
	"encoding/binary"
	"fmt"
	"math/rand"
	"strings"
	"unicode/utf16"
)

// ---- boundary values ---------------------------------------------------------------------------------
var c19Long = "'" + strings.Repeat("a", 10000) + "'"

var c19Vals = []string{
	"0", "1", "-1", "2", "9223372036854775807", "-9223372036854775808", "9223372036854775808", "1e308", "-1e308",
	"0.5", "-0.5", "1.5", "NULL", "''", "'abc'", "'1'", "'-1'", "TRUE", "FALSE", "'2012-02-03 09:18:15'", "'NaN'", "'Inf'",
	"' '", "'%'", "'['", `'{"a":[1,2]}'`, `'\'`, "'あいう'", "2147483648", "-2147483649", "1e-320", "'1e400'", "'0x10'", "(1/3)", "@null",
}

// the reduced set used for argument pairs and triples
var c19Small = []string{"0", "1", "-1", "9223372036854775807", "-9223372036854775808", "1e308", "NULL", "''", "'abc'", "TRUE", "'2012-02-03 09:18:15'", "2147483648"}

func isHugeLit(v string) bool {
	return strings.Contains(v, "92233720368547758") || strings.Contains(v, "e308") || strings.Contains(v, "2147483648") || strings.Contains(v, "2147483649")
}

// hostile: shapes that are known to allocate without bound (F-C19-5); they are run once, from the corpus
func hostileCall(fn string, args []string) bool {
	if fn == "NUMBER_FORMAT" && len(args) >= 2 && isHugeLit(args[1]) {
		return true
	}
	return false
}

var c19TableCSV = "a,b,c\n1,x,1.5\n2,y,\n2,z,-3\n3,,0\n"
var c19EmptyCSV = "a,b,c\n"

func sqlProbe(group, hint, sql string, extra ...string) *Probe {
	p := &Probe{Group: group, Hint: hint, Args: append(append([]string{}, extra...), sql)}
	p.addFile("t.csv", []byte(c19TableCSV))
	p.addFile("e.csv", []byte(c19EmptyCSV))
	return p
}

func withArg(p *Probe, arg string) *Probe {
	p.Arg = arg
	return p
}

func pick(r *rand.Rand, xs []string) string { return xs[r.Intn(len(xs))] }

// ---- (b1) built-in functions ---------------------------------------------------------------------------
func funcProbe(fn string, args []string) *Probe {
	p := sqlProbe("func", fn, "VAR @null := NULL; SELECT "+fn+"("+strings.Join(args, ", ")+")")
	p.Arg = strings.Join(args, ", ")
	if len(p.Arg) > 200 {
		p.Arg = p.Arg[:200]
	}
	return p
}

func c19FunctionNames(facts *c19Facts) []string {
	names := append([]string{}, facts.Scalar...)
	return append(names, "NOW", "JSON_OBJECT")
}

const c19MaxArity = 6

// phase 1: which argument counts does each function accept?  one call per (function, count) with plain
// arguments; the answer "function F takes …" means the count is rejected before anything is evaluated
func genArityProbes(facts *c19Facts) []*Probe {
	var ps []*Probe
	for _, fn := range c19FunctionNames(facts) {
		for k := 0; k <= c19MaxArity; k++ {
			args := make([]string, k)
			for i := range args {
				args[i] = "1"
			}
			p := funcProbe(fn, args)
			p.Note = fmt.Sprintf("arity:%d", k)
			ps = append(ps, p)
		}
	}
	return ps
}

func acceptedArities(res []ProbeResult) map[string]map[int]bool {
	acc := map[string]map[int]bool{}
	for _, pr := range res {
		var k int
		if _, err := fmt.Sscanf(pr.P.Note, "arity:%d", &k); err != nil {
			continue
		}
		if acc[pr.P.Hint] == nil {
			acc[pr.P.Hint] = map[int]bool{}
		}
		rejected := pr.Key == "" && pr.Status != 0 && strings.Contains(pr.R.Stderr, " takes ")
		if !rejected {
			acc[pr.P.Hint][k] = true
		}
	}
	return acc
}

// phase 2: boundary argument vectors for the accepted counts
func genFunctionSweep(r *rand.Rand, facts *c19Facts, tier string, acc map[string]map[int]bool) []*Probe {
	var ps []*Probe
	nTriples, nMany := 10, 2
	small := []string{"0", "-1", "9223372036854775807", "NULL", "''", "'abc'", "2147483648"}
	singles := []string{"0", "1", "-1", "9223372036854775807", "-9223372036854775808", "9223372036854775808", "1e308", "-1e308", "0.5", "NULL", "''", "'abc'", "'-1'", "TRUE",
		"'2012-02-03 09:18:15'", "'NaN'", "'Inf'", "'['", `'{"a":[1,2]}'`, `'\'`, "'あいう'", "2147483648", "'1e400'", "@null"}
	if tier == "thorough" {
		nTriples, nMany = 300, 40
		small = []string{"0", "1", "-1", "2", "9223372036854775807", "-9223372036854775808", "9223372036854775808", "1e308", "0.5", "NULL", "''", "'abc'", "TRUE", "'2012-02-03 09:18:15'", "2147483648", "'NaN'"}
		singles = c19Vals
	}
	call := func(fn string, args []string) {
		if hostileCall(fn, args) {
			return
		}
		ps = append(ps, funcProbe(fn, args))
	}
	for _, fn := range c19FunctionNames(facts) {
		ok := acc[fn]
		if ok == nil {
			ok = map[int]bool{0: true, 1: true, 2: true, 3: true}
		}
		if ok[1] {
			for _, v := range singles {
				call(fn, []string{v})
			}
			call(fn, []string{c19Long})
		}
		if ok[2] {
			for _, a := range small {
				for _, b := range small {
					call(fn, []string{a, b})
				}
			}
			for i := 0; i < nTriples; i++ {
				call(fn, []string{pick(r, c19Vals), pick(r, c19Vals)})
			}
			call(fn, []string{c19Long, c19Long})
			call(fn, []string{"'abc'", c19Long})
			call(fn, []string{c19Long, "3"})
		}
		if ok[3] {
			for i := 0; i < 2*nTriples; i++ {
				call(fn, []string{pick(r, c19Vals), pick(r, c19Vals), pick(r, c19Vals)})
			}
			for _, v := range []string{"0", "-1", "9223372036854775807", "-9223372036854775808", "NULL", "''", "2147483648"} {
				call(fn, []string{v, v, v})
				call(fn, []string{"'abc'", v, "''"})
				call(fn, []string{"'abc'", v, "'xy'"})
				call(fn, []string{"'abc'", "2", v})
			}
			call(fn, []string{c19Long, "20000", c19Long})
		}
		for k := 4; k <= c19MaxArity; k++ {
			if !ok[k] {
				continue
			}
			for i := 0; i < nMany*3; i++ {
				args := make([]string, k)
				for j := range args {
					args[j] = pick(r, c19Vals)
				}
				call(fn, args)
			}
		}
	}
	// column arguments (values come from a table, incl. NULL and empty) and special syntaxes
	for _, fn := range facts.Scalar {
		ok := acc[fn]
		if ok == nil || ok[1] {
			ps = append(ps, sqlProbe("func", fn, "SELECT "+fn+"(a), "+fn+"(b), "+fn+"(c) FROM t"))
		}
		if ok == nil || ok[2] {
			ps = append(ps, sqlProbe("func", fn, "SELECT "+fn+"(a, b), "+fn+"(b, c), "+fn+"(c, a) FROM t"))
		}
		if ok == nil || ok[3] {
			ps = append(ps, sqlProbe("func", fn, "SELECT "+fn+"(a, b, c) FROM t WHERE "+fn+"(c, b, a) IS NOT NULL"))
		}
	}
	for _, a := range c19Vals {
		for _, b := range small {
			ps = append(ps, withArg(sqlProbe("func", "SUBSTRING", fmt.Sprintf("VAR @null := NULL; SELECT SUBSTRING('abcdef' FROM %s FOR %s)", a, b)), a+", "+b))
		}
		ps = append(ps, sqlProbe("func", "SUBSTRING", fmt.Sprintf("VAR @null := NULL; SELECT SUBSTRING(%s FROM 2)", a)))
		ps = append(ps, sqlProbe("func", "JSON_OBJECT", fmt.Sprintf("VAR @null := NULL; SELECT JSON_OBJECT(%s AS x) FROM t", a)))
		ps = append(ps, sqlProbe("func", "CASE", fmt.Sprintf("VAR @null := NULL; SELECT CASE %s WHEN %s THEN 1 ELSE 2 END, %s LIKE %s, %s BETWEEN %s AND %s, %s IN (%s, %s)", a, pick(r, small), a, pick(r, c19Vals), a, pick(r, small), pick(r, small), a, pick(r, small), pick(r, small))))
		ps = append(ps, sqlProbe("func", "OPERATORS", fmt.Sprintf("VAR @null := NULL; SELECT %s + %s, %s - %s, %s * %s, %s %% %s, -%s, %s || %s", a, pick(r, small), a, pick(r, small), a, pick(r, small), a, pick(r, small), a, a, pick(r, small))))
		ps = append(ps, sqlProbe("func", "DIVISION", fmt.Sprintf("VAR @null := NULL; SELECT %s / %s", a, pick(r, small))))
	}
	return ps
}

// ---- (b2) aggregate and analytic functions ----------------------------------------------------------------
func genAggregateSweep(r *rand.Rand, facts *c19Facts, tier string) []*Probe {
	var ps []*Probe
	tables := []string{"t", "e"}
	aggs := append(append([]string{}, facts.Aggregate...), "LISTAGG", "JSON_AGG")
	args := []string{"a", "b", "c", "*", "1", "NULL", "''", "a, b", "", "DISTINCT a", "DISTINCT c", "9223372036854775807", "1e308", "a, ','", "a, NULL", "a, 1", "DISTINCT b, ','", "a, ',', 1"}
	if tier != "thorough" {
		args = []string{"a", "c", "*", "NULL", "a, b", "", "DISTINCT c", "1e308", "a, ','", "a, NULL", "a, ',', 1"}
	}
	for _, fn := range aggs {
		for _, tb := range tables {
			for _, a := range args {
				ps = append(ps, sqlProbe("func", fn, fmt.Sprintf("SELECT %s(%s) FROM %s", fn, a, tb)))
				ps = append(ps, sqlProbe("func", fn, fmt.Sprintf("SELECT a, %s(%s) FROM %s GROUP BY a HAVING %s(%s) IS NOT NULL OR TRUE", fn, a, tb, fn, a)))
				ps = append(ps, sqlProbe("func", fn, fmt.Sprintf("SELECT %s(%s) OVER (PARTITION BY a ORDER BY b) FROM %s", fn, a, tb)))
			}
		}
		ps = append(ps, sqlProbe("func", fn, fmt.Sprintf("SELECT %s(a) WITHIN GROUP (ORDER BY b) FROM t", fn)))
		ps = append(ps, sqlProbe("func", fn, fmt.Sprintf("SELECT %s(%s(a)) FROM t", fn, fn)))
		ps = append(ps, sqlProbe("func", fn, fmt.Sprintf("SELECT %s(a) FROM t WHERE %s(a) > 1", fn, fn)))
	}
	offs := c19Vals
	if tier != "thorough" {
		offs = []string{"0", "1", "-1", "2", "9223372036854775807", "-9223372036854775808", "9223372036854775808", "1e308", "NULL", "''", "'abc'", "0.5", "2147483648"}
	}
	for _, fn := range facts.Analytic {
		for _, tb := range tables {
			ps = append(ps, sqlProbe("func", fn, fmt.Sprintf("SELECT %s() OVER (ORDER BY a) FROM %s", fn, tb)))
			ps = append(ps, sqlProbe("func", fn, fmt.Sprintf("SELECT %s() OVER () FROM %s", fn, tb)))
			ps = append(ps, sqlProbe("func", fn, fmt.Sprintf("SELECT %s(a) OVER (PARTITION BY b) FROM %s", fn, tb)))
			ps = append(ps, sqlProbe("func", fn, fmt.Sprintf("SELECT %s(a) IGNORE NULLS OVER (ORDER BY c) FROM %s", fn, tb)))
			for _, o := range offs {
				ps = append(ps, sqlProbe("func", fn, fmt.Sprintf("VAR @null := NULL; SELECT %s(%s) OVER (ORDER BY a) FROM %s", fn, o, tb)))
				ps = append(ps, sqlProbe("func", fn, fmt.Sprintf("VAR @null := NULL; SELECT %s(c, %s) OVER (PARTITION BY a ORDER BY b) FROM %s", fn, o, tb)))
				if tb == "e" && tier != "thorough" {
					continue
				}
				ps = append(ps, sqlProbe("func", fn, fmt.Sprintf("VAR @null := NULL; SELECT %s(c, %s, %s) OVER (ORDER BY b DESC) FROM %s", fn, o, pick(r, c19Small), tb)))
				ps = append(ps, sqlProbe("func", fn, fmt.Sprintf("VAR @null := NULL; SELECT %s(c, 1, %s, 4) OVER (ORDER BY b DESC) FROM %s", fn, o, tb)))
			}
		}
	}
	// window frames
	frameVals := []string{"0", "1", "2", "9223372036854775807", "9223372036854775808", "-1", "1.5", "NULL", "'a'", "UNBOUNDED"}
	frameFns := []string{"SUM", "COUNT", "MAX", "FIRST_VALUE", "LAST_VALUE", "NTH_VALUE", "LISTAGG", "MEDIAN"}
	if tier != "thorough" {
		frameFns = []string{"SUM", "FIRST_VALUE", "NTH_VALUE"}
		frameVals = []string{"0", "1", "9223372036854775807", "9223372036854775808", "-1", "NULL", "UNBOUNDED"}
	}
	for _, fn := range frameFns {
		for _, x := range frameVals {
			for _, y := range frameVals {
				arg := "c"
				if fn == "NTH_VALUE" {
					arg = "c, 2"
				}
				wp := sqlProbe("clause", "WINDOW-FRAME", fmt.Sprintf("SELECT %s(%s) OVER (ORDER BY a ROWS BETWEEN %s PRECEDING AND %s FOLLOWING) FROM t", fn, arg, x, y))
				wp.Arg = x + "," + y
				ps = append(ps, wp)
			}
			ps = append(ps, withArg(sqlProbe("clause", "WINDOW-FRAME", fmt.Sprintf("SELECT %s(c) OVER (ORDER BY a ROWS %s PRECEDING) FROM t", fn, x)), x))
			ps = append(ps, withArg(sqlProbe("clause", "WINDOW-FRAME", fmt.Sprintf("SELECT %s(c) OVER (ORDER BY a ROWS BETWEEN %s FOLLOWING AND %s PRECEDING) FROM e", fn, x, x)), x))
			ps = append(ps, withArg(sqlProbe("clause", "WINDOW-FRAME", fmt.Sprintf("SELECT %s(c) OVER (PARTITION BY a ORDER BY b ROWS BETWEEN CURRENT ROW AND %s FOLLOWING) FROM t", fn, x)), x))
		}
	}
	return ps
}

// ---- (b3) clauses and statements -----------------------------------------------------------------------
func genClauseSweep(r *rand.Rand, facts *c19Facts, tier string) []*Probe {
	var ps []*Probe
	curArg := ""
	add := func(hint, sql string, extra ...string) *Probe {
		p := sqlProbe("clause", hint, sql, extra...)
		p.Arg = curArg
		if len(p.Arg) > 200 {
			p.Arg = p.Arg[:200]
		}
		ps = append(ps, p)
		return p
	}
	vals := append(append([]string{}, c19Vals...), "100", "101", "50.5", "99.99", "'50'", "3", "4", "5")
	if tier != "thorough" {
		vals = []string{"0", "1", "-1", "2", "9223372036854775807", "-9223372036854775808", "9223372036854775808", "1e308", "0.5", "-0.5", "NULL", "''", "'abc'", "TRUE", "'NaN'", "'2012-02-03 09:18:15'", "2147483648", "100", "101", "50.5", "@null", c19Long}
	}
	for _, tb := range []string{"t", "e"} {
		for _, v := range vals {
			curArg = v
			pre := "VAR @null := NULL; "
			add("LIMIT", fmt.Sprintf("%sSELECT * FROM %s ORDER BY a LIMIT %s", pre, tb, v))
			add("LIMIT-PERCENT", fmt.Sprintf("%sSELECT * FROM %s ORDER BY a LIMIT %s PERCENT", pre, tb, v))
			add("LIMIT-WITH-TIES", fmt.Sprintf("%sSELECT * FROM %s ORDER BY a LIMIT %s WITH TIES", pre, tb, v))
			add("LIMIT-PERCENT-WITH-TIES", fmt.Sprintf("%sSELECT * FROM %s ORDER BY a LIMIT %s PERCENT WITH TIES", pre, tb, v))
			add("LIMIT-WITH-TIES-NO-ORDER", fmt.Sprintf("%sSELECT * FROM %s LIMIT %s WITH TIES", pre, tb, v))
			add("OFFSET", fmt.Sprintf("%sSELECT * FROM %s ORDER BY a OFFSET %s", pre, tb, v))
			add("LIMIT-OFFSET", fmt.Sprintf("%sSELECT * FROM %s ORDER BY a LIMIT %s OFFSET %s", pre, tb, pick(r, vals), v))
			add("FETCH-FIRST", fmt.Sprintf("%sSELECT * FROM %s ORDER BY a OFFSET %s ROWS FETCH NEXT %s ROWS ONLY", pre, tb, pick(r, vals), v))
			add("FETCH-FIRST-PERCENT-TIES", fmt.Sprintf("%sSELECT * FROM %s ORDER BY a FETCH FIRST %s PERCENT WITH TIES", pre, tb, v))
			add("LIMIT-GROUPED", fmt.Sprintf("%sSELECT a, COUNT(*) FROM %s GROUP BY a ORDER BY a DESC LIMIT %s WITH TIES OFFSET %s", pre, tb, v, pick(r, c19Small)))
			add("LIMIT-UNION", fmt.Sprintf("%sSELECT a FROM %s UNION ALL SELECT a FROM t ORDER BY a LIMIT %s PERCENT WITH TIES", pre, tb, v))
			add("FETCH-CURSOR", fmt.Sprintf("%sVAR @x; DECLARE c CURSOR FOR SELECT a FROM %s; OPEN c; FETCH ABSOLUTE %s c INTO @x; FETCH RELATIVE %s c INTO @x; FETCH NEXT c INTO @x; FETCH PRIOR c INTO @x; SELECT @x, CURSOR c IS IN RANGE, CURSOR c COUNT;", pre, tb, v, v))
		}
	}
	for _, v := range vals {
		curArg = v
		pre := "VAR @null := NULL; "
		add("EXECUTE", pre+"EXECUTE "+v)
		add("EXECUTE", pre+"EXECUTE 'SELECT ?' USING "+v)
		add("EXECUTE", pre+"EXECUTE 'SELECT %s' USING "+v)
		add("EXECUTE", pre+"PREPARE s FROM 'SELECT ?, :a'; EXECUTE s USING "+v+", "+v+" AS a")
		add("PREPARE", pre+"PREPARE s FROM "+v+"; EXECUTE s")
		add("PREPARE", pre+"PREPARE s FROM 'SELECT "+strings.ReplaceAll(v, "'", "''")+"'; EXECUTE s; DISPOSE PREPARE s; EXECUTE s")
		p := add("EXIT", pre+"EXIT "+v)
		p.AnyStatus = true
		p = add("TRIGGER-ERROR", pre+"TRIGGER ERROR "+v)
		p.AnyStatus = true
		p = add("TRIGGER-ERROR", pre+"TRIGGER ERROR "+v+" 'message'")
		p.AnyStatus = true
		add("VARIABLE", pre+"VAR @a := "+v+"; @a := @a + 1; SELECT @a, @a := "+v+"; DISPOSE @a; SELECT @a")
		add("ECHO-PRINT", pre+"ECHO "+v+"; PRINT "+v+"; PRINTF "+v+"; PRINTF '%s %d %f %q %%' USING "+v+", "+v+", "+v+", "+v)
		add("SOURCE", pre+"SOURCE "+v)
		add("SYNTAX", pre+"SYNTAX "+v)
		add("SETENV", pre+"SET @%C19VAR TO "+v+"; SELECT @%C19VAR; UNSET @%C19VAR")
		add("WHILE", pre+"VAR @i := 0; WHILE @i < "+v+" DO @i := @i + 1; IF @i > 3 THEN BREAK; END IF; END WHILE; SELECT @i")
		add("IF-CASE", pre+"IF "+v+" THEN SELECT 1; ELSEIF "+v+" THEN SELECT 2; ELSE SELECT 3; END IF; CASE "+v+" WHEN "+v+" THEN SELECT 4; ELSE SELECT 5; END CASE")
		add("USER-FUNCTION", pre+"DECLARE f FUNCTION (@a, @b DEFAULT "+v+") AS BEGIN RETURN @a + @b; END; SELECT f("+v+"), f("+v+", "+v+"), f()")
		add("USER-AGGREGATE", pre+"DECLARE g AGGREGATE (c, @p DEFAULT "+v+") AS BEGIN VAR @v, @s := 0; WHILE @v IN c DO @s := @s + @v; END WHILE; RETURN @s; END; SELECT g(a), g(a, "+v+") FROM t; SELECT g(a, "+v+") OVER (ORDER BY a) FROM t")
		add("RECURSION", pre+"SET @@LIMIT_RECURSION TO "+v+"; WITH RECURSIVE r (n) AS (SELECT 1 UNION ALL SELECT n + 1 FROM r WHERE n < 20) SELECT COUNT(*) FROM r")
		if v == "0" || v == "1" || v == "2" || v == "'5'" || v == "0.5" {
			// a recursion that never ends by itself must be ended by the limit, whatever (small) limit is given
			add("RECURSION", pre+"SET @@LIMIT_RECURSION TO "+v+"; WITH RECURSIVE r (n) AS (SELECT 1 UNION ALL SELECT n + 1 FROM r) SELECT COUNT(*) FROM r")
		}
		add("INSERT", pre+"INSERT INTO t VALUES ("+v+", "+v+", "+v+"); SELECT * FROM t; ROLLBACK")
		add("INSERT", pre+"INSERT INTO t (a) VALUES ("+v+"), ("+v+", "+v+"); ROLLBACK")
		add("UPDATE", pre+"UPDATE t SET a = "+v+", b = "+v+" WHERE c = "+v+" OR TRUE; SELECT * FROM t; ROLLBACK")
		add("DELETE", pre+"DELETE FROM t WHERE a = "+v+"; ROLLBACK")
		add("REPLACE", pre+"REPLACE INTO t (a, b, c) USING (a) VALUES ("+v+", "+v+", "+v+"); ROLLBACK")
		add("ALTER-TABLE", pre+"ALTER TABLE t ADD (d DEFAULT "+v+") FIRST; ALTER TABLE t DROP (d); ALTER TABLE t RENAME b TO bb; ROLLBACK")
		add("CREATE-TABLE", pre+"CREATE TABLE `n.csv` (a, b) AS SELECT "+v+", "+v+"; SELECT * FROM `n.csv`; ROLLBACK")
		add("TEMP-VIEW", pre+"DECLARE v VIEW (a, b) AS SELECT "+v+", "+v+"; SELECT * FROM v; DISPOSE VIEW v")
		add("ORDER-BY", pre+"SELECT * FROM t ORDER BY "+v+", a NULLS LAST")
		add("GROUP-BY", pre+"SELECT "+v+", COUNT(*) FROM t GROUP BY "+v)
		add("JOIN", pre+"SELECT * FROM t JOIN t AS t2 ON t.a = "+v+" LEFT JOIN e ON e.a = t.a")
		add("IN-SUBQUERY", pre+"SELECT * FROM t WHERE a IN (SELECT "+v+") OR EXISTS (SELECT 1 FROM e) OR a > ANY (SELECT "+v+") OR ("+v+", 1) = ALL (SELECT a, 1 FROM t)")
		add("TABLE-OBJECT", pre+"SELECT * FROM CSV("+v+", `t.csv`)")
		add("TABLE-OBJECT", pre+"SELECT * FROM CSV(',', `t.csv`, "+v+", "+v+", "+v+")")
		add("TABLE-OBJECT", pre+"SELECT * FROM FIXED("+v+", `t.csv`)")
		add("TABLE-OBJECT", pre+"SELECT * FROM JSON("+v+", `t.csv`)")
		add("TABLE-OBJECT", pre+"SELECT * FROM LTSV(`t.csv`, "+v+", "+v+")")
		add("TABLE-OBJECT", pre+"SELECT * FROM DATA::("+v+")")
		add("TABLE-OBJECT", pre+"SELECT * FROM CSV(',', DATA::("+v+"))")
		add("TABLE-OBJECT", pre+"SELECT * FROM JSON_INLINE("+v+", "+v+")")
		add("TABLE-OBJECT", pre+"SELECT * FROM FILE::("+v+")")
		add("TABLE-OBJECT", pre+"SELECT * FROM INLINE::("+v+")")
		for _, attr := range []string{"FORMAT", "DELIMITER", "DELIMITER_POSITIONS", "JSON_ESCAPE", "ENCODING", "LINE_BREAK", "HEADER", "ENCLOSE_ALL", "PRETTY_PRINT", "NOATTR"} {
			add("ALTER-TABLE-SET", pre+"ALTER TABLE t SET "+attr+" TO "+v+"; SHOW FIELDS FROM t; ROLLBACK")
		}
		for _, fl := range append(append([]string{}, facts.Flags...), "LIMIT_RECURSION", "NOFLAG") {
			add("SET-FLAG", pre+"SET @@"+fl+" TO "+v+"; SHOW @@"+fl+"; SELECT @@"+fl+"; SELECT * FROM t LIMIT 1")
		}
		add("ADD-FLAG", pre+"ADD "+v+" TO @@DATETIME_FORMAT; SHOW @@DATETIME_FORMAT; SELECT DATETIME('2012-02-03'); REMOVE "+v+" FROM @@DATETIME_FORMAT; SHOW @@DATETIME_FORMAT")
		add("ADD-FLAG", pre+"ADD "+v+" TO @@CPU")
		add("ADD-FLAG", pre+"ADD '%Y' TO @@DATETIME_FORMAT; REMOVE "+v+" FROM @@DATETIME_FORMAT; SHOW @@DATETIME_FORMAT")
	}
	misc := []string{
		"SHOW TABLES; SHOW VIEWS; SHOW CURSORS; SHOW FUNCTIONS; SHOW STATEMENTS; SHOW FLAGS; SHOW ENV; SHOW RUNINFO",
		"SELECT * FROM t; SHOW TABLES; SHOW FIELDS FROM t; SHOW FIELDS FROM nofile",
		"SELECT @#UNCOMMITTED, @#CREATED, @#UPDATED, @#UPDATED_VIEWS, @#LOADED_TABLES, @#WORKING_DIRECTORY, @#VERSION, @#NOINFO",
		"RELOAD CONFIG", "RELOAD NOTHING", "CHDIR 'nodir'", "CHDIR '.'; PWD", "PWD; COMMIT; ROLLBACK; COMMIT",
		"SELECT * FROM t FOR UPDATE", "SELECT 1 INTO @x", "VAR @x, @y; SELECT a, b INTO @x, @y FROM t", "VAR @x; SELECT a INTO @x FROM e; SELECT @x",
		"SELECT", "SELECT (", "''", ";", ";;;", "SELECT 1;;SELECT 2", "/* */", "-- x", "SELECT /* unterminated", "SELECT 'unterminated", "SELECT `unterminated", "SELECT \"x", "SELECT 1 AS `a.b.c`, 2 AS `a.b`",
		"SELECT * FROM t t1 RIGHT JOIN LATERAL (SELECT 1) x ON 1=1", "SELECT * FROM t, LATERAL (SELECT t.a) x", "SELECT * FROM t NATURAL JOIN e", "SELECT * FROM t FULL JOIN e USING (a, b, c)", "SELECT * FROM t CROSS JOIN t AS t2 CROSS JOIN t AS t3",
		"SELECT * FROM t UNION SELECT * FROM e EXCEPT SELECT * FROM t INTERSECT ALL SELECT 1, 2, 3",
		"WITH RECURSIVE r (n) AS (SELECT 1 UNION ALL SELECT n + 1 FROM r) SELECT * FROM r", "WITH RECURSIVE r (n) AS (SELECT 1 UNION ALL SELECT n + 1 FROM r WHERE n < 3), q (m) AS (SELECT n FROM r UNION ALL SELECT m FROM q, r WHERE FALSE) SELECT * FROM q",
		"WITH x AS (SELECT 1), x AS (SELECT 2) SELECT * FROM x", "WITH x (a) AS (SELECT 1, 2) SELECT * FROM x",
		"DECLARE c CURSOR FOR SELECT 1; CLOSE c; FETCH c INTO @a; DISPOSE CURSOR c; DISPOSE CURSOR c",
		"DECLARE c CURSOR FOR s; OPEN c", "PREPARE s FROM 'SELECT 1'; DECLARE c CURSOR FOR s; OPEN c; VAR @a; WHILE @a IN c DO PRINT @a; END WHILE; CLOSE c",
		"DECLARE f FUNCTION () AS BEGIN RETURN f(); END; SELECT 1", "DECLARE f FUNCTION (@a) AS BEGIN IF @a < 1 THEN RETURN 0; END IF; RETURN f(@a - 1); END; SELECT f(50)",
		"SELECT * FROM STDIN", "SELECT * FROM `t.csv` AS x JOIN STDIN ON TRUE", "SELECT * FROM t WHERE", "INSERT INTO e SELECT * FROM t; INSERT INTO e SELECT * FROM e; SELECT COUNT(*) FROM e; ROLLBACK",
		"CREATE TABLE `t.csv` (a)", "CREATE TABLE IF NOT EXISTS `t.csv` (a, b, c); CREATE TABLE IF NOT EXISTS `t.csv` (x)", "CREATE TABLE `sub/dir/n.csv` (a); COMMIT",
		"UPDATE t SET a = (SELECT a FROM t)", "UPDATE t t1 SET t1.a = 1 FROM t t1 JOIN e ON TRUE", "DELETE t FROM t JOIN e ON TRUE", "DELETE FROM t JOIN e ON TRUE",
		"SELECT ROW_NUMBER() OVER (ORDER BY a) FROM t WHERE ROW_NUMBER() OVER () = 1", "SELECT COUNT(*) OVER () FROM t", "SELECT COUNT(*) OVER (PARTITION BY a ORDER BY a) FROM t",
		"SELECT a FROM t GROUP BY a ORDER BY COUNT(*) OVER ()", "SELECT DISTINCT a, b FROM t ORDER BY c", "SELECT * FROM t ORDER BY 99", "SELECT a AS x, b AS x FROM t ORDER BY x",
		"SELECT t.*, e.*, * FROM t, e", "SELECT nofile.* FROM t", "SELECT * FROM (SELECT * FROM (SELECT * FROM t) AS a) AS b", "SELECT (SELECT (SELECT (SELECT a FROM t LIMIT 1)))",
		"SELECT 1 FROM t WHERE (a, b) IN ((1, 'x'), (2))", "SELECT (1, 2) = (1)", "SELECT (1, 2) < (SELECT a, b, c FROM t LIMIT 1)", "SELECT (SELECT a, b FROM t LIMIT 1)",
		"SELECT @@CPU, @@NOFLAG", "SELECT @%HOME, @%NOENV, @%`a b`", "SELECT CURSOR nocur IS OPEN", "SELECT CURSOR nocur COUNT",
		"SELECT a, LISTAGG(b, ',') WITHIN GROUP (ORDER BY c) FROM t GROUP BY a", "SELECT JSON_AGG(JSON_OBJECT(a, b AS `x.y`, c AS `x.z`)) FROM t",
		"SELECT JSON_ROW('a[', `t.csv`)", "SELECT * FROM JSON_TABLE('{}', 't.csv')",
	}
	curArg = ""
	for _, m := range misc {
		add("MISC", m)
	}
	// set operators whose operands carry analytic functions (and with them per-record sort values), followed by
	// clauses that apply to the combined result
	for _, op := range []string{"UNION", "UNION ALL", "EXCEPT", "INTERSECT"} {
		for _, fn := range []string{"RANK() OVER (ORDER BY a)", "ROW_NUMBER() OVER (PARTITION BY b ORDER BY a)", "SUM(a) OVER ()", "LAG(a) OVER (ORDER BY c, a)"} {
			for _, tail := range []string{"ORDER BY a", "ORDER BY 2, 1", "ORDER BY a LIMIT 2 WITH TIES", "ORDER BY a DESC OFFSET 1", "LIMIT 50 PERCENT"} {
				curArg = op + " / " + fn + " / " + tail
				add("SET-ANALYTIC", fmt.Sprintf("SELECT a, %s FROM t %s SELECT a, 0 FROM t %s", fn, op, tail))
				add("SET-ANALYTIC", fmt.Sprintf("SELECT a, 0 FROM t %s SELECT a, %s FROM t %s", op, fn, tail))
				// the select list is the table's own columns in their order, the analytic column last: nothing to rearrange
				add("SET-ANALYTIC", fmt.Sprintf("SELECT a, b, c, %s FROM t %s SELECT a, b, c, 0 FROM t %s", fn, op, tail))
				add("SET-ANALYTIC", fmt.Sprintf("SELECT *, %s FROM t %s SELECT *, 0 FROM t %s", fn, op, tail))
				add("SET-ANALYTIC", fmt.Sprintf("SELECT x.a, x.r FROM (SELECT a, %s AS r FROM t %s SELECT a, 1 FROM e) AS x %s", fn, op, strings.Replace(tail, "ORDER BY a", "ORDER BY x.a", 1)))
			}
		}
	}
	curArg = ""
	return ps
}

// ---- command line ---------------------------------------------------------------------------------------
func genCLISweep(r *rand.Rand, tier string) []*Probe {
	var ps []*Probe
	vals := []string{"", "0", "1", "-1", "9223372036854775807", "-9223372036854775808", "99999999999999999999", "1e308", "abc", "NaN", " ", "\t", "あ", "ab", "\\t", "\\", "'", "\"", "[1,2]", "[2,1]", "[]", "[", "S[1,3]", "SPACES", "s[]", "[0]", "[-1]", "[99999999999999999999]", "[1,1]", "[1.5]", "[\"a\"]", "{}", "null", strings.Repeat("x", 5000)}
	if tier != "thorough" {
		vals = []string{"", "0", "-1", "9223372036854775807", "99999999999999999999", "1e308", "abc", " ", "あ", "\\t", "'", "[1,2]", "[2,1]", "[]", "[", "S[1,3]", "SPACES", "[-1]", "[99999999999999999999]", "{}", strings.Repeat("x", 5000)}
	}
	flags := []string{"--repository", "--timezone", "--datetime-format", "--wait-timeout", "--source", "--import-format", "--delimiter", "--delimiter-positions", "--json-query", "--encoding", "--out", "--format", "--write-encoding", "--write-delimiter", "--write-delimiter-positions", "--line-break", "--json-escape", "--limit-recursion", "--cpu"}
	bools := []string{"--ansi-quotes", "--strict-equal", "--allow-uneven-fields", "--no-header", "--without-null", "--without-header", "--enclose-all", "--pretty-print", "--scientific-notation", "--strip-ending-line-break", "--east-asian-encoding", "--count-diacritical-sign", "--count-format-code", "--color", "--quiet", "--stats"}
	for _, v := range []string{"0", "1", "3", "1000"} {
		ps = append(ps, sqlProbe("cli", "--limit-recursion", "WITH RECURSIVE r (n) AS (SELECT 1 UNION ALL SELECT n + 1 FROM r) SELECT COUNT(*) FROM r", "--limit-recursion", v))
	}
	for _, f := range flags {
		for _, v := range vals {
			p := sqlProbe("cli", f, "SELECT * FROM t", f, v)
			ps = append(ps, p)
			if f == "--out" && v != "" {
				p.Hint = "--out"
			}
		}
	}
	for _, b := range bools {
		ps = append(ps, sqlProbe("cli", b, "SELECT * FROM t; SELECT 1.5e10, 'あ', NULL", b))
		ps = append(ps, sqlProbe("cli", b, "SELECT * FROM t", b+"=maybe"))
	}
	fmts := []string{"CSV", "TSV", "FIXED", "JSON", "JSONL", "LTSV", "GFM", "ORG", "BOX", "TEXT"}
	for _, f := range fmts {
		for _, q := range []string{"SELECT * FROM t", "SELECT * FROM e", "SELECT 1 AS `a.b`, 2 AS `a.c`, 3 AS `a`", "SELECT 1 AS `a`, 2 AS `a.b`", "SELECT 'a\nb' AS `x\ny`, '\t', '\"', '|', NULL, TRUE, 1.5, NOW()", "SELECT 1 AS ``, 2 AS ` `", "SELECT '" + strings.Repeat("w", 3000) + "' AS x",
			// values and column names that end in / consist of / contain line-break and other control characters
			"SELECT 'ends with cr\r' AS a, 'x\r\ny' AS b, '\r' AS c, 'tab\t' AS d, '\n' AS e, 'cr\rmid' AS f, 'ends with crlf\r\n' AS g, 'k' AS `h\r`",
			"SELECT '\r\r' AS a, '\n\r' AS b, 'e\u0301\r' AS d, 'あ\r' AS e, '\u200b' AS f, '\x1b[31mred' AS g"} {
			ps = append(ps, sqlProbe("cli", "--format", q, "-f", f))
			ps = append(ps, sqlProbe("cli", "--format", q, "-f", f, "--without-header", "--enclose-all", "--write-delimiter-positions", "[1,2,3]", "--line-break", "CRLF", "--write-encoding", "SJIS", "--pretty-print"))
			ps = append(ps, sqlProbe("cli", "--format", q, "-f", f, "--write-delimiter-positions", "S[1]", "--write-encoding", "UTF16", "--json-escape", "HEX"))
			ps = append(ps, sqlProbe("cli", "--out", q, "-f", f, "-o", "out.dat"))
		}
	}
	argvs := [][]string{{}, {"SELECT 1", "SELECT 2"}, {"--bogus", "SELECT 1"}, {"-s", "nofile.sql"}, {"-s", "t.csv"}, {"-s", "."}, {"-s", "t.csv", "SELECT 1"},
		{"fields"}, {"fields", "t"}, {"fields", "t.csv"}, {"fields", "nofile"}, {"fields", "t", "e"}, {"calc"}, {"calc", "1+1"}, {"calc", "c1"}, {"calc", "(("}, {"syntax"}, {"syntax", "select"}, {"syntax", "zzzzzz"},
		{"check-update", "x"}, {"help"}, {"--help"}, {"--version"}, {"-v"}, {"nosuchsubcommand"}, {"-r", "nodir", "SELECT 1"}, {"-r", "t.csv", "SELECT 1"}, {"-z", "Nowhere/Land", "SELECT NOW()"}, {"-z", "", "SELECT NOW()"}}
	for _, a := range argvs {
		p := sqlProbe("cli", "argv", "")
		p.Args = a
		p.Stdin = "1+c1\n"
		ps = append(ps, p)
	}
	return ps
}

// ---- (c) file-system conditions ----------------------------------------------------------------------------
func genFSConditions(tier string, canDropPriv bool, notes *[]string) []*Probe {
	var ps []*Probe
	add := func(hint, pre, sql string, extra ...string) *Probe {
		p := sqlProbe("fs", hint, sql, extra...)
		p.Pre = pre
		ps = append(ps, p)
		return p
	}
	reads := []string{"SELECT * FROM `x.csv`", "SELECT * FROM x", "SELECT * FROM CSV(',', `x.csv`)", "SELECT * FROM FILE::('x.csv')", "SELECT * FROM INLINE::('x.csv')", "UPDATE `x.csv` SET a = 1", "INSERT INTO `x.csv` VALUES (1)", "SHOW FIELDS FROM `x.csv`", "SOURCE `x.csv`", "SELECT * FROM `x.csv` FOR UPDATE"}
	for _, q := range reads {
		add("missing-file", "", q)
		add("directory-as-file", "mkdir x.csv", q)
		add("dangling-symlink", "ln -s nowhere x.csv", q)
		add("symlink-loop", "ln -s x.csv x.csv", q)
		add("empty-file", ": > x.csv", q)
		add("directory-as-file", "mkdir x.csv", q, "-s", "x.csv")
		add("lock-file-present", "cp t.csv x.csv; : > .x.csv.lock", q, "-w", "0.3")
		add("lock-dir-present", "cp t.csv x.csv; mkdir .x.csv.lock", q, "-w", "0.3")
		add("temp-file-present", "cp t.csv x.csv; : > .x.csv.temp", q+"; COMMIT", "-w", "0.3")
	}
	writes := []string{"INSERT INTO t VALUES (9, 9, 9); COMMIT", "CREATE TABLE `n.csv` (a, b); COMMIT", "UPDATE t SET a = 0; COMMIT", "SELECT * FROM t", "DELETE FROM t; COMMIT"}
	for _, q := range writes {
		add("removed-cwd", "mkdir gone && cd gone && cp ../t.csv . && rm -rf ../gone", q)
		add("out-missing-dir", "", q, "-o", "no/such/dir/out.csv")
		add("out-is-dir", "mkdir out.csv", q, "-o", "out.csv")
		add("out-exists", ": > out.csv", q, "-o", "out.csv")
		add("repository-missing", "", q, "-r", "nodir")
		add("repository-is-file", "", q, "-r", "t.csv")
		add("table-removed-during", "", "SELECT * FROM t; SOURCE `rm.sql`; "+q).addFile("rm.sql", []byte("SELECT CALL('rm', '-f', 't.csv');"))
	}
	add("removed-cwd", "mkdir gone && cd gone && rm -rf ../gone", "SELECT 1")
	add("removed-cwd", "mkdir gone && cd gone && rm -rf ../gone", "SELECT * FROM nofile")
	add("removed-cwd", "mkdir gone && cd gone && rm -rf ../gone", "CREATE TABLE `n.csv` (a); COMMIT")
	add("removed-cwd", "mkdir gone && cd gone && rm -rf ../gone", "CREATE TABLE IF NOT EXISTS `n.csv` (a); COMMIT")
	add("removed-cwd", "mkdir gone && cd gone && rm -rf ../gone", "SELECT * FROM `../t.csv`")
	add("removed-cwd", "mkdir gone && cd gone && rm -rf ../gone", "PWD; CHDIR '..'; SELECT * FROM t")
	add("stdin-closed", "exec <&-", "SELECT * FROM STDIN")
	add("stdout-closed", "exec >&-", "SELECT * FROM t")
	add("stdout-full", "exec >/dev/full", "SELECT * FROM t")
	add("home-missing", "export HOME=/nonexistent/home", "SELECT 1")
	add("config-broken", "mkdir -p .config/csvq && echo '{' > .config/csvq/csvq_env.json && echo '{\"timezone\": 5}' > csvq_env.json", "SELECT 1")
	add("config-broken", "mkdir -p .csvq && echo '[' > .csvq/csvq_env.json && echo 'SELEC' > .csvqrc", "SELECT 1")
	add("preload-broken", "echo 'SELEC;' > .csvqrc", "SELECT 1")
	add("preload-is-dir", "mkdir .csvqrc", "SELECT 1")
	if tier == "thorough" {
		p := add("fifo-no-writer", "mkfifo x.csv", "SELECT * FROM `x.csv`")
		p.TimeoutMs = 3000
	}
	if canDropPriv {
		for _, q := range reads {
			add("unreadable-file", "cp t.csv x.csv; chmod 000 x.csv", q).AsNobody = true
			add("read-only-file", "cp t.csv x.csv; chmod 444 x.csv", q+"; COMMIT").AsNobody = true
			add("unreadable-dir", "mkdir d; cp t.csv d/x.csv; chmod 000 d", strings.ReplaceAll(q, "x.csv", "d/x.csv")).AsNobody = true
		}
		for _, q := range writes {
			add("read-only-dir", "chmod 755 .; chmod 644 t.csv e.csv", q, "-w", "0.5").AsNobody = true
			add("read-only-dir", "chmod 755 .; chmod 666 t.csv e.csv", q, "-w", "0.5").AsNobody = true
			add("read-only-dir-out", "chmod 755 .", q, "-o", "out.csv", "-w", "0.5").AsNobody = true
		}
	} else {
		*notes = append(*notes, "permission conditions (unreadable file, read-only directory) skipped: running as root without /usr/bin/setpriv")
	}
	return ps
}

// ---- (a) loader fuzzing ------------------------------------------------------------------------------------
var c19Interesting = [][]byte{
	[]byte(`"`), []byte(`""`), []byte(","), []byte("\n"), []byte("\r"), []byte("\r\n"), []byte("\t"), []byte(":"), []byte(";"), []byte("|"), []byte(" "), []byte("\\"),
	{0x00}, {0xFF}, {0xFE}, {0xEF, 0xBB, 0xBF}, {0xFF, 0xFE}, {0xFE, 0xFF}, {0xC3}, {0xE3, 0x81}, []byte("あ"), {0x82, 0xA0}, {0x81}, {0xD8, 0x00}, {0x00, 0xD8}, {0xDC, 0x00},
	[]byte("{"), []byte("}"), []byte("["), []byte("]"), []byte("null"), []byte("true"), []byte("1e999"), []byte(`\u0000`), []byte(`\ud800`), []byte(`{"a":`), []byte(`[{}]`), []byte("a:b"), []byte("a:"), []byte(":b"),
	[]byte("    "), []byte("　"), []byte("\u0085"), []byte(" "), []byte("\ufeff"),
}

var c19SeedDocs = map[string][]string{
	"CSV":   {"a,b,c\n1,2,3\n4,5,6\n", "a,b\n\"x,1\",\"y\"\"q\"\n\"l1\nl2\",\n", "a\n", "a,b,c\n1,2\n3,4,5,6\n", "\"a\",\"b\"\r\n\"1\",\"2\"\r\n", "a,a,a\n,,\n", ",\n,\n", "a,b\n1,2", "\n\n\n", "a,b\n\n1,2\n"},
	"TSV":   {"a\tb\tc\n1\t2\t3\n", "a\tb\n\"x\t1\"\ty\n", "a\t\n\t\n"},
	"FIXED": {"a   b    c\n1   22   333\n4   5    6\n", "aaabbbccc\n111222333\n", "a b\n  1 2  \n", "あい うえ\n1    2\n", "a\n\n\n", "abc"},
	"LTSV":  {"a:1\tb:2\nc:3\ta:4\n", "a:1\n\nb:2\n", "a:x:y\tb:\n", "a:1\ta:2\n", ":1\n", "a\n"},
	"JSON":  {`[{"a":1,"b":"x"},{"a":2,"b":null}]`, `{"a":[{"b":1},{"b":2,"c":3}]}`, `[{"a":{"b":[1,2]}},{"c":true}]`, `[]`, `{}`, `[1,2,3]`, `[[1,2],[3]]`, `null`, `"s"`, `[{"a.b":1,"a":{"b":2}}]`, `[{"":1}]`, `[{"a":1},2]`, `[{"a":1e999}]`, `[{"a":"\ud800"}]`},
	"JSONL": {"{\"a\":1}\n{\"a\":2,\"b\":3}\n", "{\"a\":1}\n\n[1]\n", "1\n2\n", "{}\n{}\n", "{\"a\":{\"b\":1}}\n{\"a\":[1]}\n"},
}

func mutateBytes(r *rand.Rand, b []byte) []byte {
	out := append([]byte{}, b...)
	n := 1 + r.Intn(4)
	for i := 0; i < n; i++ {
		switch r.Intn(7) {
		case 0: // insert an interesting token
			t := c19Interesting[r.Intn(len(c19Interesting))]
			pos := r.Intn(len(out) + 1)
			out = append(out[:pos], append(append([]byte{}, t...), out[pos:]...)...)
		case 1: // flip a byte
			if len(out) > 0 {
				out[r.Intn(len(out))] = byte(r.Intn(256))
			}
		case 2: // delete a range
			if len(out) > 1 {
				a := r.Intn(len(out))
				e := a + 1 + r.Intn(len(out)-a)
				out = append(out[:a], out[e:]...)
			}
		case 3: // duplicate a range
			if len(out) > 0 {
				a := r.Intn(len(out))
				e := a + 1 + r.Intn(len(out)-a)
				out = append(out[:e], append(append([]byte{}, out[a:e]...), out[e:]...)...)
			}
		case 4: // truncate
			if len(out) > 0 {
				out = out[:r.Intn(len(out))]
			}
		case 5: // replace a byte by an interesting token
			if len(out) > 0 {
				t := c19Interesting[r.Intn(len(c19Interesting))]
				pos := r.Intn(len(out))
				out = append(out[:pos], append(append([]byte{}, t...), out[pos+1:]...)...)
			}
		case 6: // swap two bytes
			if len(out) > 1 {
				i, j := r.Intn(len(out)), r.Intn(len(out))
				out[i], out[j] = out[j], out[i]
			}
		}
	}
	return out
}

func randomCells(r *rand.Rand, sep string, quote bool) []byte {
	cells := []string{"", "1", "abc", " ", "あ", "x y", "-1.5", "NULL", "true", "2012-02-03", strings.Repeat("z", 40)}
	if quote {
		cells = append(cells, `"q"`, `"a`+sep+`b"`, "\"l1\nl2\"", `"x""y"`, `""`, `"`, `a"b`)
	}
	rows, cols := r.Intn(6), 1+r.Intn(5)
	var b bytes.Buffer
	lb := []string{"\n", "\r\n", "\r"}[r.Intn(3)]
	for i := 0; i <= rows; i++ {
		n := cols
		if r.Intn(5) == 0 {
			n = r.Intn(cols + 3)
		}
		for j := 0; j < n; j++ {
			if j > 0 {
				b.WriteString(sep)
			}
			b.WriteString(cells[r.Intn(len(cells))])
		}
		if i < rows || r.Intn(2) == 0 {
			b.WriteString(lb)
		}
	}
	return b.Bytes()
}

func encodeAs(r *rand.Rand, b []byte, enc string) []byte {
	u16 := func(order binary.ByteOrder, bom bool) []byte {
		us := utf16.Encode([]rune(string(b)))
		out := make([]byte, 0, 2*len(us)+2)
		if bom {
			x := make([]byte, 2)
			order.PutUint16(x, 0xFEFF)
			out = append(out, x...)
		}
		for _, u := range us {
			x := make([]byte, 2)
			order.PutUint16(x, u)
			out = append(out, x...)
		}
		return out
	}
	switch enc {
	case "UTF8M":
		return append([]byte{0xEF, 0xBB, 0xBF}, b...)
	case "UTF16", "UTF16BEM":
		return u16(binary.BigEndian, true)
	case "UTF16BE":
		return u16(binary.BigEndian, false)
	case "UTF16LE":
		return u16(binary.LittleEndian, false)
	case "UTF16LEM":
		return u16(binary.LittleEndian, true)
	}
	return b
}

var c19Encodings = []string{"AUTO", "UTF8", "UTF8M", "UTF16", "UTF16BE", "UTF16LE", "UTF16BEM", "UTF16LEM", "SJIS"}
var c19Delims = []string{",", "\t", ";", "|", " ", ":", "あ", "\"", "\\t", "a", "1", "\n"}

// NB: "S[]" (single-line mode, no positions) never terminates (finding fixed-single-line-empty-positions): it is run once, from the corpus
var c19Positions = []string{"SPACES", "spaces", "[1,3,5]", "[3]", "[]", "[1,2,3,4,5,6,7,8,9]", "S[2,4]", "S[1]", "[100]", "[4,8,4000000000]", "[2, 5]", "[0,1]", "[1,1]"}
var c19JsonQueries = []string{"", "{}", "[]", "a", "a[0]", "a{b,c}", "a.b", "[0]", "a[]", "{a, b}", "{a as x, b.c}", "a{}", "[1]{a}"}
var c19BadOptions = map[string][]string{
	"delimiter": {"", "ab", "\\", "''"}, "positions": {"[5,3]", "[-1]", "[", "x", "[1.5]", "[99999999999999999999]", "S", "null", "[\"1\"]"},
	"encoding": {"FOO", "", "utf-8", "LATIN1"}, "json-query": {"{", "a..b", "a[", "[1", "a[x]", "}", "{a as}", ".", "a{b", "a[0]x"}, "format": {"XML", ""},
}

func genLoaderFuzz(r *rand.Rand, n int) []*Probe {
	var ps []*Probe
	formats := []string{"CSV", "CSV", "TSV", "FIXED", "FIXED", "LTSV", "JSON", "JSON", "JSONL"}
	ext := map[string]string{"CSV": ".csv", "TSV": ".tsv", "FIXED": ".txt", "LTSV": ".ltsv", "JSON": ".json", "JSONL": ".jsonl"}
	for i := 0; i < n; i++ {
		f := formats[r.Intn(len(formats))]
		// --- input bytes
		var data []byte
		kind := ""
		switch k := r.Intn(10); {
		case k < 4:
			kind = "mutated"
			seeds := c19SeedDocs[f]
			data = mutateBytes(r, []byte(seeds[r.Intn(len(seeds))]))
		case k == 4 && (f == "CSV" || f == "TSV"):
			// records of very different lengths (--allow-uneven-fields pads every short record to the header's length)
			kind = "ragged"
			sep := map[string]string{"CSV": ",", "TSV": "\t"}[f]
			var b bytes.Buffer
			for i, n := 0, 2+r.Intn(6); i < n; i++ {
				m := r.Intn(7)
				for j := 0; j < m; j++ {
					if j > 0 {
						b.WriteString(sep)
					}
					b.WriteString([]string{"a", "1", "", "x y", "\"q\""}[r.Intn(5)])
				}
				b.WriteString("\n")
			}
			data = b.Bytes()
		case k < 6:
			kind = "structured"
			switch f {
			case "TSV":
				data = randomCells(r, "\t", true)
			case "FIXED":
				data = randomCells(r, []string{" ", "  ", ""}[r.Intn(3)], false)
			case "LTSV":
				data = randomCells(r, []string{"\t", ":", "\ta:"}[r.Intn(3)], false)
			case "JSON", "JSONL":
				seeds := c19SeedDocs[f]
				data = mutateBytes(r, mutateBytes(r, []byte(seeds[r.Intn(len(seeds))])))
			default:
				data = randomCells(r, ",", true)
			}
		case k < 8:
			kind = "random"
			data = make([]byte, r.Intn(120))
			for j := range data {
				if r.Intn(3) == 0 {
					t := c19Interesting[r.Intn(len(c19Interesting))]
					data[j] = t[0]
				} else {
					data[j] = byte(r.Intn(256))
				}
			}
		case k < 9:
			kind = "seed"
			seeds := c19SeedDocs[f]
			data = []byte(seeds[r.Intn(len(seeds))])
		default:
			kind = "cross-format" // a document of another format
			of := formats[r.Intn(len(formats))]
			seeds := c19SeedDocs[of]
			data = []byte(seeds[r.Intn(len(seeds))])
		}
		// --- options
		enc := c19Encodings[r.Intn(len(c19Encodings))]
		if r.Intn(3) == 0 {
			enc = "UTF8"
		}
		if r.Intn(2) == 0 { // really encode the text that way (otherwise the bytes are simply declared to be enc)
			data = encodeAs(r, data, enc)
		}
		delim := c19Delims[r.Intn(len(c19Delims))]
		if r.Intn(2) == 0 {
			delim = ","
		}
		if f == "TSV" && r.Intn(3) > 0 {
			delim = "\t"
		}
		pos := c19Positions[r.Intn(len(c19Positions))]
		jq := c19JsonQueries[r.Intn(len(c19JsonQueries))]
		bad := ""
		if r.Intn(12) == 0 { // an invalid option value: must give a usage / application error
			keys := []string{"delimiter", "positions", "encoding", "json-query"}
			bad = keys[r.Intn(len(keys))]
			v := c19BadOptions[bad][r.Intn(len(c19BadOptions[bad]))]
			switch bad {
			case "delimiter":
				delim = v
			case "positions":
				pos = v
			case "encoding":
				enc = v
			case "json-query":
				jq = v
			}
		}
		noHeader, uneven, withoutNull := r.Intn(3) == 0, r.Intn(3) == 0, r.Intn(3) == 0
		if kind == "ragged" && r.Intn(4) != 0 {
			uneven = true
		}
		p := &Probe{Group: "loader", Hint: f}
		outFmt := "CSV"
		switch r.Intn(10) {
		case 0, 1, 2:
			outFmt = "JSON"
		case 3:
			outFmt = []string{"TSV", "FIXED", "JSONL", "LTSV", "GFM", "ORG", "BOX", "TEXT"}[r.Intn(8)]
		}
		q := func(s string) string {
			return "'" + strings.ReplaceAll(strings.ReplaceAll(s, `\`, `\\`), "'", `\'`) + "'"
		}
		bl := func(b bool) string {
			if b {
				return "TRUE"
			}
			return "FALSE"
		}
		delivery := r.Intn(4)
		var args []string
		var sql string
		switch delivery {
		case 0, 1: // command-line options + STDIN or file
			args = append(args, "-i", f, "-e", enc)
			if f == "CSV" || (f == "TSV" && r.Intn(2) == 0) {
				args = append(args, "-d", delim)
			}
			if f == "FIXED" {
				args = append(args, "-m", pos)
			}
			if f == "JSON" || f == "JSONL" {
				args = append(args, "-j", jq)
			}
			if noHeader {
				args = append(args, "--no-header")
			}
			if uneven {
				args = append(args, "--allow-uneven-fields")
			}
			if withoutNull {
				args = append(args, "--without-null")
			}
			if delivery == 0 {
				p.setStdin(data)
				p.EmptyPipe = true
				sql = "SELECT * FROM STDIN"
				if r.Intn(4) == 0 {
					sql = "SELECT * FROM STDIN AS s WHERE TRUE ORDER BY 1"
				}
			} else {
				name := "in" + []string{ext[f], ".dat", ""}[r.Intn(3)]
				p.addFile(name, data)
				sql = "SELECT * FROM `" + name + "`"
			}
		default: // table object in the query
			name := "in.dat"
			p.addFile(name, data)
			switch f {
			case "CSV", "TSV":
				d := delim
				if f == "TSV" {
					d = "\t"
				}
				sql = fmt.Sprintf("SELECT * FROM CSV(%s, `%s`, %s, %s, %s)", q(d), name, q(enc), bl(noHeader), bl(withoutNull))
				if uneven {
					args = append(args, "--allow-uneven-fields")
				}
			case "FIXED":
				sql = fmt.Sprintf("SELECT * FROM FIXED(%s, `%s`, %s, %s, %s)", q(pos), name, q(enc), bl(noHeader), bl(withoutNull))
			case "LTSV":
				sql = fmt.Sprintf("SELECT * FROM LTSV(`%s`, %s, %s)", name, q(enc), bl(withoutNull))
			case "JSON":
				sql = fmt.Sprintf("SELECT * FROM JSON(%s, `%s`)", q(jq), name)
			case "JSONL":
				sql = fmt.Sprintf("SELECT * FROM JSONL(%s, `%s`)", q(jq), name)
			}
			if delivery == 3 && utf8Clean(data) && (f == "CSV" || f == "JSON") { // inline data
				if f == "CSV" {
					sql = fmt.Sprintf("SELECT * FROM CSV(%s, DATA::(%s), %s, %s, %s)", q(delim), q(string(data)), q("UTF8"), bl(noHeader), bl(withoutNull))
				} else {
					sql = fmt.Sprintf("SELECT * FROM JSON(%s, DATA::(%s))", q(jq), q(string(data)))
				}
			}
		}
		if r.Intn(4) == 0 {
			// what is done with a freshly loaded (possibly empty, possibly column-less) table besides printing it
			sql = strings.Replace(sql, "SELECT * FROM", []string{"SELECT COUNT(*) FROM", "SELECT DISTINCT * FROM", "SELECT ROW_NUMBER() OVER () FROM", "SELECT COUNT(*), MIN(1) FROM"}[r.Intn(4)], 1)
		}
		args = append(args, "-f", outFmt)
		if outFmt == "CSV" {
			args = append(args, "--enclose-all")
			p.Shape = "CSV"
		}
		if outFmt == "JSON" {
			p.Shape = "JSON"
		}
		p.Args = append(args, sql)
		if f == "FIXED" {
			p.Arg = pos
		}
		p.Note = fmt.Sprintf("%s input, %s, %d bytes", kind, f, len(data))
		if bad != "" {
			p.Note += ", invalid " + bad
		}
		ps = append(ps, p)
	}
	return ps
}

// the little languages inside string arguments: FORMAT directives (flag, width, precision, verb) against values
// of every class, DATETIME_FORMAT directives, regular expressions, JSON queries.  The boundary sweep passes
// plain strings; a directive with a precision or width beyond the value is a different boundary.
func genFormatSweep(r *rand.Rand, tier string) []*Probe {
	var ps []*Probe
	flags := []string{"", "+", "-", " ", "0"}
	widths := []string{"", "0", "1", "5", "20", "1000", "99999999999999999999"}
	precs := []string{"", ".", ".0", ".1", ".2", ".5", ".100", ".99999999999999999999"}
	verbs := []string{"b", "o", "d", "x", "X", "e", "E", "f", "s", "q", "i", "T", "%", "z", ""}
	vals := []string{"1", "-1", "1.5", "'ab'", "'あいう'", "''", "NULL", "TRUE", "'2012-02-03 09:18:15'", "9223372036854775807", "'a''b`c'"}
	for _, f := range flags {
		for _, w := range widths {
			for _, pr := range precs {
				for _, v := range verbs {
					if tier != "thorough" && r.Intn(5) != 0 && !(pr != "" && (v == "s" || v == "q" || v == "i" || v == "T")) {
						continue
					}
					if len(w) > 4 && tier != "thorough" && r.Intn(3) != 0 {
						continue
					}
					val := vals[r.Intn(len(vals))]
					ps = append(ps, funcProbe("FORMAT", []string{"'[%" + f + w + pr + v + "]'", val}))
				}
			}
		}
	}
	for _, v := range vals {
		for _, pr := range []string{".0", ".1", ".2", ".3", ".5", ".100"} {
			for _, verb := range []string{"s", "q", "i", "T"} {
				ps = append(ps, funcProbe("FORMAT", []string{"'%" + pr + verb + "|%5" + pr + verb + "|%-5" + pr + verb + "'", v, v, v}))
			}
		}
	}
	// datetime formats: every letter as a directive, a trailing %, long runs
	for c := 'a'; c <= 'z'; c++ {
		ps = append(ps, funcProbe("DATETIME_FORMAT", []string{"'2012-02-03 09:18:15.123456789'", "'%" + string(c) + "|%" + strings.ToUpper(string(c)) + "'"}))
	}
	for _, f := range []string{"'%'", "'%%'", "'%%%'", "''", "'%Y%'", "'%-'", "'\\%Y'", "'%あ'"} {
		ps = append(ps, funcProbe("DATETIME_FORMAT", []string{"'2012-02-03 09:18:15'", f}))
		ps = append(ps, funcProbe("DATETIME", []string{"'03/02/2012'", f}))
	}
	// regular expressions and JSON queries
	for _, re := range []string{"'('", "'[a-'", "'a{2,1}'", "'(?P<n>a)'", "'\\'", "'a**'", "'(a|b)*c'", "'^$'", "''", "'.{1000}'", "'(?i)A'"} {
		for _, fn := range []string{"REGEXP_MATCH", "REGEXP_FIND", "REGEXP_FIND_SUBMATCHES", "REGEXP_FIND_ALL"} {
			ps = append(ps, funcProbe(fn, []string{"'abcabc'", re}))
		}
		ps = append(ps, funcProbe("REGEXP_REPLACE", []string{"'abcabc'", re, "'$1$n${x}\\1'"}))
		ps = append(ps, funcProbe("REGEXP_FIND", []string{"'abcabc'", re, "5"}), funcProbe("REGEXP_FIND", []string{"'abcabc'", re, "-1"}))
	}
	for _, q := range []string{"''", "'a'", "'a.b'", "'a[0]'", "'a[9]'", "'a[]'", "'a{b}'", "'a{'", "'[0]'", "'a..b'", "'a[-1]'", "'{}'", "'a{b as c}'", "'.'"} {
		for _, doc := range []string{`'{"a":{"b":1}}'`, `'{"a":[1,{"b":2}]}'`, "'[]'", "'1'", "'null'", "'{'", "''"} {
			ps = append(ps, funcProbe("JSON_VALUE", []string{q, doc}))
		}
	}
	return ps
}

// programs of several statements that reach the same file through different table forms: identifiers, quoted
// paths, table objects, INLINE:: / FILE:: and subqueries, after the table has been loaded, updated or created
func genTableFormPrograms(r *rand.Rand, tier string) []*Probe {
	forms := []string{"t", "`t.csv`", "CSV(',', `t.csv`)", "INLINE::('t.csv')", "INLINE::t", "FILE::('t.csv')", "CSV(',', INLINE::('t.csv'))", "(SELECT * FROM t) s", "LTSV(`t.csv`)", "FIXED('[1,3]', `t.csv`)", "JSON('', `t.csv`)"}
	firsts := []string{"SELECT * FROM %s", "SELECT COUNT(*) FROM %s", "UPDATE t SET a = 9 WHERE a = 1", "INSERT INTO t VALUES (7, 'g')", "DELETE FROM t WHERE a = 1", "SELECT * FROM %s FOR UPDATE",
		"CREATE TABLE `n.csv` (a, b)", "DECLARE c CURSOR FOR SELECT * FROM %s; OPEN c", "ALTER TABLE t ADD z"}
	seconds := []string{"SELECT * FROM %s", "SELECT COUNT(*) FROM %s AS x", "SELECT * FROM %s AS x JOIN %s AS y ON TRUE", "UPDATE %s SET a = 2", "INSERT INTO %s VALUES (8, 'h')"}
	var ps []*Probe
	for _, f1 := range firsts {
		for _, s2 := range seconds {
			for _, form := range forms {
				if tier != "thorough" && r.Intn(3) != 0 {
					continue
				}
				first := f1
				if strings.Contains(first, "%s") {
					first = fmt.Sprintf(first, forms[r.Intn(2)])
				}
				second := strings.ReplaceAll(s2, "%s", form)
				end := []string{"", "; COMMIT", "; ROLLBACK"}[r.Intn(3)]
				p := sqlProbe("table-forms", "forms", first+"; "+second+end)
				p.addFile("t.csv", []byte("a,b\n1,x\n2,y\n"))
				p.Arg = form
				ps = append(ps, p)
			}
		}
	}
	return ps
}

// files around the loaders' size thresholds (the record set is re-allocated from a size estimate when record
// 301 arrives; ranges of records are handed to several goroutines from 150): regular tables of 1..1000 rows
// in every text format, in UTF-8 and in encodings whose text grows or shrinks when decoded (UTF-16, Shift_JIS
// with kanji / half-width katakana), read through the command-line options and through the table objects
func genLoaderSizes(r *rand.Rand, tier string) []*Probe {
	rowCounts := []int{1, 149, 150, 151, 299, 300, 301, 302, 320, 345, 500, 680, 1000}
	contents := []string{"ascii", "kanji", "kana", "mixed"}
	encs := []string{"UTF8", "SJIS", "UTF16LEM", "UTF16BE", "AUTO-SJIS", "AUTO-UTF16"}
	formats := []string{"CSV", "TSV", "LTSV", "FIXED"}
	cell := func(kind string, i int) string {
		switch kind {
		case "kanji":
			return strings.Repeat("日本", 3+i%3)
		case "kana":
			return strings.Repeat("ｱ", 6+i%5)
		case "mixed":
			return fmt.Sprintf("a%dあ", i)
		}
		return fmt.Sprintf("v%d", i%97)
	}
	var ps []*Probe
	for _, n := range rowCounts {
		for _, kind := range contents {
			for _, enc := range encs {
				for _, f := range formats {
					if tier != "thorough" && r.Intn(4) != 0 && !(n >= 300 && n <= 345 && kind != "ascii" && enc != "UTF8" && r.Intn(2) == 0) {
						continue
					}
					var b strings.Builder
					switch f {
					case "CSV":
						b.WriteString("c1,c2\n")
					case "TSV":
						b.WriteString("c1\tc2\n")
					case "FIXED":
						b.WriteString("c1    c2\n")
					}
					for i := 0; i < n; i++ {
						c := cell(kind, i)
						switch f {
						case "CSV":
							fmt.Fprintf(&b, "%d,%s\n", i, c)
						case "TSV":
							fmt.Fprintf(&b, "%d\t%s\n", i, c)
						case "LTSV":
							fmt.Fprintf(&b, "c1:%d\tc2:%s\n", i, c)
						case "FIXED":
							fmt.Fprintf(&b, "%-6d%s\n", i, c)
						}
					}
					var data []byte
					opt := enc
					switch enc {
					case "UTF8":
						data = []byte(b.String())
					case "SJIS", "AUTO-SJIS":
						data = encSpec{"SJIS", false}.encode(b.String())
						if enc == "AUTO-SJIS" {
							opt = "AUTO"
						}
					case "UTF16LEM":
						data = encSpec{"UTF16LE", true}.encode(b.String())
					case "UTF16BE":
						data = encSpec{"UTF16BE", false}.encode(b.String())
					case "AUTO-UTF16":
						data = encSpec{"UTF16BE", true}.encode(b.String())
						opt = "AUTO"
					}
					p := &Probe{Group: "loader-size", Hint: f, Shape: "CSV"}
					p.addFile("in.dat", data)
					sql := "SELECT COUNT(*) AS n, COUNT(c2) AS m FROM `in.dat`"
					if r.Intn(3) == 0 {
						sql = "SELECT * FROM `in.dat`"
					}
					args := []string{"-i", f, "-e", opt}
					if f == "FIXED" {
						args = append(args, "-m", "[6,40]")
					}
					if r.Intn(2) == 0 {
						args = append(args, "-p", []string{"1", "2", "4", "16"}[r.Intn(4)])
					}
					p.Args = append(args, "-f", "CSV", "--enclose-all", sql)
					p.Note = fmt.Sprintf("%d rows of %s cells, %s, file encoded as %s, %d bytes", n, kind, f, enc, len(data))
					ps = append(ps, p)
				}
			}
		}
	}
	return ps
}

func utf8Clean(b []byte) bool {
	for _, c := range b {
		if c == 0 || c >= 0x80 {
			return false
		}
	}
	return true
}
