package main

// C19 exploration machinery: one Probe = one execution of build/csvq in a fresh scratch directory,
// always through runCmd (sql.go: wall-clock bound + ulimit -v 4 GB) with an additional, tighter
// `ulimit -v` of its own; classification of the outcome; shape checkers for the output; corpus I/O.

import (
	"encoding/base64"
	"encoding/json"
	"fmt"
	"io"
	"os"
	"path/filepath"
	"regexp"
	"sort"
	"strings"
	"sync"
	"time"
	"unicode/utf8"
)

type Probe struct {
	Group     string            `json:"group"`                // corpus | loader | func | clause | fs | cli
	Hint      string            `json:"hint"`                 // function / clause / condition: first part of a finding key
	Arg       string            `json:"arg,omitempty"`        // the boundary value(s) this probe is about (used by the known-finding rules)
	Args      []string          `json:"args"`                 // command line of csvq
	Stdin     string            `json:"stdin,omitempty"`      // (text)
	StdinB64  string            `json:"stdin_b64,omitempty"`  // (arbitrary bytes)
	Files     map[string]string `json:"files_b64,omitempty"`  // files created in the scratch directory before the run
	Pre       string            `json:"pre,omitempty"`        // sh snippet run in the scratch directory before exec (as root)
	AsNobody  bool              `json:"as_nobody,omitempty"`  // run csvq as uid 65534 (permission conditions)
	TimeoutMs int               `json:"timeout_ms,omitempty"` // default 10 000
	VLimitKB  int               `json:"vlimit_kb,omitempty"`  // default 1 000 000
	Shape     string            `json:"shape,omitempty"`      // CSV | JSON: check that the printed result is rectangular
	AnyStatus bool              `json:"any_status,omitempty"` // the program chooses its own exit code (EXIT n / TRIGGER ERROR n)
	EmptyPipe bool              `json:"empty_pipe,omitempty"` // empty stdin is an (immediately closed) pipe; default: /dev/null
	Key       string            `json:"key,omitempty"`        // corpus entries: the finding this input reproduced when it was stored
	Note      string            `json:"note,omitempty"`
}

func (p *Probe) stdinBytes() string {
	if p.StdinB64 != "" {
		b, _ := base64.StdEncoding.DecodeString(p.StdinB64)
		return string(b)
	}
	return p.Stdin
}

func (p *Probe) setStdin(b []byte) {
	if utf8.Valid(b) && !strings.ContainsAny(string(b), "\x00") {
		p.Stdin = string(b)
	} else {
		p.StdinB64 = base64.StdEncoding.EncodeToString(b)
	}
}

func (p *Probe) addFile(name string, b []byte) {
	if p.Files == nil {
		p.Files = map[string]string{}
	}
	p.Files[name] = base64.StdEncoding.EncodeToString(b)
}

// signature of the input (distinct-case counting)
func (p *Probe) signature() string {
	names := make([]string, 0, len(p.Files))
	for n := range p.Files {
		names = append(names, n+"="+p.Files[n])
	}
	sort.Strings(names)
	return strings.Join(p.Args, "\x1f") + "\x1e" + p.stdinBytes() + "\x1e" + strings.Join(names, "\x1f") + "\x1e" + p.Pre
}

type ProbeResult struct {
	P      *Probe
	R      RunResult
	Key    string // "" = clean
	What   string
	Status int
}

var (
	pubBinOnce sync.Once
	pubBinPath string
	pubBinDir  string
)

// a world-executable copy of the binary for runs as `nobody` (the build directory may sit under /root)
func publicBinary() string {
	pubBinOnce.Do(func() {
		d, err := os.MkdirTemp("", "csvqv-pub-")
		if err != nil {
			panic(err)
		}
		_ = os.Chmod(d, 0755)
		pubBinDir = d
		src, err := os.Open(csvqBinary())
		if err != nil {
			panic(err)
		}
		defer src.Close()
		pubBinPath = filepath.Join(d, "csvq")
		dst, err := os.OpenFile(pubBinPath, os.O_CREATE|os.O_WRONLY, 0755)
		if err != nil {
			panic(err)
		}
		_, _ = io.Copy(dst, src)
		_ = dst.Close()
	})
	return pubBinPath
}

func cleanupPublicBinary() {
	if pubBinDir != "" {
		_ = os.RemoveAll(pubBinDir)
	}
}

func haveSetpriv() bool {
	_, err := os.Stat("/usr/bin/setpriv")
	return err == nil
}

func (p *Probe) run() RunResult {
	sc := newScratch()
	defer func() {
		_ = os.Chmod(sc.Dir, 0755) // a probe may have made it read-only
		sc.Close()
	}()
	for name, b64 := range p.Files {
		b, _ := base64.StdEncoding.DecodeString(b64)
		full := sc.Path(name)
		_ = os.MkdirAll(filepath.Dir(full), 0755)
		if err := os.WriteFile(full, b, 0644); err != nil {
			panic(err)
		}
	}
	lim := p.VLimitKB
	if lim == 0 {
		lim = 1000000
	}
	to := time.Duration(p.TimeoutMs) * time.Millisecond
	if to == 0 {
		to = 10 * time.Second
	}
	pre := ""
	if p.Pre != "" {
		pre = p.Pre + "\n"
	}
	// NB: with a pipe on stdin csvq adds an implicit `FROM STDIN` to a SELECT without FROM (an empty pipe = an
	// empty table = the select list is never evaluated), so an empty stdin is /dev/null unless asked otherwise
	if p.stdinBytes() == "" && !p.EmptyPipe {
		pre = "exec </dev/null\n" + pre
	}
	script := fmt.Sprintf("ulimit -v %d\n%sexec \"$@\"", lim, pre)
	argv := []string{"/bin/sh", "-c", script, "sh"}
	if p.AsNobody {
		_ = os.Chmod(sc.Dir, 0777)
		argv = append(argv, "/usr/bin/setpriv", "--reuid=65534", "--regid=65534", "--clear-groups", publicBinary())
	} else {
		argv = append(argv, csvqBinary())
	}
	argv = append(argv, p.Args...)
	return runCmd(sc.Dir, argv, p.stdinBytes(), to)
}

// ---- classification -----------------------------------------------------------------------------
var c19Markers = []string{"Fatal Error", "panic:", "goroutine ", "runtime error", "fatal error:", "SIGSEGV", "unexpected signal"}

var reDigits = regexp.MustCompile(`[0-9]+`)
var reHex = regexp.MustCompile(`0x[0-9a-fA-F]+`)
var reNonAlnum = regexp.MustCompile(`[^a-z0-9]+`)

// crashClass: a short stable class of the internal-failure message (numbers and addresses removed)
func crashClass(r RunResult) string {
	text := r.Stderr + "\n" + r.Stdout
	line := ""
	switch {
	case strings.Contains(text, "out of memory") || strings.Contains(text, "cannot allocate memory"):
		return "out-of-memory"
	case strings.Contains(text, "[Fatal Error] "):
		line = text[strings.Index(text, "[Fatal Error] ")+len("[Fatal Error] "):]
	case strings.Contains(text, "panic: "):
		line = text[strings.Index(text, "panic: ")+len("panic: "):]
	case strings.Contains(text, "fatal error: "):
		line = text[strings.Index(text, "fatal error: ")+len("fatal error: "):]
	default:
		line = text
	}
	if i := strings.IndexByte(line, '\n'); i >= 0 {
		line = line[:i]
	}
	line = strings.ToLower(line)
	line = reHex.ReplaceAllString(line, "x")
	line = reDigits.ReplaceAllString(line, "n")
	line = strings.Trim(reNonAlnum.ReplaceAllString(line, "-"), "-")
	if len(line) > 70 {
		line = line[:70]
	}
	if line == "" {
		line = "internal-failure"
	}
	return line
}

// stable keys of the findings known when this check was written.  A rule applies when the generic key
// "<group>:<hint>:<class>" AND the probe's boundary argument match; anything else keeps its generic key and
// is reported as a new violation (so a different crash of the same function, or the same crash class on a
// different argument shape, is still reported).
var c19Huge = `(92233720368547758|2147483648|2147483649|e308|[0-9]{10,})`
var c19KnownKeys = []struct {
	re, arg *regexp.Regexp
	key     string
}{
	{regexp.MustCompile(`^[a-z]+:(LPAD|RPAD):(strings-.*repeat.*|runtime-error-makeslice-len-out-of-range|out-of-memory)$`), regexp.MustCompile(c19Huge), "lpad-rpad-repeat-count"},
	{regexp.MustCompile(`^[a-z]+:JSON_VALUE:runtime-error-invalid-memory-address-or-nil-pointer-dereference$`), nil, "json-value-empty"},
	{regexp.MustCompile(`^[a-z]+:EXECUTE:interface-conversion-value-primary-is-value-[a-z]+-not-value-string$`), nil, "execute-non-string"},
	{regexp.MustCompile(`^[a-z]+:NUMBER_FORMAT:(timeout|out-of-memory)$`), regexp.MustCompile(c19Huge), "number-format-huge-precision"},
	{regexp.MustCompile(`^[a-z]+:(LIMIT|FETCH-FIRST)[A-Z-]*:runtime-error-index-out-of-range-n$`), regexp.MustCompile(`^(0|-[0-9.e]+)$`), "limit-0-with-ties"},
	{regexp.MustCompile(`^[a-z]+:removed-cwd:runtime-error-invalid-memory-address-or-nil-pointer-dereference$`), nil, "nil-err-removed-cwd"},
	{regexp.MustCompile(`^[a-z]+:empty-file:runtime-error-index-out-of-range-n-with-length-n$`), nil, "empty-file-update"},
	{regexp.MustCompile(`^[a-z]+:(LIMIT|FETCH-FIRST)[A-Z-]*:runtime-error-(slice-bounds-out-of-range-n|index-out-of-range-n-with-length-n)$`), regexp.MustCompile(`(?i)^'nan'$`), "limit-nan-percent"},
	{regexp.MustCompile(`^[a-z]+:WINDOW-FRAME:(runtime-error-makeslice-cap-out-of-range|runtime-error-makeslice-len-out-of-range|timeout|out-of-memory)$`), regexp.MustCompile(c19Huge), "window-frame-huge-offset"},
	{regexp.MustCompile(`^[a-z]+:FIXED:(out-of-memory|timeout)$`), regexp.MustCompile(`^[sS]\[\s*\]$`), "fixed-single-line-empty-positions"},
	{regexp.MustCompile(`^[a-z]+:RAND:invalid-argument-to-intnn$`), nil, "rand-range-overflow"},
	{regexp.MustCompile(`^[a-z]+:(JSON_OBJECT|JSON-OUTPUT|--format|--out):interface-conversion-json-structure-is-json-[a-z]+-not-json-object$`), nil, "json-object-path-conflict"},
	{regexp.MustCompile(`^[a-z]+:fifo-no-writer:timeout$`), nil, "fifo-no-writer-blocks"},
	{regexp.MustCompile(`^[a-z]+:(SUBSTR|SUBSTRING):runtime-error-slice-bounds-out-of-range-n$`), regexp.MustCompile(c19Huge), "substring-length-overflow"},
	{regexp.MustCompile(`^[a-z]+:FORMAT:(runtime-error-makeslice-len-out-of-range|strings-.*repeat.*|out-of-memory|timeout)$`), regexp.MustCompile(`%[-+ 0]?[0-9]{7,}|%[-+ 0]?[0-9]*\.[0-9]{7,}`), "format-huge-width"},
}

func stableKey(generic, arg string) string {
	for _, k := range c19KnownKeys {
		if k.re.MatchString(generic) && (k.arg == nil || k.arg.MatchString(arg)) {
			return k.key
		}
	}
	return generic
}

var documentedStatus = map[int]bool{0: true, 1: true, 2: true, 4: true, 8: true, 16: true, 32: true, 64: true}

// classify: "" when the run ended cleanly (exit 0, or non-zero with a message and no internal-failure marker)
func classify(p *Probe, r RunResult) (key, what string) {
	group := p.Group
	mk := func(class, what string) (string, string) {
		return stableKey(group+":"+p.Hint+":"+class, p.Arg), what
	}
	text := r.Stderr + "\n" + r.Stdout
	if r.TimedOut {
		return mk("timeout", "no termination within the wall-clock bound")
	}
	for _, m := range c19Markers {
		if strings.Contains(text, m) {
			cls := crashClass(r)
			first := strings.TrimSpace(r.Stderr)
			if len(first) > 200 {
				first = first[:200]
			}
			return mk(cls, "internal failure ("+m+"): "+first)
		}
	}
	if r.Code < 0 {
		return mk("killed-by-signal", "the process died by a signal")
	}
	if r.Code != 0 && strings.TrimSpace(r.Stderr) == "" {
		return mk("no-error-message", fmt.Sprintf("exit status %d without an error message", r.Code))
	}
	if r.Code == 0 && p.Shape != "" {
		if bad := shapeProblem(p.Shape, r.Stdout); bad != "" {
			return mk("non-rectangular", "loaded table is not rectangular: "+bad)
		}
	}
	return "", ""
}

// ---- shape of the printed result ------------------------------------------------------------------
// CSV as csvq prints it with --enclose-all (NULL = empty unquoted field, "" escapes a quote, LF record ends)
func parseCSVOutput(s string) ([][]string, bool) {
	s = strings.TrimSuffix(s, "\n")
	if s == "" {
		return nil, true
	}
	var recs [][]string
	var rec []string
	var cur strings.Builder
	inQ := false
	i := 0
	for i < len(s) {
		c := s[i]
		switch {
		case inQ && c == '"' && i+1 < len(s) && s[i+1] == '"':
			cur.WriteByte('"')
			i++
		case inQ && c == '"':
			inQ = false
		case inQ:
			cur.WriteByte(c)
		case c == '"':
			inQ = true
		case c == ',':
			rec = append(rec, cur.String())
			cur.Reset()
		case c == '\n':
			rec = append(rec, cur.String())
			cur.Reset()
			recs = append(recs, rec)
			rec = nil
		default:
			cur.WriteByte(c)
		}
		i++
	}
	rec = append(rec, cur.String())
	recs = append(recs, rec)
	return recs, !inQ
}

func shapeProblem(format, out string) string {
	switch format {
	case "CSV":
		recs, ok := parseCSVOutput(out)
		if !ok {
			return "unterminated quoted field in the CSV output"
		}
		for i, r := range recs {
			if len(r) != len(recs[0]) {
				return fmt.Sprintf("record %d has %d fields, the header has %d", i, len(r), len(recs[0]))
			}
		}
	case "JSON":
		// only the top-level keys reflect the header (nested structure is data or dotted column names);
		// output that is not JSON at all (e.g. `[,,]` for a table without columns) is not a C19 matter
		var rows []json.RawMessage
		if json.Unmarshal([]byte(out), &rows) != nil {
			return ""
		}
		first := ""
		for n, raw := range rows {
			dec := json.NewDecoder(strings.NewReader(string(raw)))
			tok, err := dec.Token()
			if err != nil {
				return ""
			}
			if d, ok := tok.(json.Delim); !ok || d != '{' {
				return fmt.Sprintf("element %d of the JSON output is not an object", n)
			}
			var keys []string
			for dec.More() {
				k, err := dec.Token()
				if err != nil {
					return ""
				}
				var v json.RawMessage
				if err := dec.Decode(&v); err != nil {
					return ""
				}
				keys = append(keys, fmt.Sprintf("%q", k))
			}
			sig := strings.Join(keys, ",")
			if n == 0 {
				first = sig
			} else if sig != first {
				return fmt.Sprintf("object %d has keys [%s], the first has [%s]", n, sig, first)
			}
		}
	}
	return ""
}

// ---- worker pool -----------------------------------------------------------------------------------
func runProbes(ps []*Probe, workers int) []ProbeResult {
	res := make([]ProbeResult, len(ps))
	var wg sync.WaitGroup
	ch := make(chan int)
	for w := 0; w < workers; w++ {
		wg.Add(1)
		go func() {
			defer wg.Done()
			for i := range ch {
				r := ps[i].run()
				k, what := classify(ps[i], r)
				res[i] = ProbeResult{P: ps[i], R: r, Key: k, What: what, Status: r.Code}
			}
		}()
	}
	for i := range ps {
		ch <- i
	}
	close(ch)
	wg.Wait()
	return res
}

// ---- corpus ------------------------------------------------------------------------------------------
func loadCorpus(root string) []*Probe {
	files, _ := filepath.Glob(filepath.Join(root, "corpus", "C19", "*.json"))
	sort.Strings(files)
	var ps []*Probe
	for _, f := range files {
		b, err := os.ReadFile(f)
		if err != nil {
			panic(err)
		}
		var p Probe
		if err := json.Unmarshal(b, &p); err != nil {
			panic(fmt.Sprintf("corpus file %s: %v", f, err))
		}
		p.Note = "corpus/C19/" + filepath.Base(f)
		ps = append(ps, &p)
	}
	return ps
}

// shellReplay: a copy-and-paste reproduction of a probe
func shellReplay(p *Probe) string {
	q := func(s string) string { return "'" + strings.ReplaceAll(s, "'", `'\''`) + "'" }
	var b strings.Builder
	b.WriteString("d=$(mktemp -d) && cd $d")
	names := make([]string, 0, len(p.Files))
	for n := range p.Files {
		names = append(names, n)
	}
	sort.Strings(names)
	for _, n := range names {
		b.WriteString(" && echo " + p.Files[n] + " | base64 -d > " + q(n))
	}
	if p.Pre != "" {
		b.WriteString(" && " + strings.ReplaceAll(p.Pre, "\n", " && "))
	}
	b.WriteString(" && ")
	if s := p.stdinBytes(); s != "" {
		b.WriteString("echo " + base64.StdEncoding.EncodeToString([]byte(s)) + " | base64 -d | ")
	}
	b.WriteString("(ulimit -v 1000000; timeout -s KILL 10 csvq")
	for _, a := range p.Args {
		b.WriteString(" " + q(a))
	}
	b.WriteString(")")
	return b.String()
}
