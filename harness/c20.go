package main

// C20: within a transaction a loaded table is stable and shows its own changes.
// Two library Transactions (each with its own Session and FileContainer) on one scratch
// directory: A runs a generated sequence of SELECT / SELECT ... FOR UPDATE / INSERT-UPDATE-DELETE
// / failing statements / COMMIT / ROLLBACK; between A's steps B changes a table and commits
// (whole transaction).  B can only commit when A does not hold the table's lock; otherwise B
// runs into its (short) lock wait timeout, which is recorded as "B was locked out".

import (
	"context"
	"fmt"
	"math/rand"
	"path/filepath"
	"strings"
	"time"

	"github.com/mithrandie/csvq/lib/file"

	"github.com/mithrandie/csvq/lib/parser"
	"github.com/mithrandie/csvq/lib/query"
)

func init() { runners["C20"] = runC20 }

func (s *libSess) readForUpdate(tableSQL string) (obsTab, error) {
	stmts, _, err := parser.Parse("SELECT * FROM "+tableSQL+" FOR UPDATE", "", false, s.tx.Flags.AnsiQuotes)
	if err != nil {
		return nil, err
	}
	v, err := query.Select(context.Background(), s.proc.ReferenceScope, stmts[0].(parser.SelectQuery))
	if err != nil {
		return nil, err
	}
	return viewToTab(v), nil
}

func c20Init(rnd *rand.Rand, k int) initTab {
	t := initTab{Header: []string{"c1", "c2"}}
	n := 1 + rnd.Intn(4)
	for i := 1; i <= n; i++ {
		t.Rows = append(t.Rows, strCells(fmt.Sprint(i), fmt.Sprint(10*i+k)))
	}
	return t
}

func runC20(seed int64, tier string, out string) {
	rnd := rand.New(rand.NewSource(seed))
	meta := newMeta("C20", seed)
	meta.Rule = "transaction A: random sequences (8-24 steps) over two CSV tables of plain SELECT (35%), SELECT FOR UPDATE (10%; a third of them over a join of both tables, which loads both for update), INSERT / UPDATE / DELETE incl. statements hitting no row (20%), a failing UPDATE (5%), COMMIT (6%), ROLLBACK (4%), interleaved with whole-transaction commits of a second Transaction B on the same directory (20%; B's UPDATE / INSERT / DELETE + COMMIT; B is locked out when A holds the table's lock). Every read of A, A's cache flags and uncommitted maps after every step, whether B was locked out, and the files at the end are compared. Distinct = distinct abstract schedules (step kinds and tables) containing at least one commit of B between two reads of the same table by A."
	w := &txnShard{dir: out, prop: "C20", max: 120, meta: meta, caseType: "c20case", checkFn: "check_c20",
		header: fmt.Sprintf(txnShardHeader, "Csvq.Harness.H20")}
	nCases := 220
	if tier == "thorough" {
		nCases = 2500
	}
	ctx := context.Background()
	distinct := map[string]bool{}
	for id := 0; id < nCases; id++ {
		func() {
			sc := newScratch()
			defer sc.Close()
			init := map[int]initTab{0: c20Init(rnd, 0), 1: c20Init(rnd, 1)}
			writeInit(sc.Dir, init)
			a := newLibSess(sc.Dir, 5)
			b := newLibSess(sc.Dir, 0.03)
			r := &recorder{s: a, w: w, nfiles: 2, ntemps: 0}
			nSteps := 8 + rnd.Intn(17)
			var sched []string
			defer func() {
				if e := recover(); e != nil {
					meta.Direct = append(meta.Direct, DirectViolation{Key: "unexpected-failure", What: "the implementation failed where the harness needs it to work (B's COMMIT, reading a table back, ...): " + fmt.Sprint(e),
						Case: map[string]interface{}{"schedule_so_far": strings.Join(sched, " "), "run": r.show}})
				}
			}()
			nextID := 100
			bSeq := 0
			interesting := false
			readSince := map[int]bool{}  // tables A has read since its last end
			extSince := map[int]bool{}   // ... and B committed to afterwards
			for st := 0; st < nSteps; st++ {
				f := rnd.Intn(2)
				x := rnd.Intn(100)
				switch {
				case x < 35: // plain SELECT
					t, err := a.read(fileSQL(f))
					r.emit(fmt.Sprintf("IRead %s %s", coqN(f), w.optTabRef(t, err == nil)), map[string]interface{}{"A": "SELECT * FROM " + fileName(f), "result": showOpt(t, err)})
					sched = append(sched, fmt.Sprintf("r%d", f))
					if extSince[f] {
						interesting = true
					}
					readSince[f] = true
				case x < 45 && rnd.Intn(3) == 0: // SELECT over a join of both tables FOR UPDATE: every table of the FROM clause is loaded for update
					g := 1 - f
					_, jerr := a.readForUpdate(fileSQL(f) + " AS ja CROSS JOIN " + fileSQL(g) + " AS jb")
					for _, k := range []int{f, g} {
						var t obsTab
						err := jerr
						if jerr == nil {
							t, err = a.read(fileSQL(k))
						}
						r.emit(fmt.Sprintf("IReadFU %s %s", coqN(k), w.optTabRef(t, err == nil)), map[string]interface{}{"A": "SELECT * FROM " + fileName(f) + " CROSS JOIN " + fileName(g) + " FOR UPDATE (table " + fileName(k) + " as read afterwards)", "result": showOpt(t, err)})
						sched = append(sched, fmt.Sprintf("u%d", k))
						if extSince[k] {
							interesting = true
						}
						readSince[k] = true
					}
				case x < 45: // SELECT FOR UPDATE
					t, err := a.readForUpdate(fileSQL(f))
					r.emit(fmt.Sprintf("IReadFU %s %s", coqN(f), w.optTabRef(t, err == nil)), map[string]interface{}{"A": "SELECT * FROM " + fileName(f) + " FOR UPDATE", "result": showOpt(t, err)})
					sched = append(sched, fmt.Sprintf("u%d", f))
					if extSince[f] {
						interesting = true
					}
					readSince[f] = true
				case x < 65: // data-changing statement
					var sql string
					switch rnd.Intn(4) {
					case 0:
						sql = fmt.Sprintf("INSERT INTO %s VALUES (%d, %d)", fileSQL(f), nextID, rnd.Intn(1000))
						nextID++
					case 1:
						sql = fmt.Sprintf("UPDATE %s SET c2 = %d WHERE c1 = %d", fileSQL(f), rnd.Intn(1000), 1+rnd.Intn(4))
					case 2:
						sql = fmt.Sprintf("DELETE FROM %s WHERE c1 = %d", fileSQL(f), 1+rnd.Intn(5))
					default:
						sql = fmt.Sprintf("UPDATE %s SET c2 = 0 WHERE c1 = 99999", fileSQL(f)) // hits no row
					}
					r.do(ctx, sql, targetEff("change", false, f))
					t, err := a.read(fileSQL(f))
					r.emit(fmt.Sprintf("IRead %s %s", coqN(f), w.optTabRef(t, err == nil)), nil)
					sched = append(sched, fmt.Sprintf("c%d", f))
					readSince[f] = true
				case x < 70: // failing statement that has loaded the table for update
					sql := fmt.Sprintf("UPDATE %s SET c2 = 1 / 0", fileSQL(f))
					r.do(ctx, sql, effect{kind: "fail", file: f, temp: -1, touched: []int{f}})
					sched = append(sched, fmt.Sprintf("x%d", f))
				case x < 76:
					r.do(ctx, "COMMIT", effect{kind: "commit", file: -1, temp: -1})
					sched = append(sched, "C")
					readSince, extSince = map[int]bool{}, map[int]bool{}
				case x < 80:
					r.do(ctx, "ROLLBACK", effect{kind: "rollback", file: -1, temp: -1})
					sched = append(sched, "R")
					readSince, extSince = map[int]bool{}, map[int]bool{}
				default: // B changes f and commits
					var sql string
					bSeq++
					switch rnd.Intn(3) {
					case 0:
						sql = fmt.Sprintf("UPDATE %s SET c2 = c2 + %d", fileSQL(f), 1000*bSeq)
					case 1:
						sql = fmt.Sprintf("INSERT INTO %s VALUES (%d, %d)", fileSQL(f), 9000+bSeq, bSeq)
					default:
						sql = fmt.Sprintf("DELETE FROM %s WHERE c1 = %d", fileSQL(f), 1+rnd.Intn(3))
					}
					_, _, err := b.execOne(ctx, sql)
					if err != nil && !file.Exists(file.LockFilePath(filepath.Join(sc.Dir, fileName(f)))) {
						// no lock file of A: the short timeout expired for another reason (machine
						// load) -- let B try again with a generous timeout
						_ = b.proc.Rollback(nil)
						b.tx.UpdateWaitTimeout(3, 5*time.Millisecond)
						_, _, err = b.execOne(ctx, sql)
						b.tx.UpdateWaitTimeout(0.03, 5*time.Millisecond)
						meta.Distribution["B-retried-with-long-timeout"]++
					}
					if err != nil {
						_ = b.proc.Rollback(nil)
						if !strings.Contains(err.Error(), "lock") && !strings.Contains(err.Error(), "timeout") {
							r.notes = append(r.notes, "B failed for another reason than the lock: "+err.Error())
						}
						r.emit(fmt.Sprintf("IExt %s None", coqN(f)), map[string]interface{}{"B": sql, "locked_out": err.Error()})
						sched = append(sched, fmt.Sprintf("b%d-", f))
					} else {
						t, rerr := b.read(fileSQL(f))
						if rerr != nil {
							panic(rerr)
						}
						if cerr := b.proc.Commit(ctx, nil); cerr != nil {
							panic("harness: B cannot commit: " + cerr.Error())
						}
						r.emit(fmt.Sprintf("IExt %s (Some %s)", coqN(f), w.tabRef(t)), map[string]interface{}{"B": sql + "; COMMIT", "committed": showTab(t)})
						sched = append(sched, fmt.Sprintf("b%d+", f))
						if readSince[f] {
							extSince[f] = true
						}
					}
				}
				r.white()
			}
			_ = a.finish(false)
			_ = b.finish(false)
			r.emit("IOp SRollback", map[string]interface{}{"A": "(end of the session: rollback)"})
			r.disk(init)
			c := map[string]interface{}{"schedule": strings.Join(sched, " "), "run": r.show}
			if len(r.notes) > 0 {
				c["harness_notes"] = r.notes
			}
			meta.Cases[fmt.Sprint(id)] = c
			w.add(fmt.Sprintf("mkC20 %s %s %s\n  %s", coqN(id), coqKeys(seqInts(2)), coqD0Ref(w, init), r.coqItems()))
			meta.Evaluations++
			for _, s := range sched {
				meta.Distribution["step:"+strings.TrimRight(s, "01")[:1]+strings.TrimLeft(s[1:], "01")]++
			}
			meta.Distribution[fmt.Sprintf("steps:%d-%d", nSteps/8*8, nSteps/8*8+7)]++
			if interesting {
				distinct[strings.Join(sched, " ")] = true
				meta.Distribution["has-foreign-commit-between-two-reads"]++
			}
			if len(meta.Samples) < 3 && interesting {
				meta.Samples = append(meta.Samples, map[string]interface{}{"schedule (r/u/c/x = A reads / reads for update / changes / fails on table n; C/R = A commits / rolls back; bn+ / bn- = B commits to table n / is locked out)": strings.Join(sched, " ")})
			}
		}()
	}
	w.flush()
	meta.Distinct = len(distinct)
	meta.write(out)
}

func showOpt(t obsTab, err error) interface{} {
	if err != nil {
		return "error: " + err.Error()
	}
	return showTab(t)
}
