package main

// Rendering of Go-side values as Coq terms of the model (Csvq.Model.Value), and the string oracles.

import (
	"math/big"
	"fmt"
	"math"
	"strconv"
	"strings"
	"time"
	"unicode/utf8"

	"github.com/mithrandie/csvq/lib/option"
	"github.com/mithrandie/csvq/lib/value"
	"github.com/mithrandie/ternary"
)

var utc = time.UTC

func coqStr(s string) string {
	if s == "" {
		return "[]"
	}
	var b strings.Builder
	b.WriteString("[")
	first := true
	for _, r := range s {
		if !first {
			b.WriteString(";")
		}
		first = false
		b.WriteString(strconv.Itoa(int(r)))
	}
	b.WriteString("]%N")
	return b.String()
}

func coqFloat(f float64) string {
	switch {
	case math.IsNaN(f):
		return "nan"
	case math.IsInf(f, 1):
		return "infinity"
	case math.IsInf(f, -1):
		return "neg_infinity"
	case f == 0 && math.Signbit(f):
		return "(-0)%float"
	case f == 0:
		return "0%float"
	}
	s := strconv.FormatFloat(math.Abs(f), 'x', -1, 64)
	if f < 0 {
		return "(-" + s + ")%float"
	}
	return s + "%float"
}

func coqZ(z int64) string { return fmt.Sprintf("(%d)%%Z", z) }
func coqN(n int) string   { return fmt.Sprintf("%d%%N", n) }
func coqOptZ(ok bool, z int64) string {
	if ok {
		return "(Some " + coqZ(z) + ")"
	}
	return "None"
}
func coqBool(b bool) string {
	if b {
		return "true"
	}
	return "false"
}
func coqTern(t ternary.Value) string {
	switch t {
	case ternary.TRUE:
		return "TT"
	case ternary.FALSE:
		return "TF"
	}
	return "TU"
}
func coqList(items []string) string { return "[" + strings.Join(items, "; ") + "]" }

// the oracles are computed with the Go standard library on option.TrimSpace(s), independently of
// csvq's conv.go -- except datetime recognition, which is csvq's own StrToTime (trusted base).
func coqSinfo(s string) string {
	if !utf8.ValidString(s) {
		panic("harness: invalid UTF-8 in generated string")
	}
	t := option.TrimSpace(s)
	i, ei := strconv.ParseInt(t, 10, 64)
	f, ef := strconv.ParseFloat(t, 64)
	of := "None"
	if ef == nil {
		of = "(Some " + coqFloat(f) + ")"
	}
	dt, okd := value.StrToTime(s, nil, utc)
	nanos := "None"
	if okd {
		nanos = "(Some " + coqNanos(dt) + ")"
	}
	b, eb := strconv.ParseBool(t)
	ob := "None"
	if eb == nil {
		ob = "(Some " + coqBool(b) + ")"
	}
	return fmt.Sprintf("(mkS %s %s %s %s %s %s %s)", coqStr(s), coqStr(t), coqStr(strings.ToUpper(t)),
		coqOptZ(ei == nil, i), of, nanos, ob)
}

// coqNanos: the instant as nanoseconds since the epoch, exactly (time.UnixNano is only defined for years
// 1678..2261; the model compares datetimes as unbounded integers, as time.Time.Before / Equal do)
func coqNanos(t time.Time) string {
	n := new(big.Int).Mul(big.NewInt(t.Unix()), big.NewInt(1000000000))
	n.Add(n, big.NewInt(int64(t.Nanosecond())))
	return "(" + n.String() + ")%Z"
}

// dtUnsafe reports strings whose datetime reading is outside the range in which csvq's SORT values are right
// (finding datetime-sort-beyond-int64-nanos): generators of sorted / bucketed columns leave them out
func dtUnsafe(s string) bool {
	dt, ok := value.StrToTime(s, nil, utc)
	if !ok {
		return false
	}
	y := dt.Year()
	return y < 1700 || y > 2250
}

func coqVal(p value.Primary) string {
	switch v := p.(type) {
	case *value.Null:
		return "VNull"
	case *value.Integer:
		return "(VInt " + coqZ(v.Raw()) + ")"
	case *value.Float:
		return "(VFloat " + coqFloat(v.Raw()) + ")"
	case *value.Boolean:
		return "(VBool " + coqBool(v.Raw()) + ")"
	case *value.Ternary:
		return "(VTern " + coqTern(v.Ternary()) + ")"
	case *value.Datetime:
		return "(VDt " + coqNanos(v.Raw()) + ")"
	case *value.String:
		return "(VStr " + coqSinfo(v.Raw()) + ")"
	}
	panic(fmt.Sprintf("harness: unknown primary %T", p))
}

func showVal(p value.Primary) string {
	if p == nil {
		return "<nil>"
	}
	switch v := p.(type) {
	case *value.Float:
		return fmt.Sprintf("Float(%s bits=%016x)", strconv.FormatFloat(v.Raw(), 'g', -1, 64), math.Float64bits(v.Raw()))
	case *value.String:
		return fmt.Sprintf("String(%q)", v.Raw())
	case *value.Integer:
		return fmt.Sprintf("Integer(%d)", v.Raw())
	case *value.Datetime:
		return "Datetime(" + v.Raw().UTC().Format(time.RFC3339Nano) + ")"
	case *value.Boolean:
		return fmt.Sprintf("Boolean(%v)", v.Raw())
	case *value.Ternary:
		return "Ternary(" + v.Ternary().String() + ")"
	case *value.Null:
		return "Null"
	}
	return fmt.Sprintf("%T", p)
}
