package main

// C03 / C04 / C07: SELECT queries through parser.Parse + query.Select, compared with
// Model.Query.eval_query inside Coq (Harness/HQuery.v).

import (
	"fmt"
	"math/rand"
	"strings"
)

func init() {
	runners["C03"] = func(seed int64, tier, out string) { runQueryProp("C03", seed, tier, out) }
	runners["C07"] = func(seed int64, tier, out string) { runQueryProp("C07", seed, tier, out) }
}

const qHeader = "From Coq Require Import ZArith NArith List Floats.\nRequire Import Csvq.Model.Base Csvq.Model.Value Csvq.Model.Compare Csvq.Model.Arith Csvq.Model.Expr Csvq.Model.Key Csvq.Model.SortVal Csvq.Model.Query Csvq.Model.Using Csvq.Harness.HQuery.\nOpen Scope list_scope.\n"

type queryShard struct {
	defs  []string
	cases []string
}

func (s *queryShard) render() string {
	return qHeader + strings.Join(s.defs, "") +
		"Definition qcases : list qcase := [\n " + strings.Join(s.cases, ";\n ") + "\n].\n" +
		"Definition M := Eval vm_compute in (check_queries qcases).\nPrint M.\n"
}

func obsRows(rows [][]string) string { return "" }

func runQueryProp(prop string, seed int64, tier string, out string) {
	r := rand.New(rand.NewSource(seed))
	meta := newMeta(prop, seed)
	g := &qGen{r: r, pool: qPool(), noDiv: false, lateral: prop == "C03"}
	selfCheckLiterals(g.pool)
	nWorlds, perWorld := 45, 14
	if tier == "thorough" {
		nWorlds, perWorld = 160, 16
	}
	switch prop {
	case "C03":
		meta.Rule = "worlds of 3 CSV tables (0-12 rows, some 100-400; NULLs, duplicates, padded / mixed-type text) and generated SELECT queries: sources = tables, derived tables and CROSS/INNER/LEFT/RIGHT/FULL joins nested to depth 3 (4 in thorough) with ON conditions, WHERE conditions and select-list expressions from the C06 expression language; run through parser.Parse + query.Select at cpu 1 and 4; rows compared as a sequence for single-source queries and as a multiset for joins. Non-trivial = the query returned at least one row or an error class; distinct = distinct SQL texts."
	case "C04":
		meta.Rule = "worlds of 3 CSV tables and generated GROUP BY (keys = columns or expressions) with COUNT/SUM/AVG/MIN/MAX [DISTINCT] and COUNT(*), aggregates without GROUP BY (incl. empty input), SELECT DISTINCT, and UNION/EXCEPT/INTERSECT [ALL], each with and without --strict-equal, over cells that contain the key separator and tags, values equal across types, padded / case variants and NULLs; compared exactly with the model (buckets in first-occurrence order at cpu 1; as a multiset over joins). Non-trivial = at least two input rows; distinct = distinct SQL texts."
	case "C07":
		meta.Rule = "sortable tables (every column all-integer, all-numeric, all-datetime or all non-numeric text, plus NULLs and duplicates; 0-40 rows, some 100-400) and ORDER BY over 1-3 keys with ASC/DESC and NULLS FIRST/LAST, LIMIT n / LIMIT p PERCENT [WITH TIES] and OFFSET with n,p from {-1,0,1,2,len-1,len,len+1,len/2,huge} x {-1,0,0.5,...,150}; the implementation's output is checked in Coq: no inversion, sub-multiset of the input, the model's length, and key classes equal to the model's position by position. Non-trivial = at least two rows; distinct = distinct SQL texts."
	}
	distinct := map[string]bool{}
	id := 0
	shard := &queryShard{}
	shardN := 0
	flush := func() {
		if len(shard.cases) == 0 {
			return
		}
		name := fmt.Sprintf("cases_%s_%d.v", prop, shardN)
		writeFile(out, name, shard.render())
		meta.Shards = append(meta.Shards, name)
		shardN++
		shard = &queryShard{}
	}
	for wi := 0; wi < nWorlds; wi++ {
		sc := newScratch()
		tx := newTx(sc.Dir)
		w := &qWorld{recLimit: []int{1000, 5, 3, 8}[wi%4]}
		tx.Flags.SetLimitRecursion(int64(w.recLimit))
		big := wi%7 == 3
		medium := !big && wi%3 == 1 && prop != "C07"
		for ti := 0; ti < 3; ti++ {
			nrows := r.Intn(13)
			if r.Intn(6) == 0 {
				nrows = 0
			}
			if wi == 0 && nrows < 2 {
				nrows = 2 // the corpus queries of world 0 need rows
			}
			if big && ti < 2 {
				nrows = 100 + r.Intn(300)
				if ti == 1 {
					nrows = 3 + r.Intn(6)
				}
			}
			if medium {
				// enough rows for the joins / filters to be split over several goroutines
				// (rows(left) x rows(right) above 80), small enough for deep join trees
				nrows = 12 + r.Intn(30)
			}
			name := fmt.Sprintf("t%d", ti+1)
			coqName := fmt.Sprintf("w%d_t%d", wi, ti+1)
			var t *qTable
			if prop == "C07" {
				if big && ti == 0 {
					nrows = 100 + r.Intn(300)
				} else if nrows < 13 && r.Intn(2) == 0 {
					nrows += r.Intn(30)
				}
				t = g.genSortableTable(name, nrows, coqName)
			} else {
				t = g.genTable(name, 1+r.Intn(3), nrows, coqName)
			}
			writeCSV(sc.Path(name+".csv"), t.cols, t.rows)
			w.tables = append(w.tables, t)
			shard.defs = append(shard.defs, t.coqDef())
		}
		var corpusTable *qTable
		if prop == "C07" && wi == 0 {
			// corpus: finding int-float-beyond-2p53.  SortValue.Less compares an integer with a float through
			// float64(integer): 2^53+1 and 2^53 both tie with the float 2^53 but not with each other, so the
			// comparator is no strict weak order and 2^53 can stay after 2^53+1 (refuted in Properties/C07.v)
			corpusTable = &qTable{name: "tcorp", cols: []string{"c1", "c2"}, coq: "w0_tcorp",
				rows: [][]*string{{sp("1"), sp("9007199254740993")}, {sp("2"), sp("9007199254740992.0")}, {sp("3"), sp("9007199254740992")}}}
			writeCSV(sc.Path("tcorp.csv"), corpusTable.cols, corpusTable.rows)
			shard.defs = append(shard.defs, corpusTable.coqDef())
		}
		nq := perWorld
		if big {
			nq = perWorld / 2
		}
		for qi := 0; qi < nq; qi++ {
			var q qQuery
			if corpusTable != nil && qi == 0 {
				q = qQuery{mode: 2, shape: "corpus", tags: []string{"int-float-beyond-2p53"}} // tag of a fixed finding: suppresses nothing
				q.sql = "SELECT o.c1, o.c2 FROM tcorp AS o ORDER BY o.c2"
				q.coq = fmt.Sprintf("(Q (BSelect (SrcTable 2 %s) None None None [SExpr (ECol 0); SExpr (ECol 1)] false) [mkO (OSel 1) Asc None] None None)", corpusTable.coq)
			} else if prop == "C03" && wi == 0 && qi == 0 {
				// corpus: finding join-after-cross-join (the left operand of INNER/LEFT/RIGHT/FULL JOIN .. ON that
				// follows an unparenthesised CROSS JOIN is only the last table, so the first one is not
				// visible in the ON clause)
				t1, t2 := w.tables[0], w.tables[1]
				q = qQuery{mode: 1, shape: "corpus", tags: []string{"join-after-cross-join"}, cpu: 1}
				q.sql = fmt.Sprintf("SELECT a.c1 FROM %s AS a CROSS JOIN %s AS b INNER JOIN %s AS c ON a.c1 <> c.c1 OR a.c1 IS NULL OR c.c1 IS NULL", t1.name, t2.name, t2.name)
				lw, rw := len(t1.cols), len(t2.cols)
				q.coq = fmt.Sprintf("(Q (BSelect (SrcJoin JInner (SrcJoin JCross (SrcTable %d %s) (SrcTable %d %s) None) (SrcTable %d %s) (Some (EOr (EOr (ECmp OpNe (ECol 0) (ECol %d)) (EIs false (ECol 0) (ELit VNull))) (EIs false (ECol %d) (ELit VNull))))) None None None [SExpr (ECol 0)] false) [] None None)",
					lw, t1.coq, rw, t2.coq, rw, t2.coq, lw+rw, lw+rw)
			} else {
				switch prop {
				case "C03":
					depth := 3
					if tier == "thorough" {
						depth = 4
					}
					if big {
						depth = 1
					}
					if medium && depth > 2 {
						depth = 2
					}
					q = g.genSelectJoin(w, r.Intn(depth+1))
				case "C04":
					q = g.genBucket(w)
				case "C07":
					q = g.genOrder(w, w.tables[r.Intn(len(w.tables))])
				}
			}
			q.cpu = 1
			if qi%3 == 2 || (big && qi%2 == 0) {
				q.cpu = 4
			}
			if medium {
				q.cpu = []int{4, 2, 8, 1}[qi%4]
			}
			tx.Flags.SetCPU(q.cpu)
			tx.Flags.SetStrictEqual(q.strict)
			for _, lsql := range q.laterals {
				// finding lateral-empty-left-no-columns: with an empty left operand the derived table is never
				// evaluated and the join has no columns at all; whether the operand is empty is asked of the
				// implementation itself, so the tag is exact
				cv, cerr := selectView(tx, q.with+"SELECT COUNT(*) FROM "+lsql)
				if cerr == nil && cv.RecordLen() == 1 && cv.RecordSet[0][0][0].String() == "0" {
					q.tags = append(q.tags, "lateral-empty-left-no-columns")
					break
				}
			}
			view, err := selectView(tx, q.sql)
			var obs, show string
			nrows := 0
			if err != nil {
				obs = obsRes(nil, err)
				show = "error: " + err.Error()
				if strings.Contains(err.Error(), "syntax error") || strings.Contains(err.Error(), "harness:") {
					panic("harness: generated query is not valid: " + q.sql + ": " + err.Error())
				}
			} else if view.RecordLen() > 2500 || (q.mode == 1 && view.RecordLen() > 1000) {
				// a result this large makes the Coq literal unwieldy (and the multiset comparison, quadratic in the
				// number of rows, slow): not compared (counted)
				meta.Distribution["dropped:result-too-large"]++
				continue
			} else {
				rows := viewRows(view)
				nrows = len(rows)
				obs = "(Ok " + coqValRows(rows) + ")"
				if nrows <= 45 {
					show = fmt.Sprint(showValRows(rows))
				} else {
					show = fmt.Sprintf("%d rows, first: %v", nrows, showValRows(rows[:3]))
				}
			}
			shard.cases = append(shard.cases, fmt.Sprintf("mkQ %s %s %s %s %d%%N", coqN(id), coqBool(q.strict), q.coq, obs, q.mode))
			tables := map[string]interface{}{}
			for _, t := range w.tables {
				if len(t.rows) <= 14 {
					tables[t.name] = map[string]interface{}{"columns": t.cols, "rows": showCellRows(t.rows)}
				} else {
					tables[t.name] = map[string]interface{}{"columns": t.cols, "rows": fmt.Sprintf("%d rows (see gen/%s shard definition %s)", len(t.rows), prop, t.coq)}
				}
			}
			c := map[string]interface{}{"sql": q.sql, "strict_equal": q.strict, "cpu": q.cpu, "tables": tables, "observed": show,
				"compare": []string{"exact sequence", "multiset", "order-check"}[q.mode], "tags": q.tags}
			meta.Cases[fmt.Sprint(id)] = c
			if len(meta.Samples) < 4 && qi == 3 {
				meta.Samples = append(meta.Samples, c)
			}
			meta.Evaluations++
			meta.Distribution["shape:"+q.shape]++
			meta.Distribution[fmt.Sprintf("cpu:%d", q.cpu)]++
			if err != nil {
				meta.Distribution["result:error"]++
			} else if nrows == 0 {
				meta.Distribution["result:empty"]++
			} else {
				meta.Distribution["result:rows"]++
			}
			if nrows > 0 || err != nil {
				distinct[q.sql] = true
			}
			id++
		}
		_ = tx.ReleaseResources()
		sc.Close()
		if len(shard.cases) >= 60 || big {
			flush()
		}
	}
	flush()
	if prop == "C07" {
		id = c07PercentSweep(r, tier, out, meta, id, distinct, &shardN)
	}
	meta.Distinct = len(distinct)
	meta.write(out)
}

// c07PercentSweep: LIMIT p PERCENT [OFFSET k] for many (row count, p) pairs -- the count is
// ceil((rows+offset) * p / 100) computed in float64, so the exact-integer products (25 rows x 28 %,
// 50 x 14 %, 200 x 7 % ...) are where a rearranged formula goes one row off
func c07PercentSweep(r *rand.Rand, tier string, out string, meta *Meta, id int, distinct map[string]bool, shardN *int) int {
	sizes := []int{25, 50, 100, 200, 40, 75}
	sc := newScratch()
	defer sc.Close()
	tx := newTx(sc.Dir)
	tx.Flags.SetCPU(1)
	for si, n := range sizes {
		shard := &queryShard{}
		t := &qTable{name: fmt.Sprintf("p%d", n), cols: []string{"c1"}, coq: fmt.Sprintf("pct_t%d", n)}
		for i := 0; i < n; i++ {
			t.rows = append(t.rows, []*string{sp(fmt.Sprint(i + 1))})
		}
		writeCSV(sc.Path(t.name+".csv"), t.cols, t.rows)
		shard.defs = append(shard.defs, t.coqDef())
		var ps []int
		if tier == "thorough" || si < 2 {
			for p := 1; p <= 100; p++ {
				ps = append(ps, p)
			}
		} else {
			for _, p := range r.Perm(100)[:30] {
				ps = append(ps, p+1)
			}
		}
		for _, p := range ps {
			off := 0
			if r.Intn(4) == 0 {
				off = r.Intn(n / 2)
			}
			offS, offC := "", "None"
			if off > 0 {
				offS, offC = fmt.Sprintf(" OFFSET %d", off), fmt.Sprintf("(Some (%d))", off)
			}
			sql := fmt.Sprintf("SELECT o.c1 FROM %s AS o ORDER BY o.c1 LIMIT %d PERCENT%s", t.name, p, offS)
			coq := fmt.Sprintf("(Q (BSelect (SrcTable 1 %s) None None None [SExpr (ECol 0)] false) [mkO (OSel 0) Asc None] %s (Some (LimPercent %s, false)))", t.coq, offC, coqFloat(float64(p)))
			view, err := selectView(tx, sql)
			var obs string
			nrows := 0
			if err != nil {
				obs = obsRes(nil, err)
			} else {
				rows := viewRows(view)
				nrows = len(rows)
				obs = "(Ok " + coqValRows(rows) + ")"
			}
			shard.cases = append(shard.cases, fmt.Sprintf("mkQ %s false %s %s 2%%N", coqN(id), coq, obs))
			meta.Cases[fmt.Sprint(id)] = map[string]interface{}{"sql": sql, "table": fmt.Sprintf("%s: c1 = 1..%d", t.name, n), "observed": fmt.Sprintf("%d rows", nrows), "compare": "order-check"}
			meta.Evaluations++
			meta.Distribution["shape:percent-sweep"]++
			distinct[sql] = true
			id++
		}
		name := fmt.Sprintf("cases_C07_pct_%d.v", *shardN)
		writeFile(out, name, shard.render())
		meta.Shards = append(meta.Shards, name)
		*shardN++
	}
	_ = tx.ReleaseResources()
	return id
}
