package main

import (
	"context"
	"time"

	"github.com/mithrandie/csvq/lib/file"
	"github.com/mithrandie/csvq/lib/query"
)

// newTx builds a fresh session + transaction the way lib/action does, silent and in UTC.
func newTx(repo string) *query.Transaction {
	sess := query.NewSession()
	sess.SetStdout(query.NewDiscard())
	sess.SetStderr(query.NewDiscard())
	tx, err := query.NewTransaction(context.Background(), file.DefaultWaitTimeout, file.DefaultRetryDelay, sess)
	if err != nil {
		panic(err)
	}
	tx.Flags.SetLocation("UTC")
	if repo != "" {
		if err := tx.Flags.SetRepository(repo); err != nil {
			panic(err)
		}
	}
	tx.Flags.SetQuiet(true)
	tx.Flags.SetColor(false)
	tx.UpdateWaitTimeout(2, 10*time.Millisecond)
	return tx
}
