package main

// Shared by C10 and C11: running the real csvq binary under strace in a scratch repository,
// parsing the mutating system calls on repository paths into the op vocabulary of
// coq/Model/Fs.v, snapshots of the repository directory, and rendering all of it as Coq terms.

import (
	"bytes"
	"context"
	"fmt"
	"os"
	"os/exec"
	"syscall"
	"path/filepath"
	"regexp"
	"sort"
	"strconv"
	"strings"
	"time"
)

// ---- paths -------------------------------------------------------------------------------------
type fsKind int

const (
	kData fsKind = iota
	kLock
	kTemp
	kRLock
)

type fsPath struct {
	Kind fsKind
	Sfx  int // rlock suffix number: 0 = created by the csvq run under test, >0 = made by the harness
	Tbl  int
}

func (p fsPath) coq() string {
	switch p.Kind {
	case kData:
		return fmt.Sprintf("(KData, %d%%N)", p.Tbl)
	case kLock:
		return fmt.Sprintf("(KLock, %d%%N)", p.Tbl)
	case kTemp:
		return fmt.Sprintf("(KTemp, %d%%N)", p.Tbl)
	}
	return fmt.Sprintf("(KRLock %d%%N, %d%%N)", p.Sfx, p.Tbl)
}

func (p fsPath) String() string {
	return [...]string{"data", "lock", "temp", "rlock"}[p.Kind] + fmt.Sprintf("(%d)", p.Tbl)
}

// repoNames maps table file names (e.g. "t1.csv") to table numbers, and harness-made rlock file
// names to suffix numbers.
type repoNames struct {
	Dir     string
	Tables  map[string]int
	Foreign map[string]int // full file name of a harness-made .rlock -> suffix (>0)
	Ignore  map[string]bool // files the harness itself put into the directory (e.g. ./csvqrc)
}

var rlockRe = regexp.MustCompile(`^\.(.+)\.([0-9A-Za-z]{12})\.rlock$`)

// classify maps a file name inside the repository to a model path
func (n *repoNames) classify(name string) (fsPath, bool) {
	if t, ok := n.Tables[name]; ok {
		return fsPath{Kind: kData, Tbl: t}, true
	}
	if !strings.HasPrefix(name, ".") {
		return fsPath{}, false
	}
	if strings.HasSuffix(name, ".lock") {
		if t, ok := n.Tables[name[1:len(name)-5]]; ok {
			return fsPath{Kind: kLock, Tbl: t}, true
		}
	}
	if strings.HasSuffix(name, ".temp") {
		if t, ok := n.Tables[name[1:len(name)-5]]; ok {
			return fsPath{Kind: kTemp, Tbl: t}, true
		}
	}
	if m := rlockRe.FindStringSubmatch(name); m != nil {
		if t, ok := n.Tables[m[1]]; ok {
			sfx := 0
			if f, ok := n.Foreign[name]; ok {
				sfx = f
			}
			return fsPath{Kind: kRLock, Sfx: sfx, Tbl: t}, true
		}
	}
	return fsPath{}, false
}

func (n *repoNames) classifyAbs(p string) (fsPath, bool) {
	if filepath.Dir(p) != n.Dir {
		return fsPath{}, false
	}
	return n.classify(filepath.Base(p))
}

// ---- ops ----------------------------------------------------------------------------------------
type fsOp struct {
	Kind string // create trunc write close remove rename
	P, Q fsPath
	Data []byte
}

func coqBytes(b []byte) string {
	if len(b) == 0 {
		return "[]"
	}
	var sb strings.Builder
	sb.WriteString("[")
	for i, c := range b {
		if i > 0 {
			sb.WriteString(";")
		}
		sb.WriteString(strconv.Itoa(int(c)))
	}
	sb.WriteString("]%N")
	return sb.String()
}

func (o fsOp) coq() string {
	switch o.Kind {
	case "create":
		return "OCreate " + o.P.coq()
	case "trunc":
		return "OTrunc " + o.P.coq()
	case "write":
		return "OWrite " + o.P.coq() + " " + coqBytes(o.Data)
	case "close":
		return "OClose " + o.P.coq()
	case "remove":
		return "ORemove " + o.P.coq()
	case "rename":
		return "ORename " + o.P.coq() + " " + o.Q.coq()
	}
	panic("fsOp kind " + o.Kind)
}

func (o fsOp) String() string {
	switch o.Kind {
	case "write":
		return fmt.Sprintf("write %s %q", o.P, string(o.Data))
	case "rename":
		return fmt.Sprintf("rename %s -> %s", o.P, o.Q)
	}
	return o.Kind + " " + o.P.String()
}

func coqOps(ops []fsOp) string {
	items := make([]string, len(ops))
	for i, o := range ops {
		items[i] = o.coq()
	}
	return "[" + strings.Join(items, "; ") + "]"
}

func showOps(ops []fsOp) []string {
	out := make([]string, len(ops))
	for i, o := range ops {
		out[i] = o.String()
	}
	return out
}

// ---- directory snapshots --------------------------------------------------------------------------
type fsSnap struct {
	Files   map[fsPath][]byte
	MTimes  map[fsPath]time.Time
	Unknown []string // entries that are no table / control file of a known table
}

func snapshotDir(n *repoNames) fsSnap {
	s := fsSnap{Files: map[fsPath][]byte{}, MTimes: map[fsPath]time.Time{}}
	ents, err := os.ReadDir(n.Dir)
	if err != nil {
		panic(err)
	}
	for _, e := range ents {
		if n.Ignore[e.Name()] {
			continue
		}
		p, ok := n.classify(e.Name())
		if !ok || e.IsDir() {
			s.Unknown = append(s.Unknown, e.Name())
			continue
		}
		b, err := os.ReadFile(filepath.Join(n.Dir, e.Name()))
		if err != nil {
			panic(err)
		}
		s.Files[p] = b
		if fi, err := e.Info(); err == nil {
			s.MTimes[p] = fi.ModTime()
		}
	}
	sort.Strings(s.Unknown)
	return s
}

func (s fsSnap) paths() []fsPath {
	ps := make([]fsPath, 0, len(s.Files))
	for p := range s.Files {
		ps = append(ps, p)
	}
	sort.Slice(ps, func(i, j int) bool {
		a, b := ps[i], ps[j]
		if a.Tbl != b.Tbl {
			return a.Tbl < b.Tbl
		}
		if a.Kind != b.Kind {
			return a.Kind < b.Kind
		}
		return a.Sfx < b.Sfx
	})
	return ps
}

func (s fsSnap) coq() string {
	var items []string
	for _, p := range s.paths() {
		items = append(items, fmt.Sprintf("(%s, %s)", p.coq(), coqBytes(s.Files[p])))
	}
	return "[" + strings.Join(items, "; ") + "]"
}

func (s fsSnap) show() map[string]string {
	m := map[string]string{}
	for p, b := range s.Files {
		m[p.String()] = string(b)
	}
	for _, u := range s.Unknown {
		m["?"+u] = ""
	}
	return m
}

// ---- strace ---------------------------------------------------------------------------------------
const straceSyscalls = "openat,open,creat,unlinkat,unlink,renameat,renameat2,rename,ftruncate,truncate,write,pwrite64,writev,close,link,linkat,symlink,symlinkat"

type straceOpts struct {
	Paths   []string // -P filters (exact paths); nil = everything
	Inject  string   // e.g. "renameat:signal=SIGKILL:when=2"
	Env     []string
	Timeout time.Duration
}

// straceCsvq runs build/csvq with args in dir under strace -f and returns the raw trace text
func straceCsvq(dir string, traceFile string, args []string, o straceOpts) (string, RunResult) {
	argv := []string{"strace", "-f", "-o", traceFile, "-s", "200000", "-xx",
		"-e", "trace=" + straceSyscalls}
	for _, p := range o.Paths {
		argv = append(argv, "-P", p)
	}
	if o.Inject != "" {
		argv = append(argv, "-e", "inject="+o.Inject)
	}
	argv = append(argv, csvqBinary())
	argv = append(argv, args...)
	to := o.Timeout
	if to == 0 {
		to = 30 * time.Second
	}
	res := runCmdNoStdin(dir, argv, to, o.Env...)
	b, _ := os.ReadFile(traceFile)
	return string(b), res
}

type rawCall struct {
	Pid  string
	Name string
	Args string
	Ret  string // text after " = "; "?" when the process was killed inside the call
}

var (
	lineRe      = regexp.MustCompile(`^(\d+)\s+(.*)$`)
	callRe      = regexp.MustCompile(`^([a-z0-9_]+)\((.*)\)\s+= (.*)$`)
	unfinRe     = regexp.MustCompile(`^([a-z0-9_]+)\((.*) <unfinished \.\.\.>$`)
	resumedRe   = regexp.MustCompile(`^<\.\.\. ([a-z0-9_]+) resumed>(.*)\)\s+= (.*)$`)
	hexStringRe = regexp.MustCompile(`"((?:\\x[0-9a-f]{2})*)"(\.\.\.)?`)
)

// parseStrace turns strace -f output into completed calls in completion order
func parseStrace(text string) []rawCall {
	var out []rawCall
	pending := map[string]rawCall{}
	for _, ln := range strings.Split(text, "\n") {
		m := lineRe.FindStringSubmatch(ln)
		if m == nil {
			continue
		}
		pid, rest := m[1], m[2]
		if strings.HasPrefix(rest, "+++") || strings.HasPrefix(rest, "---") {
			continue
		}
		if u := unfinRe.FindStringSubmatch(rest); u != nil {
			pending[pid] = rawCall{Pid: pid, Name: u[1], Args: u[2]}
			continue
		}
		if r := resumedRe.FindStringSubmatch(rest); r != nil {
			p := pending[pid]
			delete(pending, pid)
			out = append(out, rawCall{Pid: pid, Name: r[1], Args: p.Args + r[2], Ret: r[3]})
			continue
		}
		if c := callRe.FindStringSubmatch(rest); c != nil {
			out = append(out, rawCall{Pid: pid, Name: c[1], Args: c[2], Ret: c[3]})
		}
	}
	return out
}

func unhex(s string) string {
	b := make([]byte, 0, len(s)/4)
	for i := 0; i+4 <= len(s); i += 4 {
		v, _ := strconv.ParseUint(s[i+2:i+4], 16, 8)
		b = append(b, byte(v))
	}
	return string(b)
}

func hexStrings(args string) (strs []string, truncated bool) {
	for _, m := range hexStringRe.FindAllStringSubmatch(args, -1) {
		strs = append(strs, unhex(m[1]))
		if m[2] != "" {
			truncated = true
		}
	}
	return
}

func retOK(ret string) (int, bool) {
	f := strings.Fields(ret)
	if len(f) == 0 || f[0] == "?" {
		return 0, false
	}
	v, err := strconv.Atoi(f[0])
	if err != nil || v < 0 {
		return 0, false
	}
	return v, true
}

type traceResult struct {
	Ops      []fsOp   // completed mutating calls (and closes) on classified repository paths
	Counts   map[string]int // per system call name: calls on classified paths that were started (completed or not)
	Strange  []string // calls on repository paths outside the vocabulary (link, truncate by path, O_TRUNC ...)
	OtherMut []string // mutations of repository entries that are not files of a known table
	Injected []string // calls strace made fail (inject=...:error=...), as "name path"
}

// traceToOps keeps the calls that touch files of known tables in repository n
func traceToOps(calls []rawCall, n *repoNames) traceResult {
	tr := traceResult{Counts: map[string]int{}}
	fds := map[int]fsPath{}
	fdOf := func(args string) (int, bool) {
		f := strings.SplitN(args, ",", 2)
		v, err := strconv.Atoi(strings.TrimSpace(f[0]))
		return v, err == nil
	}
	inRepo := func(p string) bool { return filepath.Dir(p) == n.Dir }
	for _, c := range calls {
		ret, ok := retOK(c.Ret)
		if strings.Contains(c.Ret, "(INJECTED)") {
			strs, _ := hexStrings(c.Args)
			d := c.Name
			if c.Name == "flock" && strings.Contains(c.Args, "LOCK_UN") {
				d = "flock(LOCK_UN)"
			}
			if len(strs) > 0 {
				d += " " + filepath.Base(strs[0])
			} else if fd, okfd := fdOf(c.Args); okfd {
				if p, has := fds[fd]; has {
					d += " " + p.String()
				}
			}
			tr.Injected = append(tr.Injected, d)
		}
		switch c.Name {
		case "openat", "open", "creat":
			strs, _ := hexStrings(c.Args)
			if len(strs) < 1 {
				continue
			}
			p, known := n.classifyAbs(strs[0])
			excl := strings.Contains(c.Args, "O_CREAT") && strings.Contains(c.Args, "O_EXCL")
			if !known {
				if inRepo(strs[0]) && ok && strings.Contains(c.Args, "O_CREAT") {
					tr.OtherMut = append(tr.OtherMut, c.Name+" "+strs[0])
				}
				continue
			}
			tr.Counts[c.Name]++
			if !ok {
				continue
			}
			fds[ret] = p
			if excl {
				tr.Ops = append(tr.Ops, fsOp{Kind: "create", P: p})
			} else if strings.Contains(c.Args, "O_CREAT") || strings.Contains(c.Args, "O_TRUNC") || c.Name == "creat" {
				tr.Strange = append(tr.Strange, c.Name+"("+strs[0]+") with O_CREAT/O_TRUNC and without O_EXCL")
			}
		case "close":
			fd, okfd := fdOf(c.Args)
			if !okfd {
				continue
			}
			if p, has := fds[fd]; has {
				tr.Counts[c.Name]++
				if ok {
					delete(fds, fd)
					tr.Ops = append(tr.Ops, fsOp{Kind: "close", P: p})
				}
			}
		case "ftruncate":
			fd, okfd := fdOf(c.Args)
			if !okfd {
				continue
			}
			if p, has := fds[fd]; has {
				tr.Counts[c.Name]++
				if ok {
					if !strings.HasSuffix(strings.TrimSpace(c.Args), ", 0") {
						tr.Strange = append(tr.Strange, "ftruncate to a non-zero length: "+c.Args)
					}
					tr.Ops = append(tr.Ops, fsOp{Kind: "trunc", P: p})
				}
			}
		case "write", "pwrite64", "writev":
			fd, okfd := fdOf(c.Args)
			if !okfd {
				continue
			}
			if p, has := fds[fd]; has {
				tr.Counts[c.Name]++
				if !ok {
					continue
				}
				strs, trunc := hexStrings(c.Args)
				if c.Name != "write" || len(strs) != 1 || trunc || len(strs[0]) != ret {
					tr.Strange = append(tr.Strange, c.Name+" on "+p.String()+" not understood: "+c.Args[:minInt(80, len(c.Args))])
					continue
				}
				tr.Ops = append(tr.Ops, fsOp{Kind: "write", P: p, Data: []byte(strs[0])})
			}
		case "unlinkat", "unlink":
			strs, _ := hexStrings(c.Args)
			if len(strs) < 1 {
				continue
			}
			p, known := n.classifyAbs(strs[0])
			if !known {
				if inRepo(strs[0]) && ok {
					tr.OtherMut = append(tr.OtherMut, c.Name+" "+strs[0])
				}
				continue
			}
			tr.Counts[c.Name]++
			if ok {
				tr.Ops = append(tr.Ops, fsOp{Kind: "remove", P: p})
			}
		case "renameat", "renameat2", "rename":
			strs, _ := hexStrings(c.Args)
			if len(strs) < 2 {
				continue
			}
			p, k1 := n.classifyAbs(strs[0])
			q, k2 := n.classifyAbs(strs[1])
			if !k1 && !k2 {
				if (inRepo(strs[0]) || inRepo(strs[1])) && ok {
					tr.OtherMut = append(tr.OtherMut, c.Name+" "+strs[0]+" "+strs[1])
				}
				continue
			}
			tr.Counts[c.Name]++
			if !ok {
				continue
			}
			if !k1 || !k2 {
				tr.Strange = append(tr.Strange, "rename between a table file and something else: "+strs[0]+" -> "+strs[1])
				continue
			}
			tr.Ops = append(tr.Ops, fsOp{Kind: "rename", P: p, Q: q})
		case "truncate", "link", "linkat", "symlink", "symlinkat":
			strs, _ := hexStrings(c.Args)
			for _, s := range strs {
				if inRepo(s) && ok {
					tr.Strange = append(tr.Strange, c.Name+" on "+s)
					break
				}
			}
		}
	}
	return tr
}

func minInt(a, b int) int {
	if a < b {
		return a
	}
	return b
}

// copyDir copies the regular files of src into a fresh directory dst (mtimes preserved)
func copyDir(src, dst string) {
	if err := os.MkdirAll(dst, 0755); err != nil {
		panic(err)
	}
	ents, err := os.ReadDir(src)
	if err != nil {
		panic(err)
	}
	for _, e := range ents {
		if e.IsDir() {
			continue
		}
		b, err := os.ReadFile(filepath.Join(src, e.Name()))
		if err != nil {
			panic(err)
		}
		fi, _ := e.Info()
		if err := os.WriteFile(filepath.Join(dst, e.Name()), b, fi.Mode().Perm()); err != nil {
			panic(err)
		}
		_ = os.Chtimes(filepath.Join(dst, e.Name()), fi.ModTime(), fi.ModTime())
	}
}

// parallelDo runs jobs 0..n-1 on w workers
func parallelDo(n, w int, job func(i int)) {
	ch := make(chan int)
	done := make(chan bool)
	for k := 0; k < w; k++ {
		go func() {
			for i := range ch {
				job(i)
			}
			done <- true
		}()
	}
	for i := 0; i < n; i++ {
		ch <- i
	}
	close(ch)
	for k := 0; k < w; k++ {
		<-done
	}
}

// runCmdNoStdin is runCmd (sql.go) with stdin connected to /dev/null instead of an empty pipe:
// with a pipe on stdin csvq reads a FROM-less SELECT from standard input.
func runCmdNoStdin(dir string, argv []string, timeout time.Duration, extraEnv ...string) RunResult {
	ctx, cancel := context.WithTimeout(context.Background(), timeout)
	defer cancel()
	script := "ulimit -v 4000000; exec \"$@\""
	cmd := exec.CommandContext(ctx, "/bin/sh", append([]string{"-c", script, "sh"}, argv...)...)
	cmd.Dir = dir
	cmd.Env = append([]string{"HOME=" + dir, "PATH=/usr/bin:/bin", "TZ=UTC", "LANG=C"}, extraEnv...)
	cmd.SysProcAttr = &syscall.SysProcAttr{Setpgid: true}
	var so, se bytes.Buffer
	cmd.Stdout, cmd.Stderr = &so, &se
	err := cmd.Run()
	res := RunResult{Stdout: so.String(), Stderr: se.String()}
	if ctx.Err() == context.DeadlineExceeded {
		res.TimedOut = true
		if cmd.Process != nil {
			_ = syscall.Kill(-cmd.Process.Pid, syscall.SIGKILL)
		}
	}
	if err != nil {
		if ee, ok := err.(*exec.ExitError); ok {
			res.Code = ee.ExitCode()
		} else {
			res.Code = -1
		}
	}
	return res
}
