module verifharness

go 1.18

require (
	github.com/mithrandie/csvq v0.0.0
	github.com/mithrandie/ternary v1.1.1
)

require (
	github.com/mitchellh/go-homedir v1.1.0 // indirect
	github.com/mithrandie/go-file/v2 v2.1.0 // indirect
	github.com/mithrandie/go-text v1.6.0 // indirect
	github.com/mithrandie/readline-csvq v1.3.0 // indirect
	golang.org/x/crypto v0.7.0 // indirect
	golang.org/x/sys v0.6.0 // indirect
	golang.org/x/term v0.6.0 // indirect
	golang.org/x/text v0.8.0 // indirect
)

replace github.com/mithrandie/csvq => /repo
