package main

import (
	"encoding/json"
	"flag"
	"fmt"
	"os"
	"path/filepath"
	"sort"
)

// Meta is what every property run leaves next to its cases_*.v shards for the Python driver.
type Meta struct {
	Property     string                 `json:"property"`
	Seed         int64                  `json:"seed"`
	Evaluations  int                    `json:"evaluations"`
	Distinct     int                    `json:"distinct_nontrivial"`
	Rule         string                 `json:"rule"`
	Distribution map[string]int         `json:"distribution"`
	Samples      []interface{}          `json:"samples"`
	Shards       []string               `json:"shards"`
	Cases        map[string]interface{} `json:"cases"`  // id -> human-readable case (for replays)
	Direct       []DirectViolation      `json:"direct"` // violations established by the harness itself
	Notes        []string               `json:"notes"`
}

type DirectViolation struct {
	Key  string      `json:"key"` // stable key (matched against known_findings.json)
	What string      `json:"what"`
	Case interface{} `json:"case"`
}

func newMeta(prop string, seed int64) *Meta {
	return &Meta{Property: prop, Seed: seed, Distribution: map[string]int{}, Cases: map[string]interface{}{}}
}

func (m *Meta) write(dir string) {
	sort.Strings(m.Shards)
	b, _ := json.MarshalIndent(m, "", " ")
	if err := os.WriteFile(filepath.Join(dir, "meta.json"), b, 0644); err != nil {
		panic(err)
	}
}

var runners = map[string]func(seed int64, tier string, out string){}

func main() {
	prop := flag.String("prop", "", "property id")
	seed := flag.Int64("seed", 1, "PRNG seed")
	tier := flag.String("tier", "quick", "quick|thorough")
	out := flag.String("out", "", "output directory")
	flag.Parse()
	r, ok := runners[*prop]
	if !ok {
		fmt.Fprintln(os.Stderr, "unknown property", *prop)
		os.Exit(2)
	}
	if err := os.MkdirAll(*out, 0755); err != nil {
		panic(err)
	}
	r(*seed, *tier, *out)
}

func writeFile(dir, name, content string) {
	if err := os.WriteFile(filepath.Join(dir, name), []byte(content), 0644); err != nil {
		panic(err)
	}
}

func readMeta(dir string) *Meta {
	b, err := os.ReadFile(filepath.Join(dir, "meta.json"))
	if err != nil {
		panic(err)
	}
	m := &Meta{}
	if err := json.Unmarshal(b, m); err != nil {
		panic(err)
	}
	if m.Distribution == nil {
		m.Distribution = map[string]int{}
	}
	if m.Cases == nil {
		m.Cases = map[string]interface{}{}
	}
	return m
}
