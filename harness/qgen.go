package main

// Generator of SELECT queries inside the fragment of Csvq.Model.Query, rendered both as SQL text
// (run by the implementation) and as a Coq term (run by the model).  Used by C03, C04, C07.

import (
	"fmt"
	"math/rand"
	"strconv"
	"strings"

	"github.com/mithrandie/csvq/lib/value"
)

// ---- expressions ---------------------------------------------------------------------------------
type qE struct {
	sql, coq string
}

type qCol struct {
	sql string // how the column is written in SQL (qualified)
	idx int    // position in the current row
}

type qGen struct {
	r       *rand.Rand
	pool    []string // cell/literal texts
	noDiv   bool
	lateral bool // LATERAL joins and recursive CTEs are generated (C03)
}

func coqLitString(s string) string { return "(ELit " + coqVal(value.NewString(s)) + ")" }

func sqlQuote(s string) string {
	return "'" + strings.ReplaceAll(strings.ReplaceAll(s, `\`, `\\`), "'", `\'`) + "'"
}

func (g *qGen) lit() qE {
	switch g.r.Intn(9) {
	case 0:
		return qE{"NULL", "(ELit VNull)"}
	case 1:
		t := []string{"TRUE", "FALSE", "UNKNOWN"}[g.r.Intn(3)]
		return qE{t, "(ELit (VTern " + map[string]string{"TRUE": "TT", "FALSE": "TF", "UNKNOWN": "TU"}[t] + "))"}
	case 2, 3:
		n := g.r.Intn(7)
		return qE{strconv.Itoa(n), fmt.Sprintf("(ELit (VInt %d))", n)}
	case 4:
		f := []float64{0.5, 1.5, 2.0, 2.5, 10.25}[g.r.Intn(5)]
		return qE{strconv.FormatFloat(f, 'f', -1, 64) + map[bool]string{true: ".0", false: ""}[f == 2.0], "(ELit (VFloat " + coqFloat(f) + "))"}
	default:
		s := g.pool[g.r.Intn(len(g.pool))]
		return qE{sqlQuote(s), coqLitString(s)}
	}
}

func (g *qGen) atom(cols []qCol) qE {
	if len(cols) > 0 && g.r.Intn(10) < 7 {
		c := cols[g.r.Intn(len(cols))]
		return qE{c.sql, fmt.Sprintf("(ECol %d)", c.idx)}
	}
	return g.lit()
}

var qCmpOps = [][2]string{{"=", "OpEq"}, {"==", "OpIdent"}, {">", "OpGt"}, {"<", "OpLt"}, {">=", "OpGe"}, {"<=", "OpLe"}, {"<>", "OpNe"}}

// scalar: a value-producing expression
func (g *qGen) scalar(cols []qCol, d int) qE {
	if d <= 0 || g.r.Intn(3) == 0 {
		return g.atom(cols)
	}
	switch g.r.Intn(6) {
	case 0, 1:
		ops := [][2]string{{"+", "APlus"}, {"-", "AMinus"}, {"*", "AMul"}}
		if !g.noDiv {
			ops = append(ops, [2]string{"/", "ADiv"}, [2]string{"%", "AMod"})
		}
		op := ops[g.r.Intn(len(ops))]
		a, b := g.scalar(cols, d-1), g.scalar(cols, d-1)
		return qE{"(" + a.sql + " " + op[0] + " " + b.sql + ")", fmt.Sprintf("(EArith %s %s %s)", op[1], a.coq, b.coq)}
	case 2:
		a := g.scalar(cols, d-1)
		return qE{"(-" + a.sql + ")", "(EUnary true " + a.coq + ")"}
	case 3:
		c, a, b := g.cond(cols, d-1), g.scalar(cols, d-1), g.scalar(cols, d-1)
		return qE{"CASE WHEN " + c.sql + " THEN " + a.sql + " ELSE " + b.sql + " END",
			fmt.Sprintf("(ECase None [(%s, %s)] (Some %s))", c.coq, a.coq, b.coq)}
	default:
		return g.atom(cols)
	}
}

// cond: a condition
func (g *qGen) cond(cols []qCol, d int) qE {
	k := g.r.Intn(12)
	if d <= 0 && k > 6 {
		k = g.r.Intn(7)
	}
	switch k {
	case 0, 1, 2, 3:
		op := qCmpOps[g.r.Intn(len(qCmpOps))]
		a, b := g.scalar(cols, d-1), g.scalar(cols, d-1)
		return qE{"(" + a.sql + " " + op[0] + " " + b.sql + ")", fmt.Sprintf("(ECmp %s %s %s)", op[1], a.coq, b.coq)}
	case 4:
		a := g.scalar(cols, d-1)
		neg := g.r.Intn(2) == 0
		what := [][2]string{{"NULL", "(ELit VNull)"}, {"TRUE", "(ELit (VTern TT))"}, {"FALSE", "(ELit (VTern TF))"}, {"UNKNOWN", "(ELit (VTern TU))"}}[g.r.Intn(4)]
		return qE{"(" + a.sql + " IS " + map[bool]string{true: "NOT ", false: ""}[neg] + what[0] + ")", fmt.Sprintf("(EIs %s %s %s)", coqBool(neg), a.coq, what[1])}
	case 5:
		a, lo, hi := g.scalar(cols, d-1), g.scalar(cols, 0), g.scalar(cols, 0)
		neg := g.r.Intn(3) == 0
		return qE{"(" + a.sql + map[bool]string{true: " NOT", false: ""}[neg] + " BETWEEN " + lo.sql + " AND " + hi.sql + ")",
			fmt.Sprintf("(EBetween %s %s %s %s)", coqBool(neg), a.coq, lo.coq, hi.coq)}
	case 6:
		a := g.scalar(cols, d-1)
		n := 1 + g.r.Intn(3)
		var ss, cs []string
		for i := 0; i < n; i++ {
			e := g.scalar(cols, 0)
			ss, cs = append(ss, e.sql), append(cs, e.coq)
		}
		neg := g.r.Intn(3) == 0
		return qE{"(" + a.sql + map[bool]string{true: " NOT", false: ""}[neg] + " IN (" + strings.Join(ss, ", ") + "))",
			fmt.Sprintf("(EIn %s %s %s)", coqBool(neg), a.coq, coqList(cs))}
	case 7, 8:
		a, b := g.cond(cols, d-1), g.cond(cols, d-1)
		return qE{"(" + a.sql + " AND " + b.sql + ")", fmt.Sprintf("(EAnd %s %s)", a.coq, b.coq)}
	case 9, 10:
		a, b := g.cond(cols, d-1), g.cond(cols, d-1)
		return qE{"(" + a.sql + " OR " + b.sql + ")", fmt.Sprintf("(EOr %s %s)", a.coq, b.coq)}
	default:
		a := g.cond(cols, d-1)
		return qE{"(NOT " + a.sql + ")", "(ENot " + a.coq + ")"}
	}
}

// ---- tables ------------------------------------------------------------------------------------------
type qTable struct {
	name string
	cols []string
	rows [][]*string
	coq  string // name of the Coq definition holding the rows
}

// columns have profiles so that joins and groups actually match
var qProfiles = map[string][]string{
	"int":   {"1", "2", "3", "4", "5", " 2", "3 ", "+4", "05", "1", "2", "10", "-1", "0"},
	"num":   {"1", "1.0", "1.5", "2", "2.50", "2.5", "3e0", "3", "-0", "0", "0.0", "10", " 1.5 ", "1e1"},
	"text":  {"a", "A", " a", "b", "B ", "abc", "ABC", "Abc", "x:y", "x:[S]y", "[S]x", "a\\b", "", "ab c", "あ", "à", "À", "z"},
	"date":  {"2012-02-03", "2012-02-03 00:00:00", "2012-02-04", "2012/02/03", "2012-02-03T00:00:00Z", "2011-12-31 23:59:59", "2012-02-03 09:18:15", " 2012-02-03", "2012-02-04 ", "2012-2-3", "2012-2-4"},
	"bool":  {"true", "false", "TRUE", "t", "F", "True", "1", "0"},
	"mixed": {"1", "a", "1.5", "true", "2012-02-03", "", " A", "01", "1.0", "abc", "NaN", "x:[I]1", "-1", "t"},
}
var qProfileNames = []string{"int", "int", "num", "text", "text", "date", "bool", "mixed", "mixed"}

func (g *qGen) genTable(name string, ncols, nrows int, coqName string) *qTable {
	t := &qTable{name: name, coq: coqName}
	profs := make([]string, ncols)
	for c := 0; c < ncols; c++ {
		t.cols = append(t.cols, fmt.Sprintf("c%d", c+1))
		profs[c] = qProfileNames[g.r.Intn(len(qProfileNames))]
	}
	nullRate := g.r.Intn(4) // 0..3 out of 10
	for i := 0; i < nrows; i++ {
		row := make([]*string, ncols)
		for c := 0; c < ncols; c++ {
			// a one-column record that is NULL or empty is a blank line, which the CSV reader skips
			// (known limit of the format, C02): never generate it here
			if g.r.Intn(10) < nullRate && ncols > 1 {
				row[c] = nil
			} else {
				p := qProfiles[profs[c]]
				row[c] = sp(p[g.r.Intn(len(p))])
				for ncols == 1 && *row[c] == "" {
					row[c] = sp(p[g.r.Intn(len(p))])
				}
			}
		}
		t.rows = append(t.rows, row)
	}
	return t
}

func (t *qTable) coqDef() string {
	return fmt.Sprintf("Definition %s : list row :=\n  %s.\n", t.coq, coqCellRows(t.rows))
}

// ---- sources --------------------------------------------------------------------------------------------
type qSrc struct {
	sql, coq string
	cols     []string // qualified SQL names of the columns, in row order
	joins    int
	tables   int
	topCross bool // the outermost join is a CROSS JOIN written without parentheses
	card     int  // upper bound of the number of rows (product over the joined sources): bounds the model's work
	laterals []string // SQL of the left operand of every LATERAL join inside (an empty one loses the columns: finding lateral-empty-left-no-columns)
	recursive bool
}

func shiftCols(cols []string) []qCol {
	out := make([]qCol, len(cols))
	for i, c := range cols {
		out[i] = qCol{c, i}
	}
	return out
}

// a common table expression of the current query: referenced like a table in SQL, expanded to its
// defining query (SrcSub) in the model
type qCTE struct {
	rec  bool // WITH RECURSIVE
	card int // upper bound of its row count
	name string
	def  string // "name AS (SELECT ...)"
	coq  string // (SrcSub ...)
	cols []string
}

type qWorld struct {
	tables   []*qTable
	alias    int
	ctes     []*qCTE
	forceCTE *qCTE // the next table reference is this CTE (a recursive CTE is always referenced)
	recLimit int   // --limit-recursion of the transaction the queries run in
}

// genCTE defines a non-recursive CTE over one of the world's tables
func (g *qGen) genCTE(w *qWorld) *qCTE {
	// csvq evaluates every CTE of the WITH clause up front, referenced or not; the model expands
	// references in place.  The two agree as long as the defining query cannot fail, so no division here
	saved := g.noDiv
	g.noDiv = true
	defer func() { g.noDiv = saved }()
	inner := g.tableSrc(w)
	cols := shiftCols(inner.cols)
	n := 2 + g.r.Intn(2)
	name := fmt.Sprintf("cte%d", len(w.ctes)+1)
	var items, citems, names []string
	for i := 0; i < n; i++ {
		var e qE
		if g.r.Intn(3) == 0 {
			e = g.scalar(cols, 1)
		} else {
			c := cols[g.r.Intn(len(cols))]
			e = qE{c.sql, fmt.Sprintf("(ECol %d)", c.idx)}
		}
		items = append(items, fmt.Sprintf("%s AS y%d", e.sql, i))
		citems = append(citems, "SExpr "+e.coq)
		names = append(names, fmt.Sprintf("y%d", i))
	}
	wh, cwh := "", "None"
	if g.r.Intn(3) == 0 {
		c := g.cond(cols, 1)
		wh, cwh = " WHERE "+c.sql, "(Some "+c.coq+")"
	}
	return &qCTE{name: name, card: inner.card,
		def:  name + " AS (SELECT " + strings.Join(items, ", ") + " FROM " + inner.sql + wh + ")",
		coq:  fmt.Sprintf("(SrcSub (Q (BSelect %s %s None None %s false) [] None None))", inner.coq, cwh, coqList(citems)),
		cols: names}
}

func (g *qGen) tableSrc(w *qWorld) qSrc {
	if w.forceCTE != nil || (len(w.ctes) > 0 && g.r.Intn(2) == 0) {
		c := w.ctes[g.r.Intn(len(w.ctes))]
		if w.forceCTE != nil {
			c, w.forceCTE = w.forceCTE, nil
		}
		w.alias++
		a := fmt.Sprintf("a%d", w.alias)
		cols := make([]string, len(c.cols))
		for i, n := range c.cols {
			cols[i] = a + "." + n
		}
		return qSrc{sql: c.name + " AS " + a, coq: c.coq, cols: cols, tables: 1, card: c.card, recursive: c.rec}
	}
	t := w.tables[g.r.Intn(len(w.tables))]
	w.alias++
	a := fmt.Sprintf("a%d", w.alias)
	cols := make([]string, len(t.cols))
	for i, c := range t.cols {
		cols[i] = a + "." + c
	}
	return qSrc{sql: t.name + " AS " + a, coq: fmt.Sprintf("(SrcTable %d %s)", len(t.cols), t.coq), cols: cols, tables: 1, card: len(t.rows) + 1}
}

func (g *qGen) subSrc(w *qWorld) qSrc {
	inner := g.tableSrc(w)
	cols := shiftCols(inner.cols)
	n := 1 + g.r.Intn(3)
	w.alias++
	a := fmt.Sprintf("s%d", w.alias)
	var items, citems, names []string
	pure := g.r.Intn(2) == 0 || (len(w.ctes) > 0 && g.r.Intn(2) == 0)
	for i := 0; i < n; i++ {
		e := g.scalar(cols, 1)
		if pure {
			c := cols[g.r.Intn(len(cols))]
			e = qE{c.sql, fmt.Sprintf("(ECol %d)", c.idx)}
		}
		items = append(items, fmt.Sprintf("%s AS x%d", e.sql, i))
		citems = append(citems, "SExpr "+e.coq)
		names = append(names, fmt.Sprintf("%s.x%d", a, i))
	}
	wh, cwh := "", "None"
	if g.r.Intn(2) == 0 {
		c := g.cond(cols, 1)
		wh, cwh = " WHERE "+c.sql, "(Some "+c.coq+")"
	}
	sql := "(SELECT " + strings.Join(items, ", ") + " FROM " + inner.sql + wh + ") AS " + a
	coq := fmt.Sprintf("(SrcSub (Q (BSelect %s %s None None %s false) [] None None))", inner.coq, cwh, coqList(citems))
	return qSrc{sql: sql, coq: coq, cols: names, tables: 1, card: inner.card}
}

// A JOIN B USING (..) and A NATURAL JOIN B over two sources that share column names.  The model states their
// meaning as a derived form (Model/Using.v src_using: join on the equality of the named columns, one merged
// column per name, then the remaining columns; theorem C03_using_join_merges_the_named_columns_once); the
// harness only computes the pairs of positions from the names and the SQL names of the result columns (the
// merged columns lose their table qualifier).
func (g *qGen) usingSrc(w *qWorld) (qSrc, bool) {
	l, r := g.tableSrc(w), g.tableSrc(w)
	base := func(c string) string { return c[strings.Index(c, ".")+1:] }
	var common [][2]int
	for li, lc := range l.cols {
		for ri, rc := range r.cols {
			if base(lc) == base(rc) {
				common = append(common, [2]int{li, ri})
			}
		}
	}
	if len(common) == 0 {
		return qSrc{}, false
	}
	natural := g.r.Intn(3) == 0
	using := common
	if !natural {
		g.r.Shuffle(len(using), func(i, j int) { using[i], using[j] = using[j], using[i] })
		using = using[:1+g.r.Intn(len(using))]
	}
	kinds := [][3]string{{"JOIN", "JInner", "INNER"}, {"INNER JOIN", "JInner", "INNER"}, {"LEFT JOIN", "JLeft", "LEFT"}, {"LEFT OUTER JOIN", "JLeft", "LEFT OUTER"},
		{"RIGHT JOIN", "JRight", "RIGHT"}, {"FULL JOIN", "JFull", "FULL"}, {"FULL OUTER JOIN", "JFull", "FULL OUTER"}}
	k := kinds[g.r.Intn(len(kinds))]
	nl := len(l.cols)
	var names, pairs []string
	taken := map[int]bool{}
	var cols []string
	for _, u := range using {
		taken[u[0]], taken[nl+u[1]] = true, true
		names = append(names, base(l.cols[u[0]]))
		pairs = append(pairs, fmt.Sprintf("(%d, %d)%%nat", u[0], u[1]))
		cols = append(cols, base(l.cols[u[0]]))
	}
	all := append(append([]string{}, l.cols...), r.cols...)
	for i, c := range all {
		if !taken[i] {
			cols = append(cols, c)
		}
	}
	var sql string
	if natural {
		nk := k[2]
		if k[0] == "JOIN" {
			nk = ""
		}
		sql = l.sql + " NATURAL " + strings.TrimSpace(nk+" JOIN") + " " + r.sql
	} else {
		sql = l.sql + " " + k[0] + " " + r.sql + " USING (" + strings.Join(names, ", ") + ")"
	}
	coq := fmt.Sprintf("(src_using %s %s %s %s)", k[1], l.coq, r.coq, coqList(pairs))
	return qSrc{sql: sql, coq: coq, cols: cols, joins: 1, tables: 2, card: l.card*r.card + l.card + r.card}, true
}

// l CROSS/INNER/LEFT JOIN LATERAL (SELECT .. FROM inner WHERE <condition over the columns of l and inner>) AS s [ON ..]:
// in the model the derived table is a function of the left row o (Model/Query.v SrcLateral), written as the
// query over [o] CROSS JOIN inner, so that the columns of l keep their positions and those of inner follow
func (g *qGen) lateralSrc(w *qWorld, l qSrc) qSrc {
	var inner qSrc
	if g.r.Intn(4) == 0 {
		inner = g.source(w, 1)
	} else {
		inner = g.tableSrc(w)
	}
	lw := len(l.cols)
	w.alias++
	a := fmt.Sprintf("s%d", w.alias)
	o := fmt.Sprintf("o%d", w.alias)
	all := append(append([]string{}, l.cols...), inner.cols...)
	cols := shiftCols(all)
	innerCols := cols[lw:]
	// the condition: mostly a left column against an inner column, so that the derived table depends on the row
	var c qE
	li, ri := g.r.Intn(lw), lw+g.r.Intn(len(inner.cols))
	op := qCmpOps[[]int{0, 0, 0, 2, 5, 6}[g.r.Intn(6)]]
	c = qE{all[li] + " " + op[0] + " " + all[ri], fmt.Sprintf("(ECmp %s (ECol %d) (ECol %d))", op[1], li, ri)}
	switch g.r.Intn(4) {
	case 0:
		c2 := g.cond(cols, 1)
		c = qE{c.sql + " AND " + c2.sql, fmt.Sprintf("(EAnd %s %s)", c.coq, c2.coq)}
	case 1:
		c = g.cond(cols, 1)
	}
	var items, citems, names []string
	lim, clim := "", "None"
	if g.r.Intn(4) == 0 {
		// one row per left row whatever matches: aggregates over the matching rows
		for i := 0; i <= g.r.Intn(2); i++ {
			it := g.aggItem(cols)
			items = append(items, fmt.Sprintf("%s AS x%d", it.sql, i))
			citems = append(citems, it.coq)
			names = append(names, fmt.Sprintf("%s.x%d", a, i))
		}
	} else {
		n := 1 + g.r.Intn(3)
		for i := 0; i < n; i++ {
			var e qE
			switch g.r.Intn(4) {
			case 0:
				e = g.scalar(cols, 1)
			default:
				cc := innerCols[g.r.Intn(len(innerCols))]
				if g.r.Intn(4) == 0 {
					cc = cols[g.r.Intn(len(cols))]
				}
				e = qE{cc.sql, fmt.Sprintf("(ECol %d)", cc.idx)}
			}
			items = append(items, fmt.Sprintf("%s AS x%d", e.sql, i))
			citems = append(citems, "SExpr "+e.coq)
			names = append(names, fmt.Sprintf("%s.x%d", a, i))
		}
		if inner.joins == 0 && g.r.Intn(5) == 0 {
			// a derived table over a single source keeps that source's order, so LIMIT without ORDER BY is determined
			k := 1 + g.r.Intn(2)
			lim, clim = fmt.Sprintf(" LIMIT %d", k), fmt.Sprintf("(Some (LimRows %d, false))", k)
		}
	}
	sub := "(SELECT " + strings.Join(items, ", ") + " FROM " + inner.sql + " WHERE " + c.sql + lim + ") AS " + a
	csub := fmt.Sprintf("(fun %s : row => Q (BSelect (SrcJoin JCross (SrcTable %d [%s]) %s None) (Some %s) None None %s false) [] None %s)",
		o, lw, o, inner.coq, c.coq, coqList(citems), clim)
	outCols := append(append([]string{}, l.cols...), names...)
	kinds := [][3]string{{"CROSS JOIN LATERAL", "JCross", ""}, {"CROSS JOIN LATERAL", "JCross", ""}, {"JOIN LATERAL", "JInner", "on"}, {"INNER JOIN LATERAL", "JInner", "on"},
		{"LEFT JOIN LATERAL", "JLeft", "on"}, {"LEFT JOIN LATERAL", "JLeft", "on"}, {"LEFT OUTER JOIN LATERAL", "JLeft", "on"}}
	if g.r.Intn(12) == 0 {
		kinds = [][3]string{{"RIGHT JOIN LATERAL", "JRight", "on"}, {"FULL JOIN LATERAL", "JFull", "on"}}
	}
	k := kinds[g.r.Intn(len(kinds))]
	s := qSrc{cols: outCols, joins: l.joins + inner.joins + 1, tables: l.tables + inner.tables, card: l.card*inner.card + l.card,
		laterals: append(append(append([]string{}, l.laterals...), inner.laterals...), l.sql), recursive: l.recursive || inner.recursive}
	lsql := l.sql
	if l.topCross && k[2] == "on" {
		lsql = "(" + l.sql + ")"
	}
	if k[2] == "on" {
		var on qE
		if g.r.Intn(3) == 0 {
			on = qE{"TRUE", "(ELit (VTern TT))"}
		} else {
			on = g.cond(shiftCols(outCols), 1)
		}
		s.sql = lsql + " " + k[0] + " " + sub + " ON " + on.sql
		s.coq = fmt.Sprintf("(SrcLateral %s %s %d %s (Some %s))", k[1], l.coq, len(names), csub, on.coq)
	} else {
		s.sql = l.sql + " " + k[0] + " " + sub
		s.coq = fmt.Sprintf("(SrcLateral %s %s %d %s None)", k[1], l.coq, len(names), csub)
		s.topCross = true
	}
	return s
}

// WITH RECURSIVE r (n, d, ..) AS (base UNION [ALL] step): base over one table, the step over the temporary view
// alone (a counter that stops at a bound) or joined with a table (a walk along matching keys, cut by a depth
// column).  In the model the step is a function of the rows the temporary view holds (Model/Query.v SrcRec).
// The bound is sometimes beyond --limit-recursion, so that the error is exercised too.
func (g *qGen) genRecCTE(w *qWorld) *qCTE {
	saved := g.noDiv
	g.noDiv = true
	defer func() { g.noDiv = saved }()
	t := w.tables[g.r.Intn(len(w.tables))]
	for try := 0; len(t.rows) > 14 && try < 5; try++ {
		t = w.tables[g.r.Intn(len(w.tables))]
	}
	if len(t.rows) > 14 {
		return nil
	}
	name := fmt.Sprintf("rec%d", len(w.ctes)+1)
	all := g.r.Intn(3) != 0
	tcols := make([]string, len(t.cols))
	for i, c := range t.cols {
		tcols[i] = "b." + c
	}
	bcols := shiftCols(tcols)
	// base: SELECT <column>, 0 [, <column>] FROM t AS b [WHERE ..]
	k0 := bcols[g.r.Intn(len(bcols))]
	names := []string{"n", "d"}
	bitems := []string{k0.sql, "0"}
	bcitems := []string{fmt.Sprintf("SExpr (ECol %d)", k0.idx), "SExpr (ELit (VInt 0))"}
	if g.r.Intn(2) == 0 {
		k1 := bcols[g.r.Intn(len(bcols))]
		names = append(names, "m")
		bitems = append(bitems, k1.sql)
		bcitems = append(bcitems, fmt.Sprintf("SExpr (ECol %d)", k1.idx))
	}
	wd := len(names)
	bwh, bcwh := "", "None"
	if g.r.Intn(3) == 0 {
		c := g.cond(bcols, 1)
		bwh, bcwh = " WHERE "+c.sql, "(Some "+c.coq+")"
	}
	base := "SELECT " + strings.Join(bitems, ", ") + " FROM " + t.name + " AS b" + bwh
	cbase := fmt.Sprintf("(Q (BSelect (SrcTable %d %s) %s None None %s false) [] None None)", len(t.cols), t.coq, bcwh, coqList(bcitems))
	bound := 1 + g.r.Intn(4)
	if w.recLimit <= 10 && g.r.Intn(4) == 0 {
		bound = w.recLimit + g.r.Intn(2) // at or beyond the limit
	}
	var step, cstep string
	card := (len(t.rows) + 1) * (bound + 1)
	rcols := []string{"r.n", "r.d", "r.m"}[:wd]
	if len(t.rows) <= 6 && bound <= 3 && g.r.Intn(2) == 0 {
		// a walk: the rows of t whose first column matches r.n
		u := w.tables[g.r.Intn(len(w.tables))]
		for try := 0; len(u.rows) > 6 && try < 5; try++ {
			u = w.tables[g.r.Intn(len(w.tables))]
		}
		if len(u.rows) > 6 {
			u = t
		}
		ucols := make([]string, len(u.cols))
		for i, c := range u.cols {
			ucols[i] = "u." + c
		}
		allc := append(append([]string{}, rcols...), ucols...)
		to := wd + g.r.Intn(len(u.cols))
		sitems := []string{allc[to], "r.d + 1"}
		scitems := []string{fmt.Sprintf("SExpr (ECol %d)", to), "SExpr (EArith APlus (ECol 1) (ELit (VInt 1)))"}
		if wd == 3 {
			sitems = append(sitems, "r.m")
			scitems = append(scitems, "SExpr (ECol 2)")
		}
		step = fmt.Sprintf("SELECT %s FROM %s AS r JOIN %s AS u ON r.n = u.%s WHERE r.d < %d", strings.Join(sitems, ", "), name, u.name, u.cols[0], bound)
		cstep = fmt.Sprintf("(fun work : list row => Q (BSelect (SrcJoin JInner (SrcTable %d work) (SrcTable %d %s) (Some (ECmp OpEq (ECol 0) (ECol %d)))) (Some (ECmp OpLt (ECol 1) (ELit (VInt %d)))) None None %s false) [] None None)",
			wd, len(u.cols), u.coq, wd, bound, coqList(scitems))
		card = len(t.rows) + 1
		for i, f := 0, len(t.rows)+1; i < bound; i++ {
			f *= len(u.rows) + 1
			card += f
		}
	} else {
		// a counter on d, the first column rewritten by an expression over the row
		e := g.scalar(shiftCols(rcols), 1)
		sitems := []string{e.sql, "r.d + 1"}
		scitems := []string{"SExpr " + e.coq, "SExpr (EArith APlus (ECol 1) (ELit (VInt 1)))"}
		if wd == 3 {
			sitems = append(sitems, "r.m")
			scitems = append(scitems, "SExpr (ECol 2)")
		}
		extra, cextra := "", ""
		if g.r.Intn(3) == 0 {
			c := g.cond(shiftCols(rcols), 1)
			extra, cextra = " AND "+c.sql, c.coq
		}
		cw := fmt.Sprintf("(ECmp OpLt (ECol 1) (ELit (VInt %d)))", bound)
		if cextra != "" {
			cw = fmt.Sprintf("(EAnd %s %s)", cw, cextra)
		}
		step = fmt.Sprintf("SELECT %s FROM %s AS r WHERE r.d < %d%s", strings.Join(sitems, ", "), name, bound, extra)
		cstep = fmt.Sprintf("(fun work : list row => Q (BSelect (SrcTable %d work) (Some %s) None None %s false) [] None None)", wd, cw, coqList(scitems))
	}
	op := "UNION"
	if all {
		op = "UNION ALL"
	}
	return &qCTE{rec: true, name: name, card: card, cols: names,
		def: fmt.Sprintf("RECURSIVE %s (%s) AS (%s %s %s)", name, strings.Join(names, ", "), base, op, step),
		coq: fmt.Sprintf("(SrcRec %s %d %s %s %d)", coqBool(all), wd, cbase, cstep, w.recLimit)}
}

var qJoinKinds = [][3]string{{"CROSS JOIN", "JCross", ""}, {"INNER JOIN", "JInner", "on"}, {"JOIN", "JInner", "on"}, {"LEFT JOIN", "JLeft", "on"},
	{"LEFT OUTER JOIN", "JLeft", "on"}, {"RIGHT JOIN", "JRight", "on"}, {"FULL JOIN", "JFull", "on"}, {"FULL OUTER JOIN", "JFull", "on"}}

func (g *qGen) source(w *qWorld, depth int) qSrc {
	if depth <= 0 || g.r.Intn(3) == 0 {
		// with a CTE in scope derived tables are frequent: a projecting reference next to a plain reference
		// of the same CTE is what shows records shared between references (seeded change C03-A)
		if g.r.Intn(5) == 0 || (len(w.ctes) > 0 && g.r.Intn(3) == 0) {
			return g.subSrc(w)
		}
		return g.tableSrc(w)
	}
	l := g.source(w, depth-1)
	if g.lateral && g.r.Intn(4) == 0 {
		return g.lateralSrc(w, l)
	}
	r := g.source(w, g.r.Intn(depth))
	jk := qJoinKinds[g.r.Intn(len(qJoinKinds))]
	cols := append(append([]string{}, l.cols...), r.cols...)
	s := qSrc{cols: cols, joins: l.joins + r.joins + 1, tables: l.tables + r.tables, card: l.card*r.card + l.card + r.card,
		laterals: append(append([]string{}, l.laterals...), r.laterals...), recursive: l.recursive || r.recursive}
	rsql := r.sql
	if r.joins > 0 {
		rsql = "(" + r.sql + ")"
	}
	lsql := l.sql
	if l.topCross && jk[2] == "on" && jk[0] != "JOIN" {
		// "A CROSS JOIN B INNER JOIN C ON a.x = c.x" is parsed by csvq as A CROSS JOIN (B INNER JOIN C ON ..),
		// so that A is not visible in the ON clause (finding join-after-cross-join, reproduced by a
		// fixed corpus case); the generated stream writes the parentheses explicitly
		lsql = "(" + l.sql + ")"
	}
	if jk[2] == "on" {
		// mostly an equality between a left and a right column so that rows match
		var c qE
		if g.r.Intn(4) != 0 {
			li, ri := g.r.Intn(len(l.cols)), len(l.cols)+g.r.Intn(len(r.cols))
			op := qCmpOps[[]int{0, 0, 0, 2, 5, 6}[g.r.Intn(6)]]
			c = qE{cols[li] + " " + op[0] + " " + cols[ri], fmt.Sprintf("(ECmp %s (ECol %d) (ECol %d))", op[1], li, ri)}
			if g.r.Intn(3) == 0 {
				c2 := g.cond(shiftCols(cols), 0)
				c = qE{c.sql + " AND " + c2.sql, fmt.Sprintf("(EAnd %s %s)", c.coq, c2.coq)}
			}
		} else {
			c = g.cond(shiftCols(cols), 1)
		}
		s.sql = lsql + " " + jk[0] + " " + rsql + " ON " + c.sql
		s.coq = fmt.Sprintf("(SrcJoin %s %s %s (Some %s))", jk[1], l.coq, r.coq, c.coq)
	} else {
		s.sql = l.sql + " " + jk[0] + " " + rsql
		s.coq = fmt.Sprintf("(SrcJoin %s %s %s None)", jk[1], l.coq, r.coq)
		s.topCross = true
	}
	return s
}
