package main

import (
	"fmt"
	"math/rand"
	"strings"

	"github.com/mithrandie/csvq/lib/parser"
	"github.com/mithrandie/csvq/lib/value"
)

// one generated query: SQL, Coq term of type query, comparison mode
type qQuery struct {
	sql, coq string
	mode     int // 0 exact, 1 multiset, 2 order-check
	strict   bool
	cpu      int
	tags     []string
	shape    string
	laterals []string // SQL of the left operands of the LATERAL joins in the query
	with     string   // the WITH clause of the query
}

// selfCheckLiteral: the text the generator believes a string literal denotes is what the parser reads
func selfCheckLiterals(pool []string) {
	for _, s := range pool {
		stmts, _, err := parser.Parse("SELECT "+sqlQuote(s), "", false, false)
		if err != nil {
			panic("harness: literal does not parse: " + sqlQuote(s))
		}
		f := stmts[0].(parser.SelectQuery).SelectEntity.(parser.SelectEntity).SelectClause.(parser.SelectClause).Fields[0].(parser.Field).Object
		pt, ok := f.(parser.PrimitiveType)
		if !ok {
			panic("harness: literal is not primitive: " + sqlQuote(s))
		}
		if sv, ok := pt.Value.(*value.String); !ok || sv.Raw() != s {
			panic(fmt.Sprintf("harness: literal %s read back as %s", sqlQuote(s), pt.Value.String()))
		}
	}
}

func qPool() []string {
	seen := map[string]bool{}
	var out []string
	for _, p := range qProfiles {
		for _, s := range p {
			if !seen[s] && !dtUnsafe(s) {
				seen[s] = true
				out = append(out, s)
			}
		}
	}
	// deterministic order
	for i := 1; i < len(out); i++ {
		for j := i; j > 0 && out[j] < out[j-1]; j-- {
			out[j], out[j-1] = out[j-1], out[j]
		}
	}
	return out
}

// ---- C03-style: FROM / WHERE / select list -----------------------------------------------------------
func (g *qGen) genSelectJoin(w *qWorld, depth int) qQuery {
	// one query in three defines a common table expression that its sources may reference (several times)
	w.ctes = nil
	with := ""
	if g.r.Intn(3) == 0 {
		w.ctes = append(w.ctes, g.genCTE(w))
		with = "WITH " + w.ctes[0].def + " "
		if depth == 0 {
			depth = 1
		}
	}
	var rec *qCTE
	if g.lateral && g.r.Intn(5) == 0 {
		if rec = g.genRecCTE(w); rec != nil {
			w.ctes = append(w.ctes, rec)
			if with == "" {
				with = "WITH " + rec.def + " "
			} else {
				// RECURSIVE belongs to the single table of the clause
				with = strings.TrimSuffix(with, " ") + ", " + rec.def + " "
			}
			if depth > 2 {
				depth = 2
			}
		}
	}
	defer func() { w.ctes, w.forceCTE = nil, nil }()
	w.forceCTE = rec
	src := g.source(w, depth)
	for try := 0; src.card > 6000 && try < 6; try++ {
		// the model joins by nested loops inside Coq: keep the number of row pairs it has to look at bounded
		if depth > 1 {
			depth--
		}
		w.forceCTE = rec
		src = g.source(w, depth)
	}
	if src.card > 6000 {
		w.forceCTE = rec
		src = g.tableSrc(w)
	}
	usingShape := ""
	if rec == nil && g.r.Intn(6) == 0 {
		if u, ok := g.usingSrc(w); ok {
			src, usingShape = u, "+using"
		}
	}
	cols := shiftCols(src.cols)
	var items, citems []string
	n := 1 + g.r.Intn(4)
	for i := 0; i < n; i++ {
		e := g.scalar(cols, 1)
		items = append(items, e.sql)
		citems = append(citems, "SExpr "+e.coq)
	}
	wh, cwh := "", "None"
	if g.r.Intn(3) != 0 {
		c := g.cond(cols, 2)
		if g.lateral && g.r.Intn(6) == 0 {
			// the condition is a bare value (a column holding 'true' / '1' / 't' / text, a number, an arithmetic
			// result): a row is kept iff that value, read as a ternary, is TRUE
			c = g.scalar(cols, 1)
		}
		wh, cwh = " WHERE "+c.sql, "(Some "+c.coq+")"
	}
	// a correlated sub-query inside the WHERE clause or the select list.  Sub-queries are not expressions of the
	// model; their meaning is stated through the LATERAL join it has: for every row o of the source the sub-query
	// over [o] x inner is evaluated once, and
	//   [NOT] EXISTS (SELECT .. WHERE c)        = the number of its rows is > 0 / = 0
	//   x IN (SELECT v .. WHERE c)     (is TRUE) = some row with c has x = v TRUE
	//   x NOT IN (SELECT v .. WHERE c) (is TRUE) = no row with c has x = v TRUE or UNKNOWN
	//   (SELECT agg(..) .. WHERE c) in the select list = that one value, as one more column
	subShape := ""
	srcSQL, srcCoq := src.sql, src.coq
	if g.lateral && usingShape == "" && g.r.Intn(5) == 0 { // (the merged columns of USING have no qualifier: inside a sub-query their names would mean the inner table's columns)
		saved := g.noDiv
		g.noDiv = true
		inner := g.tableSrc(w)
		lw := len(src.cols)
		all := append(append([]string{}, src.cols...), inner.cols...)
		acols := shiftCols(all)
		li, ri := g.r.Intn(lw), lw+g.r.Intn(len(inner.cols))
		op := qCmpOps[[]int{0, 0, 0, 2, 5, 6}[g.r.Intn(6)]]
		c := qE{all[li] + " " + op[0] + " " + all[ri], fmt.Sprintf("(ECmp %s (ECol %d) (ECol %d))", op[1], li, ri)}
		if g.r.Intn(3) == 0 {
			c2 := g.cond(acols, 1)
			c = qE{c.sql + " AND " + c2.sql, fmt.Sprintf("(EAnd %s %s)", c.coq, c2.coq)}
		}
		w.alias++
		o := fmt.Sprintf("o%d", w.alias)
		lat := func(kind, cond, item, on string) string {
			return fmt.Sprintf("(SrcLateral %s %s 1 (fun %s : row => Q (BSelect (SrcJoin JCross (SrcTable %d [%s]) %s None) (Some %s) None None [%s] false) [] None None) %s)",
				kind, src.coq, o, lw, o, inner.coq, cond, item, on)
		}
		cnt := func(rel string) string { return fmt.Sprintf("(Some (ECmp %s (ECol %d) (ELit (VInt 0))))", rel, lw) }
		pre := ""
		switch g.r.Intn(5) {
		case 0:
			pre, srcCoq, subShape = "EXISTS (SELECT 1 FROM "+inner.sql+" WHERE "+c.sql+")", lat("JInner", c.coq, "SCountStar", cnt("OpGt")), "+exists"
		case 1:
			pre, srcCoq, subShape = "NOT EXISTS (SELECT 1 FROM "+inner.sql+" WHERE "+c.sql+")", lat("JInner", c.coq, "SCountStar", cnt("OpEq")), "+not-exists"
		case 2, 3:
			x, v := acols[g.r.Intn(lw)], acols[lw+g.r.Intn(len(inner.cols))]
			eq := fmt.Sprintf("(ECmp OpEq (ECol %d) (ECol %d))", x.idx, v.idx)
			if g.r.Intn(2) == 0 {
				pre = x.sql + " IN (SELECT " + v.sql + " FROM " + inner.sql + " WHERE " + c.sql + ")"
				srcCoq, subShape = lat("JInner", fmt.Sprintf("(EAnd %s %s)", c.coq, eq), "SCountStar", cnt("OpGt")), "+in-subquery"
			} else {
				pre = x.sql + " NOT IN (SELECT " + v.sql + " FROM " + inner.sql + " WHERE " + c.sql + ")"
				srcCoq, subShape = lat("JInner", fmt.Sprintf("(EAnd %s (EIs true %s (ELit (VTern TF))))", c.coq, eq), "SCountStar", cnt("OpEq")), "+not-in-subquery"
			}
		default:
			it := g.aggItem(acols)
			items = append(items, "(SELECT "+it.sql+" FROM "+inner.sql+" WHERE "+c.sql+")")
			citems = append(citems, fmt.Sprintf("SExpr (ECol %d)", lw))
			srcCoq, subShape = lat("JCross", c.coq, it.coq, "None"), "+scalar-subquery"
		}
		if pre != "" {
			if wh == "" {
				wh = " WHERE " + pre
			} else {
				wh = " WHERE " + pre + " AND (" + strings.TrimPrefix(wh, " WHERE ") + ")"
			}
		}
		g.noDiv = saved
	}
	q := qQuery{shape: fmt.Sprintf("joins=%d", src.joins) + subShape}
	if with != "" {
		q.shape += "+cte"
	}
	q.shape += usingShape
	if len(src.laterals) > 0 {
		q.shape += "+lateral"
		q.laterals, q.with = src.laterals, with
	}
	if rec != nil {
		q.shape += "+recursive"
	}
	q.sql = with + "SELECT " + strings.Join(items, ", ") + " FROM " + srcSQL + wh
	q.coq = fmt.Sprintf("(Q (BSelect %s %s None None %s false) [] None None)", srcCoq, cwh, coqList(citems))
	if src.joins > 0 || src.recursive {
		// the order in which a recursive CTE delivers its rows is the model's, not the property's
		q.mode = 1
	}
	return q
}

// ---- C04-style: GROUP BY / aggregates / DISTINCT / set operators ---------------------------------------
var qAggs = [][2]string{{"COUNT", "AgCount"}, {"SUM", "AgSum"}, {"AVG", "AgAvg"}, {"MIN", "AgMin"}, {"MAX", "AgMax"}}

func (g *qGen) aggItem(cols []qCol) qE {
	if g.r.Intn(6) == 0 {
		return qE{"COUNT(*)", "SCountStar"}
	}
	a := qAggs[g.r.Intn(len(qAggs))]
	e := g.scalar(cols, 1)
	for e.sql == "UNKNOWN" {
		// COUNT(UNKNOWN) with the literal is 0 (a shortcut in evalAggregateFunction skips NULL and UNKNOWN literals)
		// while COUNT(<expression that is UNKNOWN on every row>) counts the rows: an observation outside the
		// property (DESIGN.md 15.5); the literal is not generated
		e = g.scalar(cols, 1)
	}
	if g.r.Intn(4) == 0 {
		return qE{a[0] + "(DISTINCT " + e.sql + ")", fmt.Sprintf("(SAgg %s true %s)", a[1], e.coq)}
	}
	return qE{a[0] + "(" + e.sql + ")", fmt.Sprintf("(SAgg %s false %s)", a[1], e.coq)}
}

func (g *qGen) genBucket(w *qWorld) qQuery {
	q := qQuery{strict: g.r.Intn(4) == 0}
	switch g.r.Intn(4) {
	case 0: // GROUP BY
		src := g.source(w, g.r.Intn(2))
		cols := shiftCols(src.cols)
		nk := 1 + g.r.Intn(3)
		var keys, ckeys, items, citems []string
		for i := 0; i < nk; i++ {
			var e qE
			if g.r.Intn(4) == 0 {
				e = g.scalar(cols, 1)
			} else {
				c := cols[g.r.Intn(len(cols))]
				e = qE{c.sql, fmt.Sprintf("(ECol %d)", c.idx)}
			}
			keys, ckeys = append(keys, e.sql), append(ckeys, e.coq)
			if strings.HasPrefix(e.coq, "(ECol") { // csvq accepts only plain key columns beside aggregates
				items, citems = append(items, e.sql), append(citems, "SExpr "+e.coq)
			}
		}
		for i := 0; i <= g.r.Intn(3); i++ {
			a := g.aggItem(cols)
			items, citems = append(items, a.sql), append(citems, a.coq)
		}
		q.sql = "SELECT " + strings.Join(items, ", ") + " FROM " + src.sql + " GROUP BY " + strings.Join(keys, ", ")
		q.coq = fmt.Sprintf("(Q (BSelect %s None (Some %s) None %s false) [] None None)", src.coq, coqList(ckeys), coqList(citems))
		q.shape = "group-by"
		if g.r.Intn(3) == 0 {
			// HAVING over the aggregates and key columns of the bucket: the model gets the items the condition mentions
			// and the condition over the row of their values (Model/Query.v filter_groups)
			var hsql, hcoq string
			var hitems []string
			term := func() {
				ops := [][2]string{{">", "OpGt"}, {">=", "OpGe"}, {"<", "OpLt"}, {"<=", "OpLe"}, {"=", "OpEq"}, {"<>", "OpNe"}}
				op := ops[g.r.Intn(len(ops))]
				var it qE
				kc := -1
				for i, k := range ckeys {
					if strings.HasPrefix(k, "(ECol") && g.r.Intn(3) == 0 {
						kc = i
					}
				}
				if kc >= 0 {
					it = qE{keys[kc], "SExpr " + ckeys[kc]}
				} else if len(hitems) == 0 {
					it = g.aggItem(cols)
				} else {
					// the code evaluates AND / OR lazily: an aggregate in a later term is not computed (and cannot fail) when an
					// earlier term decides, while filter_groups evaluates every item of the bucket first. The two differ only
					// when such an aggregate fails, so later terms take aggregates of plain columns, which never fail
					a := qAggs[g.r.Intn(len(qAggs))]
					c := cols[g.r.Intn(len(cols))]
					it = qE{a[0] + "(" + c.sql + ")", fmt.Sprintf("(SAgg %s false (ECol %d))", a[1], c.idx)}
				}
				var ts, tc string
				idx := len(hitems)
				hitems = append(hitems, it.coq)
				if g.r.Intn(5) == 0 {
					ts, tc = it.sql+" IS NULL", fmt.Sprintf("(EIs false (ECol %d) (ELit VNull))", idx)
				} else {
					l := g.lit()
					ts, tc = it.sql+" "+op[0]+" "+l.sql, fmt.Sprintf("(ECmp %s (ECol %d) %s)", op[1], idx, l.coq)
				}
				if hsql == "" {
					hsql, hcoq = ts, tc
				} else if g.r.Intn(2) == 0 {
					hsql, hcoq = "("+hsql+") AND ("+ts+")", fmt.Sprintf("(EAnd %s %s)", hcoq, tc)
				} else {
					hsql, hcoq = "("+hsql+") OR ("+ts+")", fmt.Sprintf("(EOr %s %s)", hcoq, tc)
				}
			}
			term()
			if g.r.Intn(3) == 0 {
				term()
			}
			q.sql += " HAVING " + hsql
			q.coq = fmt.Sprintf("(Q (BSelect %s None (Some %s) (Some (%s, %s)) %s false) [] None None)", src.coq, coqList(ckeys), coqList(hitems), hcoq, coqList(citems))
			q.shape = "group-by-having"
			if g.r.Intn(4) == 0 && strings.HasPrefix(q.sql, "SELECT ") && strings.HasSuffix(q.coq, " false) [] None None)") {
				// DISTINCT comes after HAVING (C04_distinct_after_having)
				q.sql = "SELECT DISTINCT " + strings.TrimPrefix(q.sql, "SELECT ")
				q.coq = strings.TrimSuffix(q.coq, " false) [] None None)") + " true) [] None None)"
				q.shape = "group-by-having-distinct"
			}
		} else if g.r.Intn(4) == 0 {
			// SELECT DISTINCT over a grouped view: one row per group first, then the duplicates among these rows go -
			// which matters when not all keys are selected (or a key is an expression that is not selected)
			var ditems, dcitems []string
			for i, k := range ckeys {
				if strings.HasPrefix(k, "(ECol") && (len(ditems) == 0 || g.r.Intn(2) == 0) {
					ditems, dcitems = append(ditems, keys[i]), append(dcitems, "SExpr "+k)
				}
			}
			if len(ditems) > 0 {
				if g.r.Intn(3) == 0 {
					a := g.aggItem(cols)
					ditems, dcitems = append(ditems, a.sql), append(dcitems, a.coq)
				}
				q.sql = "SELECT DISTINCT " + strings.Join(ditems, ", ") + " FROM " + src.sql + " GROUP BY " + strings.Join(keys, ", ")
				q.coq = fmt.Sprintf("(Q (BSelect %s None (Some %s) None %s true) [] None None)", src.coq, coqList(ckeys), coqList(dcitems))
				q.shape = "group-by-distinct"
			}
		}
		if src.joins > 0 {
			q.mode = 1 // bucket order follows the join order, which the property does not fix
		}
	case 1: // aggregates over everything
		src := g.tableSrc(w)
		cols := shiftCols(src.cols)
		var items, citems []string
		for i := 0; i <= g.r.Intn(3); i++ {
			a := g.aggItem(cols)
			items, citems = append(items, a.sql), append(citems, a.coq)
		}
		wh, cwh := "", "None"
		if g.r.Intn(2) == 0 {
			c := g.cond(cols, 1)
			wh, cwh = " WHERE "+c.sql, "(Some "+c.coq+")"
		}
		q.sql = "SELECT " + strings.Join(items, ", ") + " FROM " + src.sql + wh
		q.coq = fmt.Sprintf("(Q (BSelect %s %s None None %s false) [] None None)", src.coq, cwh, coqList(citems))
		q.shape = "aggregate-all"
	case 2: // DISTINCT
		src := g.source(w, g.r.Intn(2))
		cols := shiftCols(src.cols)
		var items, citems []string
		for i := 0; i <= g.r.Intn(3); i++ {
			e := g.scalar(cols, g.r.Intn(2))
			items, citems = append(items, e.sql), append(citems, "SExpr "+e.coq)
		}
		q.sql = "SELECT DISTINCT " + strings.Join(items, ", ") + " FROM " + src.sql
		q.coq = fmt.Sprintf("(Q (BSelect %s None None None %s true) [] None None)", src.coq, coqList(citems))
		q.shape = "distinct"
		if src.joins > 0 {
			q.mode = 1
		}
	default: // set operators
		n := 1 + g.r.Intn(3)
		with := ""
		if g.r.Intn(2) == 0 {
			// both sides may refer to one common table expression: the references must not share their records
			w.ctes = []*qCTE{g.genCTE(w)}
			with = "WITH " + w.ctes[0].def + " "
			defer func() { w.ctes = nil }()
		}
		side := func() (string, string) {
			src := g.tableSrc(w)
			cols := shiftCols(src.cols)
			var items, citems []string
			for i := 0; i < n; i++ {
				e := g.scalar(cols, g.r.Intn(2))
				items, citems = append(items, fmt.Sprintf("%s AS x%d", e.sql, i)), append(citems, "SExpr "+e.coq)
			}
			return "SELECT " + strings.Join(items, ", ") + " FROM " + src.sql,
				fmt.Sprintf("(BSelect %s None None None %s false)", src.coq, coqList(citems))
		}
		ls, lc := side()
		rs, rc := side()
		op := [][2]string{{"UNION", "SUnion"}, {"EXCEPT", "SExcept"}, {"INTERSECT", "SIntersect"}}[g.r.Intn(3)]
		all := g.r.Intn(2) == 0
		q.sql = with + ls + " " + op[0] + map[bool]string{true: " ALL ", false: " "}[all] + rs
		q.coq = fmt.Sprintf("(Q (BSet %s %s %s %s) [] None None)", op[1], coqBool(all), lc, rc)
		q.shape = "set-" + strings.ToLower(op[0])
	}
	return q
}

// ---- C07-style: ORDER BY / OFFSET / LIMIT ----------------------------------------------------------------
func (g *qGen) genOrder(w *qWorld, t *qTable) qQuery {
	// --strict-equal is not part of the property's quantifier and is not generated here: in that mode
	// SortValue.Less compares the upper-cased sort text of any two text cells and answers FALSE (never
	// UNKNOWN) when the texts are alike ("a" vs "A": pinned by sort_value_test.go) or empty (datetime-like
	// text has no sort text), so that under DESC each of two such rows sorts before the other.
	// Recorded in DESIGN.md as an observation outside C07.
	q := qQuery{strict: false, mode: 2}
	a := "o"
	var items, citems []string
	for i, c := range t.cols {
		items = append(items, a+"."+c)
		citems = append(citems, fmt.Sprintf("SExpr (ECol %d)", i))
	}
	nk := 1 + g.r.Intn(3)
	var ord, cord []string
	for i := 0; i < nk; i++ {
		ci := g.r.Intn(len(t.cols))
		d := [][2]string{{"", "Asc"}, {" ASC", "Asc"}, {" DESC", "Desc"}}[g.r.Intn(3)]
		np := [][2]string{{"", "None"}, {" NULLS FIRST", "(Some NFirst)"}, {" NULLS LAST", "(Some NLast)"}}[g.r.Intn(3)]
		ord = append(ord, a+"."+t.cols[ci]+d[0]+np[0])
		cord = append(cord, fmt.Sprintf("mkO (OSel %d) %s %s", ci, d[1], np[1]))
	}
	from, fromCoq := t.name+" AS "+a, fmt.Sprintf("(SrcTable %d %s)", len(t.cols), t.coq)
	if g.r.Intn(4) == 0 {
		// the sorted table is itself the result of an inner OFFSET / LIMIT: what the inner clauses leave behind
		// (the offset) must not leak into the outer ones
		var io, ico, icols, iitems []string
		for i, c := range t.cols {
			io = append(io, "i."+c)
			ico = append(ico, fmt.Sprintf("mkO (OSel %d) Asc None", i))
			icols = append(icols, "i."+c)
			iitems = append(iitems, fmt.Sprintf("SExpr (ECol %d)", i))
		}
		n := len(t.rows)
		k := []int{0, 1, 2, n / 2, n - 1, n}[g.r.Intn(6)]
		if k < 0 {
			k = 0
		}
		ilim, iclim := "", "None"
		if g.r.Intn(3) == 0 {
			m := []int{1, 2, n / 2, n}[g.r.Intn(4)]
			ilim, iclim = fmt.Sprintf(" LIMIT %d", m), fmt.Sprintf("(Some (LimRows (%d), false))", m)
		}
		// no inner ORDER BY: rows that tie under a sort key need not be identical (" a" / "A"), and which of them an
		// OFFSET drops after an unstable sort is not determined; without it OFFSET / LIMIT cut the table order
		_, _ = io, ico
		from = fmt.Sprintf("(SELECT %s FROM %s AS i%s OFFSET %d) AS %s", strings.Join(icols, ", "), t.name, ilim, k, a)
		fromCoq = fmt.Sprintf("(SrcSub (Q (BSelect (SrcTable %d %s) None None None %s false) [] (Some (%d)) %s))", len(t.cols), t.coq, coqList(iitems), k, iclim)
		q.shape = "derived-offset"
	}
	sql := "SELECT " + strings.Join(items, ", ") + " FROM " + from + " ORDER BY " + strings.Join(ord, ", ")
	n := len(t.rows)
	lim, clim, off, coff := "", "None", "", "None"
	if g.r.Intn(4) != 0 {
		ties := g.r.Intn(3) == 0
		tsql := map[bool]string{true: " WITH TIES", false: ""}[ties]
		if g.r.Intn(3) == 0 {
			ps := []string{"-1", "0", "0.5", "10", "33.3", "50", "99.9", "100", "150", "25"}
			p := ps[g.r.Intn(len(ps))]
			var f float64
			fmt.Sscan(p, &f)
			lim = " LIMIT " + p + " PERCENT" + tsql
			clim = fmt.Sprintf("(Some (LimPercent %s, %s))", coqFloat(f), coqBool(ties))
			if f > 100 {
				q.tags = append(q.tags, "limit-percent>100")
			}
		} else {
			cands := []int{-1, 0, 1, 2, n - 1, n, n + 1, n / 2, 1000000}
			k := cands[g.r.Intn(len(cands))]
			lim = fmt.Sprintf(" LIMIT %d", k) + tsql
			clim = fmt.Sprintf("(Some (LimRows (%d), %s))", k, coqBool(ties))
			if k <= 0 && ties {
				q.tags = append(q.tags, "limit-0-with-ties")
			}
		}
		if ties {
			q.shape = "with-ties"
		}
	}
	if g.r.Intn(2) == 0 {
		cands := []int{-1, 0, 1, 2, n - 1, n, n + 1, n / 2, 5000} // not larger: the model skips with a unary natural number (the far end is a scenario of C19)
		k := cands[g.r.Intn(len(cands))]
		off = fmt.Sprintf(" OFFSET %d", k)
		coff = fmt.Sprintf("(Some (%d))", k)
	}
	q.sql = sql + lim + off
	q.coq = fmt.Sprintf("(Q (BSelect %s None None None %s false) %s %s %s)", fromCoq, coqList(citems), coqList(cord), coff, clim)
	if q.shape == "" {
		q.shape = "order"
	}
	return q
}

// sortable tables: every column holds mutually comparable values (the property's quantifier)
func (g *qGen) genSortableTable(name string, nrows int, coqName string) *qTable {
	t := &qTable{name: name, coq: coqName}
	ncols := 2 + g.r.Intn(2)
	kinds := []string{"int", "num", "plaintext", "date", "bignum"}
	// integers beyond 2^53 next to floats: the comparator must compare them exactly (finding int-float-beyond-2p53)
	bignum := []string{"9007199254740992", "9007199254740993", "9007199254740992.0", "9007199254740994.0", "9007199254740991", "-9007199254740993", "-9007199254740992.0",
		"9223372036854775807", "9223372036854775808", "9223372036854775806", "-9223372036854775808", "-9223372036854775809", "1e19", "-1e19", "0.5", "1", "1.5", "2", "0", "-0.5", "3e0"}
	plain := []string{"a", "A", " a", "b", "B ", "abc", "ABC", "Abc", "x:y", "", "ab c", "あ", "à", "z", "zz", "Z"}
	profs := make([]string, ncols)
	for c := 0; c < ncols; c++ {
		t.cols = append(t.cols, fmt.Sprintf("c%d", c+1))
		profs[c] = kinds[g.r.Intn(len(kinds))]
	}
	small := g.r.Intn(2) == 0
	for i := 0; i < nrows; i++ {
		row := make([]*string, ncols)
		for c := 0; c < ncols; c++ {
			if g.r.Intn(8) == 0 {
				continue
			}
			var p []string
			switch profs[c] {
			case "plaintext":
				p = plain
			case "bignum":
				p = bignum
			case "int":
				if small {
					p = qProfiles["int"]
				} else {
					row[c] = sp(fmt.Sprint(g.r.Intn(50) - 10))
					continue
				}
			default:
				p = qProfiles[profs[c]]
			}
			row[c] = sp(p[g.r.Intn(len(p))])
		}
		t.rows = append(t.rows, row)
	}
	return t
}

var _ = rand.Int
