package main

// Shared helpers: scratch repositories, CSV table files, running SQL through the library and the
// real binary.

import (
	"bytes"
	"context"
	"fmt"
	"os"
	"os/exec"
	"path/filepath"
	"strings"
	"syscall"
	"time"

	"github.com/mithrandie/csvq/lib/parser"
	"github.com/mithrandie/csvq/lib/query"
	"github.com/mithrandie/csvq/lib/value"
)

// scratch directories live outside /repo and /verif and are removed by the caller (defer Close)
type Scratch struct{ Dir string }

func newScratch() *Scratch {
	d, err := os.MkdirTemp("", "csvqv-")
	if err != nil {
		panic(err)
	}
	return &Scratch{Dir: d}
}
func (s *Scratch) Close()                  { _ = os.RemoveAll(s.Dir) }
func (s *Scratch) Path(name string) string { return filepath.Join(s.Dir, name) }

// csvCell renders one cell: nil = NULL (unquoted empty field); everything else is quoted so that the
// loader returns exactly the given text.
func csvCell(c *string) string {
	if c == nil {
		return ""
	}
	return `"` + strings.ReplaceAll(*c, `"`, `""`) + `"`
}

func sp(s string) *string { return &s }

// writeCSV writes header + rows with LF line breaks (UTF-8, comma)
func writeCSV(path string, header []string, rows [][]*string) {
	var b strings.Builder
	h := make([]string, len(header))
	for i, c := range header {
		h[i] = csvCell(sp(c))
	}
	b.WriteString(strings.Join(h, ",") + "\n")
	for _, r := range rows {
		cs := make([]string, len(r))
		for i, c := range r {
			cs[i] = csvCell(c)
		}
		b.WriteString(strings.Join(cs, ",") + "\n")
	}
	if err := os.WriteFile(path, []byte(b.String()), 0644); err != nil {
		panic(err)
	}
}

// cellsToPrimaries: what the CSV loader turns the cells into (String or Null)
func cellPrimary(c *string) value.Primary {
	if c == nil {
		return value.NewNull()
	}
	return value.NewString(*c)
}

func coqCell(c *string) string { return coqVal(cellPrimary(c)) }

func coqCellRows(rows [][]*string) string {
	rs := make([]string, len(rows))
	for i, r := range rows {
		cs := make([]string, len(r))
		for j, c := range r {
			cs[j] = coqCell(c)
		}
		rs[i] = coqList(cs)
	}
	return "[" + strings.Join(rs, ";\n   ") + "]"
}

func showCellRows(rows [][]*string) [][]string {
	out := make([][]string, len(rows))
	for i, r := range rows {
		out[i] = make([]string, len(r))
		for j, c := range r {
			if c == nil {
				out[i][j] = "NULL"
			} else {
				out[i][j] = fmt.Sprintf("%q", *c)
			}
		}
	}
	return out
}

// selectView parses one SELECT statement and runs query.Select on a fresh scope of tx
func selectView(tx *query.Transaction, sql string) (*query.View, error) {
	stmts, _, err := parser.Parse(sql, "", false, tx.Flags.AnsiQuotes)
	if err != nil {
		return nil, err
	}
	if len(stmts) != 1 {
		return nil, fmt.Errorf("harness: expected one statement")
	}
	sq, ok := stmts[0].(parser.SelectQuery)
	if !ok {
		return nil, fmt.Errorf("harness: not a select query")
	}
	scope := query.NewReferenceScope(tx)
	return query.Select(context.Background(), scope, sq)
}

// selectViewIn runs one SELECT in an existing scope (temporary tables, variables and cursors of a
// Processor live in its scope)
func selectViewIn(scope *query.ReferenceScope, sql string) (*query.View, error) {
	stmts, _, err := parser.Parse(sql, "", false, scope.Tx.Flags.AnsiQuotes)
	if err != nil {
		return nil, err
	}
	sq, ok := stmts[0].(parser.SelectQuery)
	if !ok || len(stmts) != 1 {
		return nil, fmt.Errorf("harness: not a single select query")
	}
	return query.Select(context.Background(), scope, sq)
}

func viewRows(v *query.View) [][]value.Primary {
	rows := make([][]value.Primary, len(v.RecordSet))
	for i, rec := range v.RecordSet {
		rows[i] = make([]value.Primary, len(rec))
		for j, cell := range rec {
			if len(cell) == 0 {
				rows[i][j] = value.NewNull()
			} else {
				rows[i][j] = cell[0]
			}
		}
	}
	return rows
}

func coqValRows(rows [][]value.Primary) string {
	rs := make([]string, len(rows))
	for i, r := range rows {
		cs := make([]string, len(r))
		for j, c := range r {
			cs[j] = coqVal(c)
		}
		rs[i] = coqList(cs)
	}
	return "[" + strings.Join(rs, ";\n   ") + "]"
}

func showValRows(rows [][]value.Primary) [][]string {
	out := make([][]string, len(rows))
	for i, r := range rows {
		out[i] = make([]string, len(r))
		for j, c := range r {
			out[i][j] = showVal(c)
		}
	}
	return out
}

// execStatements runs a program through a Processor (the way lib/action.Run does, without the
// final auto-commit); returns the flow and the error
func execProgram(tx *query.Transaction, src string) (query.StatementFlow, error) {
	stmts, _, err := parser.Parse(src, "", false, tx.Flags.AnsiQuotes)
	if err != nil {
		return query.TerminateWithError, err
	}
	proc := query.NewProcessor(tx)
	return proc.Execute(context.Background(), stmts)
}

// ---- the real binary ---------------------------------------------------------------------------
type RunResult struct {
	Stdout, Stderr string
	Code           int
	TimedOut       bool
}

func csvqBinary() string {
	if b := os.Getenv("VERIF_BUILD"); b != "" {
		return filepath.Join(b, "csvq")
	}
	return "/verif/build/csvq"
}

// runCsvq runs the csvq binary built from /repo's working tree in dir, under a wall-clock bound and
// an address-space limit (DESIGN.md section 12).  extraEnv entries are "K=V".
func runCsvq(dir string, args []string, stdin string, timeout time.Duration, extraEnv ...string) RunResult {
	return runCmd(dir, append([]string{csvqBinary()}, args...), stdin, timeout, extraEnv...)
}

func runCmd(dir string, argv []string, stdin string, timeout time.Duration, extraEnv ...string) RunResult {
	ctx, cancel := context.WithTimeout(context.Background(), timeout)
	defer cancel()
	script := "ulimit -v 4000000; exec \"$@\""
	cmd := exec.CommandContext(ctx, "/bin/sh", append([]string{"-c", script, "sh"}, argv...)...)
	cmd.Dir = dir
	cmd.Env = append([]string{"HOME=" + dir, "PATH=/usr/bin:/bin", "TZ=UTC", "LANG=C"}, extraEnv...)
	if stdin != "" { // an (empty) pipe makes csvq read FROM-less queries from stdin; none = /dev/null
		cmd.Stdin = strings.NewReader(stdin)
	}
	cmd.SysProcAttr = &syscall.SysProcAttr{Setpgid: true}
	var so, se bytes.Buffer
	cmd.Stdout, cmd.Stderr = &so, &se
	err := cmd.Run()
	res := RunResult{Stdout: so.String(), Stderr: se.String()}
	if ctx.Err() == context.DeadlineExceeded {
		res.TimedOut = true
		if cmd.Process != nil {
			_ = syscall.Kill(-cmd.Process.Pid, syscall.SIGKILL)
		}
	}
	if err != nil {
		if ee, ok := err.(*exec.ExitError); ok {
			res.Code = ee.ExitCode()
		} else {
			res.Code = -1
		}
	}
	return res
}

// internalFailure reports the markers of an internal failure in a run's output (C19)
func internalFailure(r RunResult) string {
	for _, m := range []string{"Fatal Error", "panic:", "goroutine ", "runtime error", "SIGSEGV"} {
		if strings.Contains(r.Stderr, m) || strings.Contains(r.Stdout, m) {
			return m
		}
	}
	if r.TimedOut {
		return "timeout"
	}
	return ""
}
