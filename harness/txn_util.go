package main

// Shared by C01 / C08 / C20: a library session that executes statements one at a time on ONE
// Transaction (the interactive-shell discipline), observation of the visible tables, of the
// transaction's cache / uncommitted maps, of the directory; rendering of the observed run as the
// `item` list of Csvq.Harness.HTxn.

import (
	"bytes"
	"context"
	"fmt"
	"os"
	"os/exec"
	"path/filepath"
	"sort"
	"strings"
	"syscall"
	"time"

	"github.com/mithrandie/csvq/lib/parser"
	"github.com/mithrandie/csvq/lib/query"
	"github.com/mithrandie/csvq/lib/value"
)

// ---- names ------------------------------------------------------------------------------------
// file tables are f0.csv, f1.csv, ... (key = index); temporary tables are tt0, tt1, ...
func fileName(k int) string { return fmt.Sprintf("f%d.csv", k) }
func fileSQL(k int) string  { return "`" + fileName(k) + "`" }
func tempName(k int) string { return fmt.Sprintf("tt%d", k) }

func fileKeyOf(name string) int {
	var k int
	if n, err := fmt.Sscanf(strings.ToLower(name), "f%d.csv", &k); err == nil && n == 1 && strings.EqualFold(name, fileName(k)) {
		return k
	}
	return -1
}
func tempKeyOf(name string) int {
	var k int
	if n, err := fmt.Sscanf(strings.ToLower(name), "tt%d", &k); err == nil && n == 1 && strings.EqualFold(name, tempName(k)) {
		return k
	}
	return -1
}

// ---- tables -----------------------------------------------------------------------------------
// an observed table: header row + records
type obsTab [][]value.Primary

func viewToTab(v *query.View) obsTab {
	t := make(obsTab, 0, len(v.RecordSet)+1)
	h := make([]value.Primary, len(v.Header))
	for i := range v.Header {
		h[i] = value.NewString(v.Header[i].Column)
	}
	t = append(t, h)
	t = append(t, viewRows(v)...)
	return t
}

func coqTab(t obsTab) string { return coqValRows(t) }
func coqOptTab(t obsTab, ok bool) string {
	if !ok {
		return "None"
	}
	return "(Some " + coqTab(t) + ")"
}
func showTab(t obsTab) [][]string { return showValRows(t) }

func tabEqual(a, b obsTab) bool { return coqTab(a) == coqTab(b) }

// initial table given as text cells (nil = NULL); the file is written in a NON-canonical form
// (first header field quoted, the other fields bare, text cells quoted) so that a file csvq
// rewrites never comes back byte-identical
type initTab struct {
	Header []string
	Rows   [][]*string
}

func (t initTab) bytes() []byte {
	var b bytes.Buffer
	for i, h := range t.Header {
		if i > 0 {
			b.WriteString(",")
		}
		if i == 0 {
			b.WriteString(`"` + h + `"`)
		} else {
			b.WriteString(h)
		}
	}
	b.WriteString("\n")
	for _, r := range t.Rows {
		for i, c := range r {
			if i > 0 {
				b.WriteString(",")
			}
			if c != nil {
				b.WriteString(`"` + *c + `"`)
			}
		}
		b.WriteString("\n")
	}
	return b.Bytes()
}

func (t initTab) tab() obsTab {
	o := obsTab{}
	h := make([]value.Primary, len(t.Header))
	for i, c := range t.Header {
		h[i] = value.NewString(c)
	}
	o = append(o, h)
	for _, r := range t.Rows {
		row := make([]value.Primary, len(r))
		for i, c := range r {
			row[i] = cellPrimary(c)
		}
		o = append(o, row)
	}
	return o
}

func writeInit(dir string, init map[int]initTab) {
	for k, t := range init {
		if err := os.WriteFile(filepath.Join(dir, fileName(k)), t.bytes(), 0644); err != nil {
			panic(err)
		}
	}
}

func coqD0(init map[int]initTab) string {
	ks := make([]int, 0, len(init))
	for k := range init {
		ks = append(ks, k)
	}
	sort.Ints(ks)
	items := make([]string, len(ks))
	for i, k := range ks {
		items[i] = fmt.Sprintf("(%s, %s)", coqN(k), coqTab(init[k].tab()))
	}
	return coqList(items)
}

func coqKeys(ks []int) string {
	items := make([]string, len(ks))
	for i, k := range ks {
		items[i] = coqN(k)
	}
	return coqList(items)
}

func seqInts(n int) []int {
	s := make([]int, n)
	for i := range s {
		s[i] = i
	}
	return s
}

// ---- library session -----------------------------------------------------------------------------
type libSess struct {
	dir  string
	tx   *query.Transaction
	proc *query.Processor
}

func newLibSess(dir string, waitSeconds float64) *libSess {
	tx := newTx(dir)
	tx.UpdateWaitTimeout(waitSeconds, 5*time.Millisecond)
	return &libSess{dir: dir, tx: tx, proc: query.NewProcessor(tx)}
}

// execOne runs one statement text through Processor.Execute (no auto-commit: tx.AutoCommit is
// false); affected = Transaction.AffectedRows as the processor stored it
func (s *libSess) execOne(ctx context.Context, sql string) (flow query.StatementFlow, affected int, err error) {
	stmts, _, perr := parser.Parse(sql, "", false, s.tx.Flags.AnsiQuotes)
	if perr != nil {
		return query.TerminateWithError, 0, perr
	}
	flow, err = s.proc.Execute(query.ContextForStoringResults(ctx), stmts)
	return flow, s.tx.AffectedRows, err
}

// read = SELECT * FROM <table> in the session's own scope (sees its temporary tables and cache)
func (s *libSess) read(tableSQL string) (obsTab, error) {
	stmts, _, err := parser.Parse("SELECT * FROM "+tableSQL, "", false, s.tx.Flags.AnsiQuotes)
	if err != nil {
		return nil, err
	}
	v, err := query.Select(context.Background(), s.proc.ReferenceScope, stmts[0].(parser.SelectQuery))
	if err != nil {
		return nil, err
	}
	return viewToTab(v), nil
}

// white-box view of the transaction: cache keys with ForUpdate, uncommitted maps
type whiteObs struct {
	Cached        map[int]bool
	Created       []int
	Updated       []int
	TUpdated      []int
	Unknown       []string
}

func (s *libSess) white() whiteObs {
	w := whiteObs{Cached: map[int]bool{}}
	for _, k := range s.tx.CachedViews.Keys() {
		v, ok := s.tx.CachedViews.Load(k)
		if !ok {
			continue
		}
		fk := fileKeyOf(filepath.Base(k))
		if fk < 0 {
			w.Unknown = append(w.Unknown, "cache:"+k)
			continue
		}
		w.Cached[fk] = v.FileInfo.ForUpdate
	}
	for k, fi := range s.tx.UncommittedViews.Created {
		fk := fileKeyOf(filepath.Base(k))
		if fk < 0 || !fi.IsFile() {
			w.Unknown = append(w.Unknown, "created:"+k)
			continue
		}
		w.Created = append(w.Created, fk)
	}
	for k, fi := range s.tx.UncommittedViews.Updated {
		if fi.IsFile() {
			fk := fileKeyOf(filepath.Base(k))
			if fk < 0 {
				w.Unknown = append(w.Unknown, "updated:"+k)
				continue
			}
			w.Updated = append(w.Updated, fk)
		} else {
			tk := tempKeyOf(k)
			if tk < 0 {
				w.Unknown = append(w.Unknown, "updated-temp:"+k)
				continue
			}
			w.TUpdated = append(w.TUpdated, tk)
		}
	}
	sort.Ints(w.Created)
	sort.Ints(w.Updated)
	sort.Ints(w.TUpdated)
	return w
}

func (w whiteObs) coq() string {
	ks := make([]int, 0, len(w.Cached))
	for k := range w.Cached {
		ks = append(ks, k)
	}
	sort.Ints(ks)
	cs := make([]string, len(ks))
	for i, k := range ks {
		cs[i] = fmt.Sprintf("(%s, %s)", coqN(k), coqBool(w.Cached[k]))
	}
	return fmt.Sprintf("IWhite %s %s %s %s", coqList(cs), coqKeys(w.Created), coqKeys(w.Updated), coqKeys(w.TUpdated))
}

func (w whiteObs) show() string {
	return fmt.Sprintf("cached(forUpdate)=%v created=%v updated=%v temp-updated=%v", w.Cached, w.Created, w.Updated, w.TUpdated)
}

// the way every csvq run ends (lib/cli/app.go): auto-commit only after a normal end, then the
// deferred AutoRollback + ReleaseResourcesWithErrors
func (s *libSess) finish(normal bool) error {
	var err error
	if normal {
		err = s.proc.AutoCommit(context.Background())
	}
	if e := s.proc.AutoRollback(); e != nil && err == nil {
		err = e
	}
	if e := s.proc.ReleaseResourcesWithErrors(); e != nil && err == nil {
		err = e
	}
	return err
}

// ---- the directory ------------------------------------------------------------------------------
type dirObs struct {
	Files map[int]obsTab  // table files re-parsed by a fresh transaction
	Same  map[int]bool    // bytes identical to the initial file
	Extra []string        // any other directory entry (lock / temp leftovers, unknown names)
	Bad   []string        // table files that no longer parse
}

func observeDir(dir string, init map[int]initTab) dirObs {
	o := dirObs{Files: map[int]obsTab{}, Same: map[int]bool{}}
	ents, err := os.ReadDir(dir)
	if err != nil {
		panic(err)
	}
	s := newLibSess(dir, 20) // nobody else uses the directory any more; generous against machine load
	defer s.finish(false)
	for _, e := range ents {
		k := fileKeyOf(e.Name())
		if k < 0 || e.IsDir() || e.Name() != fileName(k) {
			o.Extra = append(o.Extra, e.Name())
			continue
		}
		b, err := os.ReadFile(filepath.Join(dir, e.Name()))
		if err != nil {
			panic(err)
		}
		if it, ok := init[k]; ok {
			o.Same[k] = bytes.Equal(b, it.bytes())
		}
		t, err := s.read(fileSQL(k))
		if err != nil && strings.Contains(err.Error(), "deadline") {
			t, err = s.read(fileSQL(k))
		}
		if err != nil {
			o.Bad = append(o.Bad, e.Name()+": "+err.Error())
			continue
		}
		o.Files[k] = t
	}
	return o
}

func (o dirObs) coqFiles() string {
	ks := make([]int, 0, len(o.Files))
	for k := range o.Files {
		ks = append(ks, k)
	}
	sort.Ints(ks)
	items := make([]string, len(ks))
	for i, k := range ks {
		items[i] = fmt.Sprintf("(%s, %s)", coqN(k), coqTab(o.Files[k]))
	}
	return coqList(items)
}

// keys of the files whose bytes differ from the initial file (or that did not exist initially)
func (o dirObs) coqChanged(init map[int]initTab) string {
	var ks []int
	for k := range o.Files {
		if _, ok := init[k]; !ok || !o.Same[k] {
			ks = append(ks, k)
		}
	}
	for k := range init {
		if _, ok := o.Files[k]; !ok {
			ks = append(ks, k)
		}
	}
	sort.Ints(ks)
	return coqKeys(ks)
}

func (o dirObs) show() map[string]interface{} {
	m := map[string]interface{}{}
	for k, t := range o.Files {
		m[fileName(k)] = map[string]interface{}{"table": showTab(t), "bytes_identical_to_initial": o.Same[k]}
	}
	if len(o.Extra) > 0 {
		m["other_entries"] = o.Extra
	}
	if len(o.Bad) > 0 {
		m["unreadable"] = o.Bad
	}
	return m
}

// ---- small value helpers ---------------------------------------------------------------------------
func strCells(cs ...string) []*string {
	out := make([]*string, len(cs))
	for i, c := range cs {
		if c == "\x00" {
			out[i] = nil
		} else {
			out[i] = sp(c)
		}
	}
	return out
}

// ---- shard writer with interned tables ---------------------------------------------------------------
// Tables repeat a lot inside one observed run (before / after, cache hit after cache hit): every
// distinct table is emitted once per shard as `Definition tN : tab := ...` and referenced by name.
type txnShard struct {
	dir, prop, header string
	caseType          string // Coq type of the main case list `cases`
	checkFn           string // Coq function  list caseType -> list (N * N)
	extra             map[string][2]string // further lists: name -> {Coq type, check function}
	max               int
	meta              *Meta
	k, n              int
	lists             map[string][]string
	defs              []string
	names             map[string]string
}

func (w *txnShard) tabRef(t obsTab) string {
	if w.names == nil {
		w.names = map[string]string{}
	}
	term := compactTab(t)
	if n, ok := w.names[term]; ok {
		return n
	}
	n := fmt.Sprintf("t%d", len(w.names))
	w.names[term] = n
	w.defs = append(w.defs, fmt.Sprintf("Definition %s : tab := %s.", n, term))
	return n
}

func (w *txnShard) optTabRef(t obsTab, ok bool) string {
	if !ok {
		return "None"
	}
	return "(Some " + w.tabRef(t) + ")"
}

func (w *txnShard) add(term string) { w.addTo("cases", term) }

func (w *txnShard) addTo(list string, term string) {
	if w.lists == nil {
		w.lists = map[string][]string{}
	}
	w.lists[list] = append(w.lists[list], term)
	w.n++
	if w.n >= w.max {
		w.flush()
	}
}

func (w *txnShard) flush() {
	if w.n == 0 {
		return
	}
	name := fmt.Sprintf("cases_%s_%d.v", w.prop, w.k)
	var b strings.Builder
	b.WriteString(w.header)
	b.WriteString(strings.Join(w.defs, "\n"))
	checks := []string{}
	b.WriteString(fmt.Sprintf("\nDefinition cases : list %s := [\n %s\n].\n", w.caseType, strings.Join(w.lists["cases"], ";\n ")))
	checks = append(checks, w.checkFn+" cases")
	var extras []string
	for l := range w.extra {
		extras = append(extras, l)
	}
	sort.Strings(extras)
	for _, l := range extras {
		b.WriteString(fmt.Sprintf("Definition %s : list %s := [\n %s\n].\n", l, w.extra[l][0], strings.Join(w.lists[l], ";\n ")))
		checks = append(checks, w.extra[l][1]+" "+l)
	}
	b.WriteString(fmt.Sprintf("Definition M := Eval vm_compute in (%s).\nPrint M.\n", strings.Join(checks, " ++ ")))
	if err := os.WriteFile(filepath.Join(w.dir, name), []byte(b.String()), 0644); err != nil {
		panic(err)
	}
	w.meta.Shards = append(w.meta.Shards, name)
	w.k++
	w.n = 0
	w.lists, w.defs, w.names = nil, nil, nil
}

// compact rendering of the cells of the generated fragment: NULL, integers, strings.  A string
// is emitted through HTxn.sv (raw text only: the correspondence compares raw texts, and nothing
// in the transaction model looks inside a cell); any other class falls back to the full term.
func compactVal(p value.Primary) string {
	switch v := p.(type) {
	case *value.Null:
		return "VNull"
	case *value.Integer:
		return fmt.Sprintf("VInt (%d)", v.Raw())
	case *value.String:
		return "sv " + coqStr(v.Raw())
	}
	return coqVal(p)
}

func compactTab(t obsTab) string {
	rs := make([]string, len(t))
	for i, r := range t {
		cs := make([]string, len(r))
		for j, c := range r {
			cs[j] = compactVal(c)
		}
		rs[i] = "[" + strings.Join(cs, "; ") + "]"
	}
	return "[" + strings.Join(rs, "; ") + "]"
}

const txnShardHeader = "From Coq Require Import ZArith NArith List Floats.\nRequire Import Csvq.Model.Base Csvq.Model.Value Csvq.Model.Txn Csvq.Model.TxnSpec Csvq.Harness.HTxn %s.\nOpen Scope list_scope.\nOpen Scope Z_scope.\n"

// runCmdDevNull is runCmd with stdin = /dev/null.  (With a pipe on stdin csvq reads a SELECT
// without FROM clause from the -- empty -- stdin table, so `SELECT 1 / 0` evaluates nothing.)
func runCmdDevNull(dir string, argv []string, timeout time.Duration, extraEnv ...string) RunResult {
	ctx, cancel := context.WithTimeout(context.Background(), timeout)
	defer cancel()
	script := "ulimit -v 4000000; exec \"$@\""
	cmd := exec.CommandContext(ctx, "/bin/sh", append([]string{"-c", script, "sh"}, argv...)...)
	cmd.Dir = dir
	cmd.Env = append([]string{"HOME=" + dir, "PATH=/usr/bin:/bin", "TZ=UTC", "LANG=C"}, extraEnv...)
	cmd.Stdin = nil
	cmd.SysProcAttr = &syscall.SysProcAttr{Setpgid: true}
	var so, se bytes.Buffer
	cmd.Stdout, cmd.Stderr = &so, &se
	err := cmd.Run()
	res := RunResult{Stdout: so.String(), Stderr: se.String()}
	if ctx.Err() == context.DeadlineExceeded {
		res.TimedOut = true
		if cmd.Process != nil {
			_ = syscall.Kill(-cmd.Process.Pid, syscall.SIGKILL)
		}
	}
	if err != nil {
		if ee, ok := err.(*exec.ExitError); ok {
			res.Code = ee.ExitCode()
		} else {
			res.Code = -1
		}
	}
	return res
}
