import argparse, fcntl, json, os, re, shlex, shutil, subprocess, sys, tempfile, time, glob
from concurrent.futures import ThreadPoolExecutor

ROOT = os.path.dirname(os.path.dirname(os.path.abspath(__file__)))
COQ = os.path.join(ROOT, "coq")
GEN = os.path.join(ROOT, "gen")
BUILD = os.path.join(ROOT, "build")
REPO = "/repo"

GOENV = dict(os.environ, GOFLAGS="-mod=mod", GOPROXY="off", GOSUMDB="off", GOTOOLCHAIN="local",
             CGO_ENABLED=os.environ.get("CGO_ENABLED", "0"))


def sh(cmd, timeout=600, cwd=None, env=None, stdin=None):
    """run a command; returns (returncode, stdout+stderr).  rc 124 on timeout."""
    try:
        # never let a child inherit whatever standard input the check was started with: csvq reads a table from
        # standard input when that is a pipe or a file (a FROM-less SELECT then answers from it)
        kw = dict(input=stdin) if stdin is not None else dict(stdin=subprocess.DEVNULL)
        p = subprocess.run(cmd, cwd=cwd, env=env, timeout=timeout, stdout=subprocess.PIPE,
                           stderr=subprocess.STDOUT, shell=isinstance(cmd, str), **kw)
        return p.returncode, p.stdout.decode("utf-8", "replace")
    except subprocess.TimeoutExpired as e:
        out = e.stdout.decode("utf-8", "replace") if e.stdout else ""
        return 124, out + "\n[timeout]"


class Lock:
    def __init__(self, name):
        os.makedirs(BUILD, exist_ok=True)
        self.path = os.path.join(BUILD, "." + name + ".lock")
    def __enter__(self):
        self.f = open(self.path, "w")
        fcntl.flock(self.f, fcntl.LOCK_EX)
    def __exit__(self, *a):
        fcntl.flock(self.f, fcntl.LOCK_UN)
        self.f.close()


# ---------------------------------------------------------------------------------------------
# Coq side
# ---------------------------------------------------------------------------------------------
def build_coq():
    """full .vo build of /verif/coq (no-op when current).  Returns (ok, log)."""
    with Lock("coq"):
        files = sorted(os.path.relpath(p, COQ) for d in ("Model", "Proofs", "Properties", "Harness")
                       for p in glob.glob(os.path.join(COQ, d, "*.v")))
        want = "-Q . Csvq\n" + "\n".join(files) + "\n"
        cp = os.path.join(COQ, "_CoqProject")
        if not os.path.exists(cp) or open(cp).read() != want or not os.path.exists(os.path.join(COQ, "Makefile")):
            open(cp, "w").write(want)
            rc, out = sh("coq_makefile -f _CoqProject -o Makefile", cwd=COQ, timeout=120)
            if rc != 0:
                return False, out
        # -k: a file that no longer checks must not keep the rest (models, Coq-side harnesses, other
        # properties' proofs) from being built: the search for a failing input needs them
        rc, out = sh("timeout 3000 make -k -j16 2>&1", cwd=COQ, timeout=3100)
        if rc != 0:
            # never leave the compiled form of an earlier version of a file that now fails
            for m in re.finditer(r'File "\./([A-Za-z0-9_/]+)\.v", line[^\n]*\n(?:[^\n]*\n){0,3}?Error', out):
                for ext in (".vo", ".vos", ".vok", ".glob"):
                    try:
                        os.remove(os.path.join(COQ, m.group(1) + ext))
                    except OSError:
                        pass
        return rc == 0, out


FORBIDDEN = re.compile(r"\b(Admitted|admit|Axiom|Parameter|Conjecture|Admit Obligations|bypass_check|Unset Guard Checking|Unset Positivity Checking|Unset Universe Checking)\b")


def forbidden_constructs():
    """grep the development for anything that would declare an axiom or switch off a kernel check"""
    bad = []
    for p in glob.glob(os.path.join(COQ, "**", "*.v"), recursive=True):
        txt = open(p, encoding="utf-8").read()
        txt = re.sub(r"\(\*.*?\*\)", "", txt, flags=re.S)
        for m in FORBIDDEN.finditer(txt):
            bad.append("%s: %s" % (os.path.relpath(p, COQ), m.group(0)))
        if re.search(r"^\s*(Variable|Hypothesis|Variables|Hypotheses)\b", txt, flags=re.M):
            # allowed only inside a Section: check that every occurrence is preceded by an open Section
            depth = 0
            for line in txt.splitlines():
                if re.match(r"\s*Section\b", line): depth += 1
                elif re.match(r"\s*End\b", line) and depth > 0: depth -= 1
                elif re.match(r"\s*(Variable|Hypothesis|Variables|Hypotheses)\b", line) and depth == 0:
                    bad.append("%s: %s outside a section" % (os.path.relpath(p, COQ), line.strip()))
    return bad


def check_theorem_file(pid, relpath):
    """re-check Properties/Cxx.v with coqc (output .vo goes to gen/), parse theorem names and the
    Print Assumptions blocks.  Returns dict(ok, theorems, axioms, log)."""
    os.makedirs(os.path.join(GEN, pid), exist_ok=True)
    src = os.path.join(COQ, relpath)
    txt = open(src, encoding="utf-8").read()
    names = re.findall(r"^\s*(?:Theorem|Lemma|Example|Corollary)\s+([A-Za-z0-9_']+)", txt, flags=re.M)
    out_vo = os.path.join(GEN, pid, os.path.basename(relpath) + "o")
    rc, out = sh(["timeout", "900", "coqc", "-Q", COQ, "Csvq", "-o", out_vo, src], timeout=950)
    axioms = set()
    closed = 0
    if rc == 0:
        # Print Assumptions for EVERY theorem of the file, not only those that carry the command themselves
        mod = "Csvq." + relpath[:-2].replace("/", ".")
        apath = os.path.join(GEN, pid, "assumptions_%s.v" % pid)
        # theorems stated inside a Module of the file are addressed by their qualified name
        qual, stack = {}, []
        for line in re.sub(r"\(\*.*?\*\)", "", txt, flags=re.S).splitlines():
            m1 = re.match(r"\s*Module\s+(?:Import\s+|Export\s+)?([A-Za-z0-9_']+)\s*\.", line)
            m2 = re.match(r"\s*End\s+([A-Za-z0-9_']+)\s*\.", line)
            m3 = re.match(r"\s*(?:Theorem|Lemma|Example|Corollary)\s+([A-Za-z0-9_']+)", line)
            if m1:
                stack.append(m1.group(1))
            elif m2 and stack and stack[-1] == m2.group(1):
                stack.pop()
            elif m3:
                qual[m3.group(1)] = ".".join(stack + [m3.group(1)])
        open(apath, "w", encoding="utf-8").write("Require Import %s.\n" % mod + "".join("Print Assumptions %s.\n" % qual.get(n, n) for n in names))
        rc2, out2 = sh(["timeout", "900", "coqc", "-Q", COQ, "Csvq", apath], cwd=os.path.join(GEN, pid), timeout=950)
        if rc2 == 0:
            out = out2
        else:
            return dict(ok=False, theorems=names, axioms=[], closed=0, log="Print Assumptions run failed:\n" + out2[-3000:])
    # Print Assumptions prints either "Closed under the global context" or "Axioms:\n name : type ..."
    for blk in re.split(r"\n(?=Axioms:|Closed under)", out):
        if blk.startswith("Closed under"):
            closed += 1
        elif blk.startswith("Axioms:"):
            for m in re.finditer(r"^([A-Za-z_][A-Za-z0-9_.']*)\s*:", blk, flags=re.M):
                if m.group(1) != "Axioms":
                    axioms.add(m.group(1))
    return dict(ok=(rc == 0), theorems=names, axioms=sorted(axioms), closed=closed, log=out[-4000:])


def parse_pairs(out):
    """parse  'M = [(k%N, id%N); ...] : list (N * N)'  from coqc output"""
    flat = re.sub(r"\s+", "", out)
    m = re.search(r"M=\[(.*?)\]:list", flat)
    if not m:
        return None
    return [(int(a), int(b)) for a, b in re.findall(r"\((\d+)(?:%N)?,(\d+)(?:%N)?\)", m.group(1))]


def run_shard(pid, shard):
    path = os.path.join(GEN, pid, shard)
    t0 = time.time()
    rc, out = sh(["timeout", "1500", "coqc", "-Q", COQ, "Csvq", path], cwd=os.path.join(GEN, pid), timeout=1600)
    pairs = parse_pairs(out) if rc == 0 else None
    return dict(shard=shard, rc=rc, pairs=pairs, log=out[-3000:], wall=time.time() - t0)


def run_shards(pid, shards, jobs=16):
    with ThreadPoolExecutor(max_workers=jobs) as ex:
        return list(ex.map(lambda s: run_shard(pid, s), shards))


def eval_snippet(pid, shard, snippet, timeout=600):
    """append a command to a copy of a shard (without its M/Print lines) and return coqc's output"""
    src = open(os.path.join(GEN, pid, shard), encoding="utf-8").read()
    src = re.sub(r"Definition M := .*?Print M\.\s*$", "", src, flags=re.S)
    name = shard.replace(".v", "_x.v")
    path = os.path.join(GEN, pid, name)
    open(path, "w", encoding="utf-8").write(src + "\n" + snippet + "\n")
    rc, out = sh(["timeout", str(timeout), "coqc", "-Q", COQ, "Csvq", path], cwd=os.path.join(GEN, pid), timeout=timeout + 50)
    return out.strip()


# ---------------------------------------------------------------------------------------------
# Go side
# ---------------------------------------------------------------------------------------------
def build_go(need_csvq=False, race=False):
    """rebuild harness (+ csvq) from /repo's current working tree with -tags verif"""
    with Lock("go"):
        os.makedirs(BUILD, exist_ok=True)
        hdir = os.path.join(ROOT, "harness")
        shutil.copyfile(os.path.join(REPO, "go.sum"), os.path.join(hdir, "go.sum"))
        logs = []
        rc, out = sh(["go", "build", "-tags", "verif", "-o", os.path.join(BUILD, "harness"), "."], cwd=hdir, env=GOENV, timeout=900)
        logs.append(out)
        if rc != 0:
            return False, "\n".join(logs)
        if race:
            env = dict(GOENV, CGO_ENABLED="1")
            rc, out = sh(["go", "build", "-race", "-tags", "verif", "-o", os.path.join(BUILD, "harness_race"), "."], cwd=hdir, env=env, timeout=1200)
            logs.append(out)
            if rc != 0:
                return False, "\n".join(logs)
        if need_csvq:
            rc, out = sh(["go", "build", "-tags", "verif", "-o", os.path.join(BUILD, "csvq"), "."], cwd=REPO, env=GOENV, timeout=900)
            logs.append(out)
            if rc != 0:
                return False, "\n".join(logs)
        return True, "\n".join(logs)


def run_harness(pid, seed, tier, extra=None, binary="harness", timeout=3000):
    out = os.path.join(GEN, pid)
    shutil.rmtree(out, ignore_errors=True)
    os.makedirs(out)
    cmd = ["timeout", str(timeout), os.path.join(BUILD, binary), "-prop", pid, "-seed", str(seed), "-tier", tier, "-out", out] + (extra or [])
    env = dict(GOENV, VERIF_BUILD=BUILD, VERIF_ROOT=ROOT)
    # every execution of the implementation runs under a memory limit (DESIGN.md section 12)
    rc, log = sh("ulimit -v 8000000; exec " + " ".join("'%s'" % c for c in cmd), env=env, timeout=timeout + 60)
    meta = None
    mp = os.path.join(out, "meta.json")
    if os.path.exists(mp):
        meta = json.load(open(mp, encoding="utf-8"))
    return rc, log, meta



# ---------------------------------------------------------------------------------------------
# scenario corpus: /verif/corpus/scenarios/<pid>/*.json
# ---------------------------------------------------------------------------------------------
def scenario_files(pid):
    return sorted(glob.glob(os.path.join(ROOT, "corpus", "scenarios", pid, "*.json")))


def run_scenarios(pid):
    """Fixed inputs with the result the property prescribes, written down by hand: each is a finding that was
    met once (a known one, or a repaired one kept as a regression).  A scenario is {key, what, files:{name:text},
    script (sh, run in a scratch directory with csvq = the binary built from /repo's working tree, under ulimit
    and timeout), expect_stdout [, expect_exit] [, sorted]}.  Returns (n_run, violations)."""
    vs = []
    n = 0
    for path in scenario_files(pid):
        sc = json.load(open(path, encoding="utf-8"))
        d = tempfile.mkdtemp(prefix="csvqv-scn-")
        try:
            for name, text in (sc.get("files") or {}).items():
                with open(os.path.join(d, name), "w", encoding="utf-8", newline="") as f:
                    f.write(text)
            env = dict(GOENV, PATH=BUILD + os.pathsep + os.environ.get("PATH", ""), HOME=d)
            rc, out = sh("ulimit -v 2000000; timeout -s KILL %d sh -c %s" % (sc.get("timeout", 30), shlex.quote(sc["script"])), cwd=d, env=env, timeout=sc.get("timeout", 30) + 30)
            left = sorted(x for x in os.listdir(d) if x not in (sc.get("files") or {}) and not x.startswith("out."))
        finally:
            shutil.rmtree(d, ignore_errors=True)
        n += 1
        got = out
        want = sc.get("expect_stdout")
        if sc.get("sorted") and want is not None:
            got = "\n".join(sorted(got.splitlines()))
            want = "\n".join(sorted(want.splitlines()))
        bad = []
        if want is not None and got.strip() != want.strip():
            bad.append("output differs")
        if "expect_stdout_any" in sc and got.strip() not in [w.strip() for w in sc["expect_stdout_any"]]:
            bad.append("output is none of the accepted ones")
        if "expect_exit" in sc and rc != sc["expect_exit"]:
            bad.append("exit status %s, expected %s" % (rc, sc["expect_exit"]))
        if "expect_files" in sc and left != sorted(sc["expect_files"]):
            bad.append("files left in the directory: %s, expected %s" % (left, sorted(sc["expect_files"])))
        if bad:
            vs.append(dict(tags=[sc["key"]], nofail=False,
                           what="scenario %s: %s (%s)" % (os.path.basename(path), sc.get("what", ""), "; ".join(bad)),
                           replay=dict(kind="failing-input", check="scenario", case=dict(scenario=os.path.relpath(path, ROOT), files=sc.get("files"), script=sc["script"],
                                                                                       expected=sc.get("expect_stdout", sc.get("expect_stdout_any")), observed=out[-3000:], exit=rc, files_left=left))))
    return n, vs

# ---------------------------------------------------------------------------------------------
# findings, evidence, main
# ---------------------------------------------------------------------------------------------
def load_known():
    p = os.path.join(ROOT, "known_findings.json")
    if not os.path.exists(p):
        return []
    return json.load(open(p, encoding="utf-8"))["findings"]


def write_replay(pid, name, obj):
    d = os.path.join(ROOT, "replays")
    os.makedirs(d, exist_ok=True)
    p = os.path.join(d, "%s_%s.json" % (pid, name))
    json.dump(obj, open(p, "w", encoding="utf-8"), indent=1, ensure_ascii=False)
    return p


def main(argv):
    import props
    ap = argparse.ArgumentParser()
    ap.add_argument("property")
    ap.add_argument("--tier", default=os.environ.get("VERIF_TIER", "quick"))
    ap.add_argument("--replay", default=None)
    a = ap.parse_args(argv)
    pid = a.property
    tier = a.tier if a.tier in ("quick", "thorough") else "quick"
    seed = int(os.environ.get("VERIF_SEED", "1") or "1")
    only_id = None
    if a.replay:
        rp = json.load(open(a.replay, encoding="utf-8"))
        seed, tier, only_id = rp.get("seed", seed), rp.get("tier", tier), rp.get("id")
    cfg = props.PROPS[pid]
    # two runs of the same property share gen/<pid>: serialise them
    with Lock("run_" + pid):
        return run_property(pid, cfg, tier, seed, only_id)


def run_property(pid, cfg, tier, seed, only_id):
    t0 = time.time()
    violations = []      # dicts: key(s), what, replay object
    notes = []

    # 1. proofs ---------------------------------------------------------------------------
    ok, log = build_coq()
    bad = forbidden_constructs()
    thm = dict(ok=False, theorems=[], axioms=[], closed=0, log="")
    if not bad:
        # whether THIS property's theorems still check is decided by re-checking its theorem file against
        # what was built (a file of another property that fails does not break this one; a failing
        # dependency has no .vo, so the re-check fails)
        thm = check_theorem_file(pid, cfg["theorem_file"])
        if not thm["ok"] and not ok:
            thm["log"] = (thm["log"] + "\n--- make ---\n" + log)[-4000:]
        if thm["ok"] and not ok:
            notes.append("make reported errors in files this property's theorems do not depend on: " + log[-400:])
        ok = thm["ok"]
    chk = None
    if ok and not bad and thm["ok"] and tier == "thorough" and not only_id:
        # independent re-check of the compiled property file and everything it depends on
        mod = "Csvq." + cfg["theorem_file"][:-2].replace("/", ".")
        with Lock("coqchk"):
            rc, out = sh(["timeout", "2400", "coqchk", "-silent", "-o", "-Q", COQ, "Csvq", mod], cwd=COQ, timeout=2500)
        m = re.search(r"\* Axioms:(.*?)\n\s*\n\* ", out, flags=re.S)
        axs = [a.strip() for a in (m.group(1).strip().splitlines() if m else []) if a.strip() and a.strip() != "<none>"]
        chk = dict(ok=(rc == 0), axioms=axs, tail=out[-600:])
        thm["coqchk"] = chk
        if rc != 0:
            thm["ok"] = False
            thm["log"] = "coqchk failed: " + out[-1500:]
    proof_ok = ok and not bad and thm["ok"]
    if not proof_ok:
        what = "Coq development does not check: " + ("forbidden constructs %s" % bad if bad else (thm["log"] or log)[-1500:])
        violations.append(dict(tags=["proof-broken"], what=what, nofail=True,
                               replay=dict(kind="no-failing-input-found", theorem_or_correspondence=cfg["theorem_file"], detail=what)))

    # 2. implementation -------------------------------------------------------------------
    ok, log = build_go(need_csvq=cfg.get("needs_csvq", False) or bool(scenario_files(pid)), race=cfg.get("race", False))
    if not ok:
        print(log[-3000:])
        print("check: cannot build the harness against /repo's working tree", file=sys.stderr)
        violations.append(dict(tags=["build-broken"], what="harness does not build against the current tree (API the correspondence relies on changed): " + log[-800:], nofail=True,
                               replay=dict(kind="no-failing-input-found", theorem_or_correspondence="harness build", detail=log[-3000:])))
        return finish(pid, cfg, tier, seed, t0, violations, None, thm, [], notes)

    rc, hlog, meta = run_harness(pid, seed, tier, extra=cfg.get("harness_args", []), binary=cfg.get("binary", "harness"),
                                 timeout=cfg.get("harness_timeout", {}).get(tier, 3000))
    if rc != 0 or meta is None:
        print(hlog[-3000:])
        violations.append(dict(tags=["harness-failed"], what="harness run failed (rc=%s): %s" % (rc, hlog[-600:]), nofail=True,
                               replay=dict(kind="no-failing-input-found", theorem_or_correspondence="harness run", detail=hlog[-3000:])))
        return finish(pid, cfg, tier, seed, t0, violations, meta, thm, [], notes)

    # 3. model vs implementation, spec checkers --------------------------------------------
    results = run_shards(pid, meta.get("shards", []))
    for r in results:
        if r["pairs"] is None:
            violations.append(dict(tags=["shard-failed"], what="cases shard %s did not evaluate: %s" % (r["shard"], r["log"][-600:]), nofail=True,
                                   replay=dict(kind="no-failing-input-found", theorem_or_correspondence="correspondence shard " + r["shard"], detail=r["log"])))
            continue
        for kind, cid in r["pairs"]:
            if only_id is not None and cid != only_id:
                continue
            case = meta["cases"].get(str(cid), {})
            kname, kdesc, failing = cfg["kinds"].get(kind, ("kind%d" % kind, "unclassified", True))
            expected = ""
            if len([v for v in violations if v.get("replay", {}).get("model_expected")]) < 3 and cfg.get("expected"):
                sn = cfg["expected"](kind, cid)
                if sn:
                    expected = eval_snippet(pid, r["shard"], sn)
            tags = list(case.get("tags") or []) if isinstance(case, dict) else []
            violations.append(dict(tags=tags + ["kind:" + kname], what="%s (case %d): %s" % (kname, cid, kdesc), nofail=not failing, id=cid,
                                   replay=dict(kind="failing-input" if failing else "no-failing-input-found", check=kname,
                                               theorem_or_correspondence=kdesc, id=cid, case=case, model_expected=expected)))
    for d in (meta.get("direct") or []):
        violations.append(dict(tags=[d["key"]], what=d["what"], nofail=False, replay=dict(kind="failing-input", check="direct", case=d.get("case"))))
    if not only_id:
        nscn, svs = run_scenarios(pid)
        violations.extend(svs)
        if nscn:
            meta["evaluations"] = meta.get("evaluations", 0) + nscn
            notes.append("%d fixed scenarios of corpus/scenarios/%s run through the csvq binary" % (nscn, pid))
    return finish(pid, cfg, tier, seed, t0, violations, meta, thm, results, notes)


def finish(pid, cfg, tier, seed, t0, violations, meta, thm, results, notes):
    known = [k for k in load_known() if k["property"] == pid and k.get("status") == "known"]
    printed_known = set()
    real = []
    for v in violations:
        hit = None
        for k in known:
            if k["key"] in v["tags"]:
                hit = k
                break
        if hit:
            if hit["key"] not in printed_known:
                printed_known.add(hit["key"])
                print("KNOWN-FINDING: property=%s %s" % (pid, hit["what"]))
        else:
            real.append(v)
    # group identical tag sets so that one defect does not print hundreds of lines
    seen = {}
    for v in real:
        key = (tuple(sorted(t for t in v["tags"])), v.get("nofail", False))
        seen.setdefault(key, []).append(v)
    n = 0
    for key, vs in seen.items():
        v = vs[0]
        rp = dict(property=pid, seed=seed, tier=tier, occurrences=len(vs), other_ids=[x.get("id") for x in vs[1:20]])
        rp.update(v["replay"])
        path = write_replay(pid, "%d" % n, rp)
        n += 1
        line = "VIOLATION property=%s replay=%s" % (pid, path)
        if v.get("nofail"):
            line += " no-failing-input-found"
        print(line)
        print("  " + v["what"][:600].replace("\n", "\n  "))
    wall = time.time() - t0
    write_evidence(pid, cfg, tier, seed, wall, len(real), meta, thm, results, sorted(printed_known))
    print("check %s tier=%s seed=%d: %s (%d evaluations, %d theorems, %.1fs)" % (
        pid, tier, seed, "VIOLATIONS=%d" % len(seen) if real else "ok",
        (meta or {}).get("evaluations", 0), len(thm.get("theorems", [])), wall))
    return 1 if real else 0


def write_evidence(pid, cfg, tier, seed, wall, nviol, meta, thm, results, known_hit):
    meta = meta or {}
    nshards_ok = len([r for r in results if r["pairs"] is not None])
    obligations = len(thm.get("theorems", [])) + len(results)
    discharged = (len(thm.get("theorems", [])) if thm.get("ok") else 0) + nshards_ok
    trusted = list(cfg.get("trusted", []))
    if thm.get("axioms"):
        trusted.append("axioms reported by Print Assumptions under the theorems of %s: %s" % (cfg["theorem_file"], ", ".join(thm["axioms"])))
    else:
        trusted.append("Print Assumptions under every theorem of %s: closed under the global context (%d blocks)" % (cfg["theorem_file"], thm.get("closed", 0)))
    if thm.get("coqchk"):
        trusted.append("coqchk -o on %s: %s; axioms of all loaded libraries: %s" % (cfg["theorem_file"], "ok" if thm["coqchk"]["ok"] else "FAILED", ", ".join(thm["coqchk"]["axioms"]) or "none"))
    ev = dict(
        property_id=pid, tier=tier, seed=seed, level="proof",
        coverage=dict(
            obligations=max(obligations, 1), discharged=max(discharged, 0) if obligations else 0,
            checker_cmd="make -C coq (coqc, full .vo build) ; coqc -Q coq Csvq coq/%s ; coqc gen/%s/cases_*.v (vm_compute correspondence)" % (cfg["theorem_file"], pid),
            trusted_base=trusted,
            theorems=thm.get("theorems", []),
            correspondence_shards=len(results), correspondence_shards_ok=nshards_ok,
            evaluations=meta.get("evaluations", 0), distinct_nontrivial=meta.get("distinct_nontrivial", 0),
            rule=meta.get("rule", ""), samples=meta.get("samples", [])[:6] or [thm.get("theorems", [])[:5]],
            distribution=meta.get("distribution", {}),
            known_findings_reproduced=known_hit,
            notes=meta.get("notes", []),
        ),
        assumptions=cfg.get("assumptions", []),
        wall_s=round(wall, 2), violations=nviol)
    os.makedirs(os.path.join(ROOT, "evidence"), exist_ok=True)
    json.dump(ev, open(os.path.join(ROOT, "evidence", pid + ".json"), "w", encoding="utf-8"), indent=1, ensure_ascii=False)
