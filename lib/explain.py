#!/usr/bin/env python3
"""explain.py PROPDIR SHARD ID... : print case + model expectation for debugging mismatches"""
import json, re, subprocess, sys, os
d, shard, ids = sys.argv[1], sys.argv[2], sys.argv[3:]
m = json.load(open(os.path.join(d, 'meta.json')))
s = open(os.path.join(d, shard)).read()
expfn = sys.argv and os.environ.get('EXPFN', 'expected_query')
lst = os.environ.get('CASES', 'qcases'); idf = os.environ.get('IDF', 'qid')
cond = ' || '.join('N.eqb (%s c) %s' % (idf, i) for i in ids)
s = re.sub(r"Definition M := .*", "Definition X := Eval vm_compute in (map %s (filter (fun c => %s) %s)).\nPrint X." % (expfn, cond, lst), s, flags=re.S)
open('/tmp/_x.v', 'w').write(s)
for i in ids:
    c = m['cases'][i]
    print('#', i, json.dumps(c, ensure_ascii=False)[:int(os.environ.get('W', '1500'))])
out = subprocess.run(['coqc', '-Q', '/verif/coq', 'Csvq', '/tmp/_x.v'], capture_output=True, text=True).stdout
out = re.sub(r"\{\|\s*raw := (\[[^\]]*\]);[^}]*\|\}", lambda m_: 'S' + ''.join(chr(int(x)) for x in re.findall(r'(\d+)%N', m_.group(1))).__repr__(), out, flags=re.S)
print(re.sub(r'\s+', ' ', out)[:int(os.environ.get('W', '1500')) * 2])
for f in ['/tmp/_x.v', '/tmp/_x.vo', '/tmp/_x.vok', '/tmp/_x.vos', '/tmp/_x.glob']:
    if os.path.exists(f): os.remove(f)
