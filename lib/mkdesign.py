#!/usr/bin/env python3
"""Regenerates the generated tables of DESIGN.md (between <!-- BEGIN:name --> / <!-- END:name --> markers):
defects (known_findings.json + /repo log), seeded (seeded/*/meta.json), regressions (seeded/regressions.json),
counts (evidence/*.json).  The prose is hand-written; only the tables are produced here."""
import glob, json, os, re, subprocess

ROOT = '/verif'


def defects():
    kf = json.load(open(os.path.join(ROOT, 'known_findings.json')))['findings']
    rows = ['| property | key | status | /repo commit | what fails (abridged) |', '|---|---|---|---|---|']
    for f in sorted(kf, key=lambda f: (f['property'], f['status'], f['key'])):
        w = f['what']
        w = re.sub(r'^fixed: property=C\d+ \w+ ', '', w)
        w = re.sub(r'^(new|NEW)[^:]*: ', '', w)
        w = w.replace('|', '\\|').replace('\n', ' ')
        if len(w) > 230:
            w = w[:227] + '...'
        rows.append('| %s | `%s` | %s | %s | %s |' % (f['property'], f['key'], f['status'], f.get('commit', ''), w))
    n_known = sum(1 for f in kf if f['status'] == 'known')
    n_fixed = sum(1 for f in kf if f['status'] == 'fixed')
    commits = sorted({f['commit'] for f in kf if f.get('commit')})
    head = '%d entries: %d `fixed` (by %d distinct "fix:" commits in /repo), %d `known`.\n\n' % (len(kf), n_fixed, len(commits), n_known)
    return head + '\n'.join(rows)


def seeded():
    rows = ['| change | what it does | needs | confirmed (suite green, demo fails only with it) | caught by (quick tier) | first report |', '|---|---|---|---|---|---|']
    for d in sorted(glob.glob(os.path.join(ROOT, 'seeded', 'C*-*'))):
        mp = os.path.join(d, 'meta.json')
        if not os.path.exists(mp):
            continue
        m = json.load(open(mp))
        title, needs = '', ''
        md = os.path.join(d, 'meta.md')
        if os.path.exists(md):
            txt = open(md).read()
            t = re.search(r'^#\s*(.+)$', txt, re.M)
            if t:
                title = t.group(1).strip()
            n = re.search(r'^##\s*What it needs[^\n]*\n(.+?)(?=\n## |\Z)', txt, re.S | re.M)
            if n:
                needs = ' '.join(n.group(1).split())[:200]
        title = re.sub(r'^(C\d+[- /]*(seeded change)?\s*[AB]?\s*[:\-—–]*\s*)', '', title, flags=re.I)
        title = re.sub(r'^Seeded change [AB]\s*[:\-—–]*\s*', '', title, flags=re.I)
        first = ''
        for p, c in (m.get('checks') or {}).items():
            ls = [l for l in c.get('lines', []) if l.startswith('  ')]
            if c.get('exit') == 1 and ls:
                first = ls[0].strip()[:160]
                break
        rows.append('| %s-%s | %s | %s | %s | %s | %s |' % (m['property'], m['name'], title.replace('|', '\\|')[:170], needs.replace('|', '\\|'),
                    'yes' if m.get('confirmed') else 'NO', ', '.join(m.get('detected_by') or []) or '**missed**', first.replace('|', '\\|')))
    return '\n'.join(rows)


def regressions():
    p = os.path.join(ROOT, 'seeded', 'regressions.json')
    if not os.path.exists(p):
        return '(not run yet)'
    rs = json.load(open(p))['regressions']
    rows = ['| reverted fix | findings it repaired | checks run | caught by | note |', '|---|---|---|---|---|']
    n = d = 0
    for r in rs:
        if r.get('reverted'):
            n += 1
            if set(r.get('detected_by', [])) == set(r['properties']):
                d += 1
        rows.append('| %s %s | %s | %s | %s | %s |' % (r['commit'], r['subject'].replace('|', '\\|')[:90], ', '.join('`%s`' % k for k in r['keys']), ', '.join(r['properties']),
                    ', '.join(r.get('detected_by', [])) or ('**missed**' if r.get('reverted') else '-'), r.get('note', '')[:120]))
    return '%d fix commits revert cleanly on their own; for %d of them every recorded property check reports the violation again.\n\n' % (n, d) + '\n'.join(rows)


def counts():
    rows = ['| id | theorems re-checked | evaluations (quick) | distinct non-trivial | wall s |', '|---|---|---|---|---|']
    for f in sorted(glob.glob(os.path.join(ROOT, 'evidence', 'C*.json'))):
        e = json.load(open(f))
        c = e['coverage']
        th = c.get('theorems')
        rows.append('| %s | %s | %s | %s | %s |' % (e['property_id'], len(th) if isinstance(th, list) else th, c.get('evaluations'), c.get('distinct_nontrivial'), e.get('wall_s')))
    return '\n'.join(rows)


def axioms():
    rows = ['| id | axioms / primitives Print Assumptions reports under the theorems of Properties/Cxx.v |', '|---|---|']
    for f in sorted(glob.glob(os.path.join(ROOT, 'evidence', 'C*.json'))):
        e = json.load(open(f))
        tb = e['coverage'].get('trusted_base') or []
        a = [t for t in tb if isinstance(t, str) and t.startswith('axioms reported by Print Assumptions')]
        txt = a[0].split(':', 1)[1].strip() if a else 'none (every theorem is closed under the global context)'
        rows.append('| %s | %s |' % (e['property_id'], txt))
    return '\n'.join(rows)


def main():
    p = os.path.join(ROOT, 'DESIGN.md')
    s = open(p).read()
    for name, fn in (('defects', defects), ('seeded', seeded), ('regressions', regressions), ('counts', counts), ('axioms', axioms)):
        pat = re.compile(r'(<!-- BEGIN:%s -->\n).*?(<!-- END:%s -->)' % (name, name), re.S)
        if pat.search(s):
            s = pat.sub(lambda m: m.group(1) + fn() + '\n' + m.group(2), s)
    open(p, 'w').write(s)


if __name__ == '__main__':
    main()
