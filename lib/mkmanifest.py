#!/usr/bin/env python3
"""regenerate /verif/MANIFEST.json from lib/props.py (run after editing props.py)"""
import json, os, sys
sys.path.insert(0, os.path.dirname(os.path.abspath(__file__)))
import props
ROOT = os.path.dirname(os.path.dirname(os.path.abspath(__file__)))
ALL = ["C%02d" % i for i in range(1, 21)]
checks = []
for pid in ALL:
    if pid not in props.PROPS:
        continue
    c = props.PROPS[pid]
    checks.append(dict(
        property_id=pid,
        quick_cmd="./check %s --tier quick" % pid,
        thorough_cmd="./check %s --tier thorough" % pid,
        evidence_file="evidence/%s.json" % pid,
        replay_cmd_template="./check %s --replay {path}" % pid,
        engine="coq-model+go-harness",
        level_claimed=dict(category="proof", text=c["level_text"], design_ref=c.get("design_ref", "DESIGN.md section 5")),
        level_note=c["level_note"],
        technique=c.get("technique", "Coq theorems on an executable Gallina model + vm_compute correspondence with the Go implementation"),
    ))
na = [dict(property_id=p, reason=props.NOT_YET.get(p, "check not built yet in this round (planned per DESIGN.md section 8)")) for p in ALL if p not in props.PROPS]
m = dict(
    version=1,
    setup_cmd="cd /verif && ./setup.sh",
    hooks=dict(guard="verif", enable="go build -tags verif (harness and csvq are built with the tag by ./check)",
               baseline_off_cmd="cd /repo && GOFLAGS=-mod=mod GOPROXY=off GOSUMDB=off GOTOOLCHAIN=local go test -vet=off -count=1 -json ./...",
               source_commits=props.HOOK_COMMITS, add_only=True),
    engines=[
        dict(name="coq-model", path="coq", serves_properties=sorted(props.PROPS), kind_free_text="hand-written executable Gallina model of the csvq core (Model/), lemmas (Proofs/), property theorems (Properties/), Coq-side correspondence checkers (Harness/); full .vo build with coq_makefile"),
        dict(name="go-harness", path="harness", serves_properties=sorted(props.PROPS), kind_free_text="Go module (replace csvq => /repo, -tags verif): generates cases from one seeded PRNG, runs the implementation, writes gen/Cxx/cases_*.v with the observed outputs for vm_compute"),
    ],
    checks=checks,
    notes="All checks: ./check Cxx --tier quick|thorough. Known genuine defects that are not repaired are listed in known_findings.json; repaired ones are 'fixed' entries there and 'fix:' commits in /repo.",
    not_applicable=na,
)
json.dump(m, open(os.path.join(ROOT, "MANIFEST.json"), "w"), indent=1)
print("MANIFEST.json: %d checks, %d not claimed" % (len(checks), len(na)))
