"""Per-property configuration of the driver: theorem file, meaning of the check kinds the Coq-side
harness reports, the snippet that prints the model's expectation for a failing case, trusted base."""

COMMON_TRUST = [
    "Coq 8.16.1 kernel and vm_compute (no native_compute); no axioms declared by this development (driver greps for Admitted/admit/Axiom/Parameter/Conjecture/unset checks on every run)",
    "the Go correspondence harness (generators, canonicalisation) in /verif/harness, built against /repo's working tree on every run",
]
FLOAT_TRUST = "primitive binary64 floats and 63-bit integers of Coq (Coq.Floats.PrimFloat, FloatAxioms: eqb_spec, ltb_spec ... relate them to SpecFloat) - listed by Print Assumptions as primitives/axioms of the standard library"
ORACLE_TRUST = "string oracles carried by every text value: strconv.ParseFloat, strings.ToUpper (Go standard library) and csvq's own datetime recognition value.StrToTime are modelled as data, not verified; option.TrimSpace, strconv.ParseInt and strconv.ParseBool are modelled in Coq and compared on every string (check kind oracle-wf)"

PROPS = {}

PROPS["C06"] = dict(
    theorem_file="Properties/C06.v",
    kinds={
        1: ("pair-mismatch", "value.Compare / query.Calculate disagree with the documented ladder (Model.Compare.compare_op, Model.Arith.calculate)", True),
        2: ("comparison-law", "the implementation's own answers break a consistency law (a<b iff b>a, a<>b iff NOT a=b, = symmetric, <= iff < OR = on ordered operands)", True),
        3: ("arithmetic-law", "the implementation's arithmetic result breaks the typing law (NULL iff non-numeric, integer iff both integers) or the sign/magnitude law of %", True),
        4: ("oracle-wf", "option.TrimSpace / ParseInt / ParseBool as observed differ from the modelled parsers (Model.Conv)", True),
        5: ("expr-mismatch", "parser.Parse + query.Evaluate disagree with Model.Expr.eval on an expression", True),
    },
    expected=lambda kind, cid: ("Eval vm_compute in (map expected_expr (filter (fun c => N.eqb (eid c) %d) ecases))." % cid) if kind == 5
        else ("Eval vm_compute in (map expected_pair (filter (fun c => N.eqb (pid c) %d) pcases))." % cid),
    trusted=COMMON_TRUST + [FLOAT_TRUST, ORACLE_TRUST,
        "C06_float_and_integer_arithmetic_agree goes through Flocq's real-number proofs: axioms of the standard library's Reals (ClassicalDedekindReals.sig_forall_dec, sig_not_dec), Classical_Prop.classic, FunctionalExtensionality.functional_extensionality_dep and the FloatAxioms / Uint63 specification axioms, all listed by Print Assumptions",
        "modelled, not verified: Go's float64 arithmetic is IEEE-754 binary64 round-to-nearest-even for + - * / (no fused operations on amd64); float64(int64) rounds to nearest even; math.Mod is exact"],
    assumptions=["LIKE, row-value comparisons inside expressions, sub-queries and function calls are outside the modelled expression fragment (generated expressions never use them)"],
)

HOOK_COMMITS = []
NOT_YET = {}

PROPS["C06"].update(
    level_text="Proof: 30 Coq theorems/examples (Properties/C06.v) over ALL values of the seven classes state the consistency laws (a<b iff b>a, <> is NOT =, = symmetric, <= is < OR = exactly on ordered operands with bool/NaN counter-examples), NULL/incommensurable => UNKNOWN, Kleene AND/OR/NOT incl. the evaluator's short-circuits, the BETWEEN/IN/ANY/ALL/IS/CASE expansions, and the NULL/integer/float typing, division-by-zero and integer-% sign/magnitude laws of arithmetic, about an executable model of the coercion ladder, Calculate and the expression evaluator. The model is tied to the code by running value.Compare, query.Calculate and parser.Parse+query.Evaluate on boundary cross products and random operands/expressions and comparing every answer (float bits) with the model inside Coq; the laws are additionally evaluated on the implementation's own answers. Float/integer agreement of + - * is a theorem as well (C06_float_and_integer_arithmetic_agree: for |a|,|b|,|a op b| < 2^53 the float path on float64(a), float64(b) is finite with real value exactly a op b; binary64 through Flocq). Not proved (checked only by the correspondence, incl. the laws evaluated on observed answers): the same agreement and the sign/magnitude law for float %.",
    level_note="Trusted: Coq kernel + vm_compute; Coq's primitive floats and FloatAxioms; Go harness; string oracles (ParseFloat, ToUpper, csvq's StrToTime) carried as data; IEEE-754 behaviour of Go float64 on amd64. The expression fragment excludes LIKE, row values, sub-queries, functions.",
    design_ref="DESIGN.md section 5 (C06)",
)


# per-property modules lib/props_cXX.py may define PROP (a dict like the ones above) -- loaded here
import glob as _glob, importlib.util as _ilu, os as _os
for _p in sorted(_glob.glob(_os.path.join(_os.path.dirname(_os.path.abspath(__file__)), "props_c*.py"))):
    _spec = _ilu.spec_from_file_location(_os.path.basename(_p)[:-3], _p)
    _m = _ilu.module_from_spec(_spec)
    _spec.loader.exec_module(_m)
    PROPS[_m.PROP["id"]] = _m.PROP
    HOOK_COMMITS.extend(getattr(_m, "HOOK_COMMITS", []))

_QUERY_KINDS = {
    1: ("query-mismatch", "parser.Parse + query.Select returned a result that differs from Model.Query.eval_query (exact sequence, multiset for joins, or the ORDER BY checker: no inversion / sub-multiset / length / key classes)", True),
    4: ("oracle-wf", "option.TrimSpace / ParseInt / ParseBool as observed differ from the modelled parsers (Model.Conv)", True),
}
_QUERY_EXPECTED = lambda kind, cid: "Eval vm_compute in (map expected_query (filter (fun c => N.eqb (qid c) %d) qcases))." % cid
_QUERY_ASSUME = ["column names are resolved to positions by the harness (Header.FieldIndex is not modelled); HAVING and sub-queries inside expressions are outside the modelled fragment and never generated; LATERAL joins and recursive CTEs are modelled and generated for C03 only; NATURAL/USING are translated by the harness (C03 only)"]

PROPS["C03"] = dict(
    theorem_file="Properties/C03.v", kinds=_QUERY_KINDS, expected=_QUERY_EXPECTED,
    trusted=COMMON_TRUST + [FLOAT_TRUST, ORACLE_TRUST], assumptions=_QUERY_ASSUME,
    level_text="Proof: Coq theorems (Properties/C03.v) over ALL tables and conditions: WHERE returns exactly the order-preserving sublist of rows whose condition is TRUE (an evaluation error is an error of the whole clause, never a partial result); CROSS/INNER/LEFT/RIGHT/FULL joins of the model equal their list-comprehension definitions, with membership characterisations (pairs with a TRUE condition; each unmatched row exactly once, NULL-padded; nothing else) and compositionality over contiguous ranges of left rows (the goroutine split). The model (Model/Query.v: sources incl. derived tables, joins nested to any depth, WHERE, select list) is tied to the code by running generated queries through parser.Parse + query.Select at cpu 1 and 4 and comparing rows (sequence for single sources, multiset for joins) with eval_query inside Coq. Common table expressions (several references) are expanded to derived tables; USING and NATURAL joins are a derived form of the model (Model/Using.v src_using): the join on the equality of the named columns followed, row by row and in the join's order, by one merged column per name (the left operand's value - the right one's for RIGHT joins - or the other side's where that is NULL) and the remaining columns of both sides (C03_using_join_merges_the_named_columns_once); the harness computes only the column positions from the names. LATERAL joins and recursive common table expressions are part of the model (SrcLateral / SrcRec carry the derived table resp. the recursive term as a Gallina function of the left row resp. of the rows of the temporary view; the harness emits them as lambdas): C03_lateral_join_rows (the rows are, per left row and in order, the CROSS/INNER/LEFT join of that row alone with the derived table evaluated for it; iff), C03_lateral_without_reference_is_the_plain_join, C03_lateral_error_is_total, C03_lateral_right_full_rejected, C03_recursive_cte_rows (base rows followed by the chain of iterations up to the first empty one, combined by UNION ALL or UNION; iff, with the iteration limit), C03_recursive_cte_iterations_are_determined, C03_recursive_cte_limit_is_an_error, C03_recursive_union_keeps_one_row_per_key; both are generated (LATERAL with aggregates / LIMIT inside and joins, derived tables or CTEs on the left; recursive counters and key walks under --limit-recursion 3/5/8/1000) and compared like every other query. Correlated sub-queries inside expressions are stated through the LATERAL join: [NOT] EXISTS, x [NOT] IN (SELECT ..) in a WHERE clause and aggregate sub-queries in a select list are generated as SQL and handed to the model as the LATERAL join with a counting (resp. one-value) derived table joined on count > 0 / = 0 (C03_exists_and_in_subqueries_as_lateral_counts, C03_scalar_subquery_as_lateral_column say what that form yields; that it is what the SQL form means is the harness's translation). C03_lateral_join_membership gives the relational reading of INNER / LEFT JOIN LATERAL. Partial: name resolution is not modelled; ANY / ALL sub-queries, row-value sub-queries and sub-queries in other positions are covered by fixed scenarios only.",
    level_note="Trusted: Coq kernel + vm_compute; primitive floats; Go harness incl. its resolution of column names to positions; string oracles. Join results are compared as multisets (the property does not fix join order).",
    design_ref="DESIGN.md section 5 (C03)")

PROPS["C04"] = dict(
    theorem_file="Properties/C04.v",
    kinds={1: ("key-or-query-mismatch", "SerializeComparisonKeys / GROUP BY / DISTINCT / set operator / aggregate result differs from the model (Model.Key, Model.Query)", True),
           2: ("bucket-identity", "on the observed key strings two different tuples share a key or two equal tuples got different keys", True),
           4: ("oracle-wf", "string oracle inconsistent with the modelled parsers", True),
           5: ("bucket-members", "the rows listed by LISTAGG(rid) for the buckets of a GROUP BY query are not the model's buckets (Model.Query.bucket_idx): an aggregate was given other rows than those of its bucket", True)},
    expected=lambda kind, cid: ("Eval vm_compute in (map expected_members (filter (fun c => N.eqb (bid c) %d) bcases))." % cid) if cid >= 2000000 else ("Eval vm_compute in (map expected_keys (filter (fun c => N.eqb (kid c) %d) kcases))." % cid) if cid >= 1000000 else _QUERY_EXPECTED(kind, cid),
    trusted=COMMON_TRUST + [FLOAT_TRUST, ORACLE_TRUST, "strconv.FormatFloat(f,'f',-1,64) never emits ':' or '\\' and is injective on floats up to the identification of NaNs (hypothesis of C04_key_injective; the decimal text of every float met is carried as data and compared)"],
    assumptions=_QUERY_ASSUME + ["the arithmetic of MEDIAN, STDEV/VAR, LISTAGG, JSON_AGG and user-defined aggregates is not modelled: for them the members of every bucket are observed (LISTAGG of a row number) and compared with the model's buckets, and their values are compared with the same aggregate computed by the implementation over exactly those rows; COUNT/SUM/AVG/MIN/MAX [DISTINCT] and COUNT(*) are compared with the model's values"],
    level_text="Proof: Coq theorems (Properties/C04.v): the comparison-key codec (after the repair that escapes the separator) is injective on tuples of equal length - same key string iff equal normal forms column by column (decoder proof over all strings; the unrepaired codec is refuted by a witness); key equality is an equivalence; GROUP BY buckets are a partition of the rows with no empty bucket; two rows share a bucket iff their keys are equal; the groups handed to the aggregates partition the filtered rows; DISTINCT/UNION keep exactly one row per bucket; EXCEPT/INTERSECT [ALL] keep exactly the rows whose key is absent/present. Tied to the code (i) by calling query.SerializeComparisonKeys on adversarial tuples (separator, tags, cross-type equal values, NULL/UNKNOWN, strict-equal) and comparing every key string and the bucket identity, (ii) by GROUP BY/DISTINCT/set-operator/aggregate queries through parser+query.Select compared with the model. (iii) by observing the members of every bucket (LISTAGG of a row number, at cpu 1 and 4, tables up to 370 rows) and comparing them with Model.Query.bucket_idx inside Coq (C04_aggregates_get_the_rows_of_their_bucket: the rows handed to ANY aggregate are the rows at these positions), and by comparing MEDIAN, STDEV(P), VAR(P), JSON_AGG, LISTAGG, a user-defined aggregate and COUNT/SUM DISTINCT of every bucket with the same aggregate computed by the implementation over exactly those rows. Partial: the arithmetic of these latter aggregates is not modelled.",
    level_note="Trusted: Coq kernel + vm_compute; primitive floats (FloatAxioms); FormatFloat oracle; Go harness; string oracles.",
    design_ref="DESIGN.md section 5 (C04)")

PROPS["C07"] = dict(
    theorem_file="Properties/C07.v", kinds=_QUERY_KINDS, expected=_QUERY_EXPECTED,
    trusted=COMMON_TRUST + [FLOAT_TRUST, ORACLE_TRUST, "sort.Sort of the Go standard library sorts correctly for a strict weak order (the implementation's output is checked for inversions on every case, not assumed)"],
    assumptions=_QUERY_ASSUME + ["sort keys are columns holding mutually comparable values (the property's quantifier); under --strict-equal, texts differing only in case are generated never (sort_value_test.go pins Less = FALSE both ways for them, which is not an order; see DESIGN.md)", "float-to-text formatting is not modelled: ordering a non-text float against a text value is outside the fragment"],
    level_text="Proof: Coq theorems (Properties/C07.v): the reference sort is a permutation of its input for every comparator, and has no inversion wherever the comparator is a strict weak order on the keys at hand; OFFSET n is skipn (max 0 n) with the four frame equations; LIMIT n is firstn (max 0 n); WITH TIES adds exactly the maximal run of following rows whose keys are equivalent to the last kept row's; LIMIT 0 WITH TIES is empty; PERCENT above 100 keeps everything, below 0 nothing, and counts the pre-offset rows. The model (comparator of sort_value.go, LIMIT/OFFSET of view.go after four repairs) is tied to the code by ORDER BY/LIMIT/OFFSET queries whose output is checked in Coq: no inversion under the model comparator, sub-multiset of the input, the model's length, key classes equal position by position. SortValues.Less IS a strict weak order on comparable key columns - all-integer, all-datetime, all non-numeric text, and numeric columns mixing ANY integers with finite floats (the integer/float comparison is exact after the repair of int-float-beyond-2p53 and is proved to be the order of the real numbers, through Flocq) - with NULLs anywhere, for every list of directions and NULL positions, so ORDER BY over such keys leaves no inversion (hypotheses of the no-inversion theorem discharged). Not covered by a theorem: float keys that are NaN or infinite, boolean-like and mixed-class columns (outside the property's quantifier), and Go's sort.Sort itself.",
    level_note="Trusted: Coq kernel + vm_compute; primitive floats; Go harness; sort.Sort. Known outside-the-property observation: int/float comparison through float64 above 2^53 (F-C07-4) and strict-equal case variants are not generated.",
    design_ref="DESIGN.md section 5 (C07)")

PROPS["C05"] = dict(
    theorem_file="Properties/C05.v",
    needs_csvq=True,
    kinds={1: ("dml-mismatch", "after some statement of the history the reported count or the table (SELECT *) differs from Model.Dml.exec", True),
           2: ("dml-frame", "the implementation's own observations break the frame condition (a failed statement changed the table; INSERT/DELETE row counts do not move by the reported number; old rows not kept in place)", True),
           4: ("oracle-wf", "string oracle inconsistent with the modelled parsers", True),
           6: ("multi-table-mismatch", "after a multi-table DELETE / UPDATE the per-table counts or one of the two tables differ from Model.Dml.delete_join / update_join", True),
           7: ("multi-table-frame", "multi-table statement: the row count of a table does not drop by the number reported for it, rows appear that were not there, or a failed statement changed a table", True)},
    expected=lambda kind, cid: ("Eval vm_compute in (map expected_multi (filter (fun c => N.eqb (mid c) %d) mcases))." % cid) if cid >= 500000 else ("Eval vm_compute in (map expected_dml (filter (fun c => N.eqb (did c) %d) dcases))." % cid),
    trusted=COMMON_TRUST + [FLOAT_TRUST, ORACLE_TRUST],
    assumptions=_QUERY_ASSUME + ["multi-table forms are modelled for two inner-joined file tables (DELETE of either or both, UPDATE of the first); stdin tables are not covered", "column names are resolved to positions by the harness, which tracks ADD/DROP/RENAME"],
    level_text="Proof: Coq theorems (Properties/C05.v) over ALL tables and statements of the modelled single-table forms: INSERT appends exactly the given rows in order (listed columns get their value, the others NULL; old rows and width untouched; count = rows given); UPDATE keeps number and order of rows, leaves rows whose condition is not TRUE unchanged and, in matching rows, every column outside the SET list (count = matching rows); DELETE keeps exactly the non-matching rows in order (count = removed); REPLACE keeps every existing row in its place, changes it at most in the listed non-key columns, and appends the given rows that matched nothing in the order given; multi-table DELETE removes from each target table exactly the rows that take part in a joined row on which ON and WHERE are TRUE (a non-target table is untouched) and multi-table UPDATE keeps number and order of the target's rows and leaves rows that take part in no such joined row unchanged; ADD COLUMN / DROP COLUMN / RENAME leave the other cells and their order untouched; histories compose (fold) and a failing statement changes nothing. The model (Model/Dml.v incl. REPLACE after the repair of the map-order defect) is tied to the code by histories of 1-10 statements on file tables and temporary tables through parser.Parse + Processor.ExecuteStatement, comparing the reported count and SELECT * after every statement inside Coq. Multi-table DELETE / UPDATE over two joined tables are modelled (delete_join, update_join) and compared the same way, including per-file counts and the files after COMMIT. Multi-table DELETE over LEFT / RIGHT / FULL joins, where a joined row can lack the record of one table, is modelled on top of the C03 join over rows extended by their position (delete_join_k; C05_multi_table_delete_any_join: a row leaves a target table iff its position occurs in a joined row that ON and WHERE keep) and generated. Partial: which value a multi-table UPDATE writes is model + correspondence only.",
    level_note="Trusted: Coq kernel + vm_compute; primitive floats; Go harness incl. its tracking of column names; string oracles.",
    design_ref="DESIGN.md section 5 (C05)")

PROPS["C17"] = dict(
    theorem_file="Properties/C17.v",
    kinds={1: ("analytic-mismatch", "parser.Parse + query.Select returned rows (row ++ analytic value, as a multiset) that differ from Model.Analytic.analyze", True),
           2: ("last-value-frame", "LAST_VALUE with an explicit ROWS clause is not the last value of the row's frame", True),
           3: ("rows-or-columns-changed", "the other columns or the number of rows changed", True),
           4: ("oracle-wf", "string oracle inconsistent with the modelled parsers", True),
           5: ("outer-order-by", "the rows of a query with an analytic function are not sorted by the query's own ORDER BY", True)},
    expected=lambda kind, cid: "Eval vm_compute in (map expected_analytic (filter (fun c => N.eqb (aid c) %d) acases))." % cid,
    trusted=COMMON_TRUST + [FLOAT_TRUST, ORACLE_TRUST, "sort.Sort (the ORDER BY of the clause): order-sensitive functions are generated with a unique last key, the rank family with ties"],
    assumptions=_QUERY_ASSUME + ["LISTAGG / JSON_AGG / STDEV / VAR / MEDIAN / user aggregates with OVER are not modelled", "--strict-equal is generated only where no ORDER BY is involved (see C07)"],
    level_text="Proof: Coq theorems (Properties/C17.v) about the model of Analyze / WindowFrameSet and the analytic functions: rows and other columns are preserved (the output is a permutation of the input rows, each extended by one value); the values of a frame are exactly the partition members at positions max(low,0)..min(high,n-1) in order; ROW_NUMBER is 1..n; FIRST_VALUE / NTH_VALUE return the n-th (non-NULL under IGNORE NULLS) value of the frame or NULL; LAG returns the value offset rows back or the default; windowed aggregates are the aggregate of the frame's values; RANK = 1 + rows before the row's peer group and DENSE_RANK = number of the peer group, over groups of positive sizes that add up to the partition (the same groups CUME_DIST and PERCENT_RANK are computed from); NTILE(n) in closed form for every partition size and n >= 1: the first rows mod n tiles hold rows/n + 1 rows, the others rows/n, sizes adding up to the partition; LAST_VALUE equals the last value of the frame on symmetric frames and the statement for asymmetric frames is refuted (known finding F-C17-1). The model is tied to the code by one analytic function per query over tables with ties, NULLs, single-row and many partitions (200-400 rows with cpu 4), all ROWS frame shapes, compared per row (unique id column) inside Coq.",
    level_note="Trusted: Coq kernel + vm_compute; primitive floats; Go harness; sort.Sort. Partial: RANK / DENSE_RANK / CUME_DIST / PERCENT_RANK / NTILE are covered by model + correspondence, their closed forms are not proved.",
    design_ref="DESIGN.md section 5 (C17)")
