"""Per-property configuration of the driver: theorem file, meaning of the check kinds the Coq-side
harness reports, the snippet that prints the model's expectation for a failing case, trusted base."""

COMMON_TRUST = [
    "Coq 8.16.1 kernel and vm_compute (no native_compute); no axioms declared by this development (driver greps for Admitted/admit/Axiom/Parameter/Conjecture/unset checks on every run)",
    "the Go correspondence harness (generators, canonicalisation) in /verif/harness, built against /repo's working tree on every run",
]
FLOAT_TRUST = "primitive binary64 floats and 63-bit integers of Coq (Coq.Floats.PrimFloat, FloatAxioms: eqb_spec, ltb_spec ... relate them to SpecFloat) - listed by Print Assumptions as primitives/axioms of the standard library"
ORACLE_TRUST = "string oracles carried by every text value: strconv.ParseFloat, strings.ToUpper (Go standard library) and csvq's own datetime recognition value.StrToTime are modelled as data, not verified; option.TrimSpace, strconv.ParseInt and strconv.ParseBool are modelled in Coq and compared on every string (check kind oracle-wf)"

PROPS = {}

PROPS["C06"] = dict(
    theorem_file="Properties/C06.v",
    kinds={
        1: ("pair-mismatch", "value.Compare / query.Calculate disagree with the documented ladder (Model.Compare.compare_op, Model.Arith.calculate)", True),
        2: ("comparison-law", "the implementation's own answers break a consistency law (a<b iff b>a, a<>b iff NOT a=b, = symmetric, <= iff < OR = on ordered operands)", True),
        3: ("arithmetic-law", "the implementation's arithmetic result breaks the typing law (NULL iff non-numeric, integer iff both integers) or the sign/magnitude law of %", True),
        4: ("oracle-wf", "option.TrimSpace / ParseInt / ParseBool as observed differ from the modelled parsers (Model.Conv)", True),
        5: ("expr-mismatch", "parser.Parse + query.Evaluate disagree with Model.Expr.eval on an expression", True),
    },
    expected=lambda kind, cid: ("Eval vm_compute in (map expected_expr (filter (fun c => N.eqb (eid c) %d) ecases))." % cid) if kind == 5
        else ("Eval vm_compute in (map expected_pair (filter (fun c => N.eqb (pid c) %d) pcases))." % cid),
    trusted=COMMON_TRUST + [FLOAT_TRUST, ORACLE_TRUST,
        "modelled, not verified: Go's float64 arithmetic is IEEE-754 binary64 round-to-nearest-even for + - * / (no fused operations on amd64); float64(int64) rounds to nearest even; math.Mod is exact"],
    assumptions=["LIKE, row-value comparisons inside expressions, sub-queries and function calls are outside the modelled expression fragment (generated expressions never use them)"],
)

HOOK_COMMITS = []
NOT_YET = {}

PROPS["C06"].update(
    level_text="Proof: 29 Coq theorems/examples (Properties/C06.v) over ALL values of the seven classes state the consistency laws (a<b iff b>a, <> is NOT =, = symmetric, <= is < OR = exactly on ordered operands with bool/NaN counter-examples), NULL/incommensurable => UNKNOWN, Kleene AND/OR/NOT incl. the evaluator's short-circuits, the BETWEEN/IN/ANY/ALL/IS/CASE expansions, and the NULL/integer/float typing, division-by-zero and integer-% sign/magnitude laws of arithmetic, about an executable model of the coercion ladder, Calculate and the expression evaluator. The model is tied to the code by running value.Compare, query.Calculate and parser.Parse+query.Evaluate on boundary cross products and random operands/expressions and comparing every answer (float bits) with the model inside Coq; the laws are additionally evaluated on the implementation's own answers. Not proved (checked only by the correspondence): float/integer agreement of + - * % below 2^53 and the sign/magnitude of float %.",
    level_note="Trusted: Coq kernel + vm_compute; Coq's primitive floats and FloatAxioms; Go harness; string oracles (ParseFloat, ToUpper, csvq's StrToTime) carried as data; IEEE-754 behaviour of Go float64 on amd64. The expression fragment excludes LIKE, row values, sub-queries, functions.",
    design_ref="DESIGN.md section 5 (C06)",
)


# per-property modules lib/props_cXX.py may define PROP (a dict like the ones above) -- loaded here
import glob as _glob, importlib.util as _ilu, os as _os
for _p in sorted(_glob.glob(_os.path.join(_os.path.dirname(_os.path.abspath(__file__)), "props_c*.py"))):
    _spec = _ilu.spec_from_file_location(_os.path.basename(_p)[:-3], _p)
    _m = _ilu.module_from_spec(_spec)
    _spec.loader.exec_module(_m)
    PROPS[_m.PROP["id"]] = _m.PROP
    HOOK_COMMITS.extend(getattr(_m, "HOOK_COMMITS", []))
