from props import COMMON_TRUST, FLOAT_TRUST

TXN_TRUST = [
    "abstraction of statements: a data-changing statement enters the model as the effect 'the table now is t' with t = the table the implementation showed right after the statement (SELECT * through the same transaction); the relational meaning of DML is not part of this property (C05)",
    "the harness re-implements IF / WHILE unrolling for the library run (conditions are static / loop counters known); the real processor is exercised by the csvq binary run of the same procedure text",
    "strace -f -e inject=<syscall>:signal=SIGINT:when=N delivers the signal where it says; POSIX rename/unlink behave as documented (crash consistency of COMMIT itself is C10)",
    "cells are compared as csvq values (NULL / integer / text by raw text); " + FLOAT_TRUST + " (a table cell may be a float; the generated fragment has none)",
]

PROP = dict(
    id="C01",
    theorem_file="Properties/C01.v",
    kinds={
        1: ("model-mismatch-step", "stepping the transaction model (Model.Txn) through the library run: a read, the cache flags or the uncommitted maps disagree after some statement", True),
        2: ("model-mismatch-library-end", "files / rewritten files / temporary tables after the library run ended differ from Txn.run", True),
        3: ("model-mismatch-binary-end", "files / rewritten files / leftovers / exit status after the csvq binary ran the procedure differ from Txn.run", True),
        4: ("not-all-or-nothing", "the files the csvq binary left differ from TxnSpec.spec_disk (statements of the committed prefixes only), or a file no committed statement changed was rewritten, or a temporary table differs from its state at the last COMMIT", True),
        5: ("fragment", "an observed run is outside the modelled fragment (cell classes)", True),
        6: ("interrupt-not-atomic", "after SIGINT / cancellation the files are neither as at a COMMIT of the procedure nor fully committed (or exit status 0 without the full commit, or leftovers)", True),
        7: ("truncated-commit-on-interrupt", "after SIGINT / cancellation a COMMIT wrote table files cut down to their header", True),
        8: ("unmarked-change", "a statement that reported 0 affected rows changed its table (it would never be committed)", True),
    },
    expected=lambda kind, cid: ("Eval vm_compute in (map expected_c01sig (filter (fun c => N.eqb (sg_id c) %d) sigcases))." % cid) if kind in (6, 7)
        else ("Eval vm_compute in (map expected_c01 (filter (fun c => N.eqb (c1_id c) %d) cases))." % cid),
    trusted=COMMON_TRUST + TXN_TRUST,
    assumptions=[
        "generated fragment: CSV files with columns c1,c2,c3 (+ added columns), cells NULL / integers / non-empty texts; INSERT VALUES / INSERT SELECT / UPDATE / DELETE / REPLACE (one row per statement, because of the map-order finding of C05/C12) / ALTER ADD-DROP-RENAME / CREATE TABLE [AS SELECT] / DECLARE VIEW / SELECT [FOR UPDATE] / COMMIT / ROLLBACK; temporary tables declared at top level only; IF with static conditions, WHILE with counters, depth <= 2",
        "theorems assume ops_wf: a statement reporting 0 affected rows left its table unchanged (checked on every observed statement, kind 8)",
        "a signal that lands while a COMMIT is running may end fully committed or rolled back to the previous COMMIT (both accepted, all tables together; exit status 0 only in the former)",
    ],
    level_text="Proof: 9 Coq theorems + 4 examples (Properties/C01.v) about an executable model of the transaction layer (Model/Txn.v: table cache with ForUpdate / opened-for-create flags, UncommittedViews.Created/Updated, temporary tables with restore points, Commit / Rollback / ReleaseResources, end modes normal / error / EXIT / interrupt). For ALL statement histories, initial files, interleaved commits of other processes and end modes: the files after the run equal TxnSpec.spec_disk, an independently defined pending-writes machine that replays the statements of the committed prefixes only (C01_all_or_nothing, C01_abnormal_end_is_last_commit); a normal end leaves every table held for update on disk as the text of what the transaction last saw (C01_normal_end_last_seen); exactly the files changed by committed, marked statements are written (C01_written_iff, C01_untouched_files_not_written); temporary tables equal their state at the last COMMIT / declaration (C01_temps_restored); files created since the last COMMIT do not exist after an abnormal end (C01_created_since_commit_absent); invariant C01_dirty_tracked. Proved by a simulation relation (14 clauses) between cache model and specification, induction over histories. Refuted for the faithful model of a COMMIT that runs under a cancelled context (C01_interrupt_at_commit_refuted, a reproduced defect: truncated files are committed); C01_interrupt_partial keeps the statement for interrupts noticed before the COMMIT. The model is tied to the code on every run: generated procedures are executed statement by statement through the library (every statement's effect, cache flags and uncommitted maps compared) AND by the real csvq binary (directory contents after re-parsing, byte-identity of untouched files, leftovers, exit status compared with Txn.run and with spec_disk), with an error / EXIT / TRIGGER ERROR inserted at statement positions, SIGINT injected by strace at the N-th system call, and a context cancelled before the automatic COMMIT.",
    level_note="Trusted: Coq kernel + vm_compute; the Go harness (generator, IF/WHILE unrolling for the library run, directory observation); statements enter the model as observed effects (DML semantics is C05's business); strace signal injection; crash consistency of the file swap itself is C10. Fragment: CSV, NULL/integer/text cells, one-row REPLACE, temporary tables at top level.",
    technique="Coq theorems (simulation between cache model and pending-writes specification, induction over histories) + vm_compute correspondence with library runs and the real csvq binary (incl. strace SIGINT injection)",
    design_ref="DESIGN.md section 5 (C01)",
    needs_csvq=True,
)
