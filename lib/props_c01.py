from props import COMMON_TRUST
PROP = dict(
    id="C01",
    theorem_file="Properties/C01.v",
    kinds={
        1: ("model-mismatch-step", "stepping the transaction model (Model.Txn) through the library run: a read, the cache flags or the uncommitted maps disagree after some statement", True),
        2: ("model-mismatch-library-end", "files / rewritten files / temporary tables after the library run ended differ from Txn.run", True),
        3: ("model-mismatch-binary-end", "files / rewritten files / leftovers / exit status after the csvq binary ran the procedure differ from Txn.run", True),
        4: ("not-all-or-nothing", "the files the csvq binary left differ from TxnSpec.spec_disk (statements of the committed prefixes only), or a file no committed statement changed was rewritten, or a temporary table differs from its state at the last COMMIT", True),
        5: ("fragment", "an observed run is outside the modelled fragment (cell classes)", True),
        6: ("interrupt-not-atomic", "after SIGINT / cancellation the files are neither as at a COMMIT of the procedure nor fully committed (or exit status 0 without the full commit, or leftovers)", True),
        7: ("truncated-commit-on-interrupt", "after SIGINT / cancellation a COMMIT wrote table files cut down to their header", True),
        8: ("unmarked-change", "a statement that reported 0 affected rows changed its table (it would never be committed)", True),
    },
    expected=lambda kind, cid: ("Eval vm_compute in (map expected_c01sig (filter (fun c => N.eqb (sg_id c) %d) sigcases))." % cid) if kind in (6, 7)
        else ("Eval vm_compute in (map expected_c01 (filter (fun c => N.eqb (c1_id c) %d) cases))." % cid),
    trusted=COMMON_TRUST,
    assumptions=[],
    level_text="", level_note="", technique="", needs_csvq=True,
)
