"""C02 -- what is written to a table file or result stream reads back as the same table
(plus the reader half of C19: loaded tables are rectangular)."""

_KINDS = {
    1: ("csv-write-mismatch", "query.EncodeView (+ the appended line break) writes other bytes than Model.Csv.csv_file (csvq's Quote decision / go-text csv.Writer)", True),
    2: ("csv-read-mismatch", "the CSV/TSV loader (go-text csv.Reader + loadViewFromCSVFile) returns another table / detected line break / EnclosedAll / error than Model.Csv.csv_load", True),
    3: ("roundtrip-broken", "a table that was written does not load back as the same table under the same settings (records, fields, header, cell texts; NULL = empty where the format has one spelling)", True),
    4: ("not-rectangular", "a loaded table has a record whose length differs from the header's", True),
    5: ("dialect-mismatch", "FileInfo.ExportOptions after a load differs from Model.Csv.export_options (delimiter, line break, header convention, enclose-all)", True),
    6: ("dialect-changed", "a written file is detected with another delimiter / line break / header convention than it was written with", True),
    7: ("ltsv-write-mismatch", "encodeLTSV / go-text ltsv.Writer writes other bytes (or refuses differently) than Model.Ltsv.ltsv_file", True),
    8: ("ltsv-read-mismatch", "the LTSV loader returns another table / line break / error than Model.Ltsv.ltsv_load", True),
    9: ("unspellable-written", "a value with TAB/CR/LF or a label outside [0-9A-Za-z_.-] was written as LTSV instead of being refused", True),
}


def _expected(kind, cid):
    base = cid % 1000000   # spec verdicts of tagged cases are reported under id + 1000000
    f = lambda lst, rec, idf: "map %s (filter (fun c => N.eqb (%s c) %d) %s)" % (rec, idf, base, lst)
    return "Eval vm_compute in (%s, %s, %s, %s, %s)." % (
        f("wcases", "expected_w", "wid"), f("rcases", "expected_r", "rid"), f("lwcases", "expected_lw", "lwid"),
        f("lrcases", "expected_lr", "lrid"), f("ecases", "expected_e", "eid"))


PROP = dict(
    id="C02",
    theorem_file="Properties/C02.v",
    kinds=_KINDS,
    expected=_expected,
    needs_csvq=True,
    harness_timeout={"quick": 600, "thorough": 2400},
    trusted=[
        "Coq 8.16.1 kernel and vm_compute (no native_compute); no axioms declared by this development (driver greps for Admitted/admit/Axiom/Parameter/Conjecture/unset checks on every run)",
        "the Go correspondence harness (generators, routing of cases to the tagged streams by a syntactic test, the strict parser of the CSV --enclose-all observation channel) in /verif/harness, built against /repo's working tree on every run",
        "modelled, not verified: character-set transcoding (golang.org/x/text; the models work on decoded code points, UTF-8 only in the direct tie; SJIS/UTF-16 are exercised end to end only), unicode.IsLetter (carried per case as the list of letters occurring in it; the theorems quantify over every such predicate), bufio.Reader.UnreadRune refusing to unread after a failed ReadRune (Go standard library behaviour the model mirrors: CR directly before EOF is an error), integer/float/boolean/datetime rendering (cells carry the rendered text), JSON/JSON Lines/fixed-length codecs (go-text json, jsonl, fixedlen: compared end to end only, no Coq model)",
        "the line break after the last record is appended by the callers of EncodeView (transaction.go: the file's own line break at COMMIT; processor.go: the session's for SELECT output; both through EncodeEndingLineBreak): the direct tie appends it in the harness, the end-to-end runs compare the binary's bytes (also with a committing process whose --line-break differs from the file's) with the models'",
    ],
    assumptions=[
        "delimiter is not the double quote, CR or LF (delim_ok); U+FEFF at the start of a file and NUL are outside the generated fragment (encoding detection)",
        "tables have at least one column and every record has the header's length (well_shaped: what a csvq view is)",
        "LTSV/JSON/JSON Lines cannot spell an empty record set (the header is lost) and CSV/TSV/fixed-length write nothing for it without header (DataEmpty): such tables are outside the round-trip statements; two LTSV columns with one label are outside as well",
        "fixed-length is compared with explicit delimiter positions on both sides; automatic positions (SPACES) are a heuristic on columns of blanks and are not compared",
    ],
    level_text="Proof: 18 Coq theorems + 5 examples (Properties/C02.v) about an executable model of go-text's CSV and LTSV writers/readers under csvq's encodeCSV/encodeLTSV and loadViewFromCSVFile/loadViewFromLTSVFile (Model/Csv.v, Model/Ltsv.v: left-to-right machines on code-point lists). For ALL tables, cell texts, delimiters, line breaks LF/CR/CRLF, enclose-all, without-header and with/without the appended line break: csv_roundtrip is REFUTED on the code as it is (CR/LF written bare; one-column tables with an empty cell; CR before EOF), proved under the hypothesis `spellable` (csv_roundtrip_partial: exact table + detected line break) and proved without any hypothesis on the texts for the repaired writer (csv_roundtrip_repaired; the harness detects which writer the tree has); csv_no_shift is refuted for both writers (single column) and proved for the repaired writer with >= 2 columns, plus prefix stability for the code as it is (damage never travels backwards); csv_load_rectangular and ltsv_load_rectangular hold for EVERY input text and option vector; dialect_preserved is proved for the code as it is (COMMIT appends the file's own line break, ec68d2d) whenever the re-written file shows a line break or the session's default is the file's, and refuted for the earlier behaviour (the session's line break appended); ltsv_roundtrip is refuted (colons dropped; one-column tables) and proved for >= 2 distinct labels and colon-free values; ltsv_refuses (TAB/CR/LF in a value or a bad label => error, no bytes). The models are tied to the code on every run: EncodeView bytes and loader results (table, detected line break, EnclosedAll, ExportOptions) are compared with the models inside Coq on generated tables and on arbitrary/mutated texts; the six formats x line breaks x enclose-all/without-header/strip-ending-line-break are additionally run end to end with the binary (--out, stdout, INSERT+COMMIT; fresh-process re-import) and compared cell by cell by a decidable same-table checker. Encoding preservation (BOM, byte order, encoding after UPDATE/INSERT+COMMIT, and the encoding SHOW FIELDS reports) is checked on the bytes for all 18 encoding-sniffing paths x CSV/TSV/LTSV/FIXED with encoders/decoders of the harness's own. JSON, JSON Lines, fixed-length and the non-UTF-8 encodings have no Coq model (end to end only).",
    level_note="Trusted: Coq kernel + vm_compute; Go harness; transcoding, unicode.IsLetter and bufio.UnreadRune behaviour as data/assumptions; JSON/JSONL/FIXED codecs unmodelled. Fragment: delimiter not in {double quote, CR, LF}; no U+FEFF/NUL; FIXED with explicit positions.",
    design_ref="DESIGN.md section 5 (C02, C19 csv_load_rectangular), section 6 F-C02-1..5",
    technique="Coq theorems on executable codec models (reader/writer state machines) + vm_compute correspondence with query.EncodeView / the loaders + end-to-end runs of the binary",
)
