from props import COMMON_TRUST
PROP = dict(
    id="C08",
    theorem_file="Properties/C08.v",
    kinds={
        1: ("model-mismatch", "the transaction model (Model.Txn: cache, uncommitted maps, restore points) disagrees with a table read / the transaction's maps / the directory observed on the implementation", True),
        2: ("failed-statement-changed-a-table", "a table read after a statement that returned an error differs from the same table read before it", True),
        3: ("fragment", "an observed run is outside the modelled fragment (cell classes) or a statement reporting 0 affected rows changed its table", True),
        4: ("commit-wrote-other-than-last-seen", "a file found after COMMIT differs from the text of the table the transaction last read", True),
    },
    expected=lambda kind, cid: "Eval vm_compute in (map expected_c08 (filter (fun c => N.eqb (c8_id c) %d) cases))." % cid,
    trusted=COMMON_TRUST,
    assumptions=[],
    level_text="", level_note="", technique="", needs_csvq=False,
)
