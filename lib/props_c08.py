from props import COMMON_TRUST, FLOAT_TRUST

PROP = dict(
    id="C08",
    theorem_file="Properties/C08.v",
    kinds={
        1: ("model-mismatch", "the transaction model (Model.Txn: cache, uncommitted maps, restore points) disagrees with a table read / the transaction's maps / the directory observed on the implementation", True),
        2: ("failed-statement-changed-a-table", "a table read after a statement that returned an error differs from the same table read before it", True),
        3: ("fragment", "an observed run is outside the modelled fragment (cell classes) or a statement reporting 0 affected rows changed its table", True),
        4: ("commit-wrote-other-than-last-seen", "a file found after COMMIT differs from the text of the table the transaction last read", True),
    },
    expected=lambda kind, cid: "Eval vm_compute in (map expected_c08 (filter (fun c => N.eqb (c8_id c) %d) cases))." % cid,
    trusted=COMMON_TRUST + [
        "the Go aliasing that Model/CopyPublish.v abstracts (which slices share backing arrays) is tied to the code only by the fault matrix of the correspondence check, not by a proof about the Go code",
        "statements enter the transaction model as observed effects (changed table / error + tables loaded for update); which tables a failing statement loads before its error is stated by the harness per fault kind and cross-checked against Transaction.CachedViews after every step",
        "cells are compared as csvq values (NULL / integer / text by raw text); " + FLOAT_TRUST,
    ],
    assumptions=[
        "fault matrix, not all programs: 39 (statement kind, failure kind) pairs x failing row first/middle/last (every row for tables <= 8 rows in the thorough tier) x file / temporary table x 5 states before the statement; cancellation is injected by a timer (position not controlled) and compared in Go",
        "C08_failed_stmt_noop_partial assumes that no other process committed to a table this transaction loaded by a plain SELECT (otherwise the failing statement's load for update shows the new file: the documented exception of C20; C08_failed_stmt_noop_refuted)",
    ],
    level_text="Proof (partial, as planned): (1) Model/CopyPublish.v models the copy/publish discipline one level below the statement -- a heap of record arrays and cells, View.Copy = fresh record arrays + shared cells, the in-place and re-allocating writes of UPDATE / REPLACE / INSERT / DELETE / ALTER ADD / DROP as primitives, failure after any number of them, publication by swapping the map entry. Theorems for ALL heaps, view maps and primitive sequences: C08_copy_isolates (no write sequence on a copy, complete or cut short, changes what any published view dereferences to), C08_statement_spec (a failed statement publishes nothing and changes no view; a successful one changes only its own table; well-formedness is preserved, so it holds along any statement sequence), C08_copy_shows_original; an example shows that a copy sharing the record arrays leaks a failed UPDATE. (2) In the transaction model of C01 a failed statement is the effect SFail (tables loaded for update before the error): C08_failed_stmt_noop_partial (nothing visible, no file, no uncommitted set changes) for every state without foreign commits to plainly loaded tables (C08_fresh_without_foreign_commits: all histories without commits of other processes), C08_failed_stmt_noop_refuted (with a foreign commit the reload shows through -- C20's documented exception), C08_failed_stmt_not_committed (a later COMMIT writes exactly what it would have written without the failed statement; all histories). NOT proved: that the Go code implements the discipline (slice aliasing) -- this is checked by the correspondence: one interactive Transaction per case, fault matrix statement kind x failure kind x failing row x file/temporary x state before, every visible table read after every step and compared with the model and with its value before the failing statement, then COMMIT/ROLLBACK and the files re-read; cancellation is additionally injected at every single point: a context whose Err() answers nil n times and reports the cancellation from then on, for every n up to the first with which the statement completes, over statements that are the first to load their table (the load itself is cancelled) and two-table UPDATE / DELETE over files and temporary tables (cancelled between the storing of one table and the next), each followed by a later successful change, COMMIT and a re-read by a new session. Refused ALTER TABLE .. SET statements (16 of them on JSON, JSON Lines, CSV and LTSV tables) are followed by a change of format and COMMIT, and the files are compared byte for byte with those of the same session without the refused statement.",
    level_note="Trusted: Coq kernel + vm_compute; Go harness; the abstraction from Go slices to the heap model is validated only by the enumerated fault matrix (no proof about the Go code); cancellation position is not controlled.",
    technique="Coq theorems on a heap-level copy/publish model and on the transaction model + enumerated fault injection through the library compared inside Coq",
    design_ref="DESIGN.md section 5 (C08)",
    needs_csvq=False,
)
