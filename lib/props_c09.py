"""C09 -- Concurrent csvq processes never write a table together or lose an update."""

_COMMON = [
    "Coq 8.16.1 kernel and vm_compute (no native_compute); no axioms declared by this development (driver greps for Admitted/admit/Axiom/Parameter/Conjecture/unset checks on every run)",
    "the Go correspondence harness (yield-point scheduler, directory observation, attribution of control files to the process that ran when they appeared, state-graph exploration) in /verif/harness, built against /repo's working tree on every run",
]

PROP = dict(
    id="C09",
    theorem_file="Properties/C09.v",
    needs_csvq=True,
    kinds={
        1: ("schedule-mismatch", "after some event of a schedule of yield-point steps the real directory (lock / read-lock / temp files and their creators, the table's counter) or the point/outcome of a process differs from Model.Lock.step replaying the same schedule", True),
        2: ("exclusion-broken", "the implementation's own observed states break the property: two holders for update, a reader or read-lock file next to a holder for update, an updater starting while a read lock exists, a final counter different from initial + committed transactions, or control files left behind", True),
        3: ("soak-lost-update", "real processes: after N concurrent `UPDATE t SET n = n + 1` binaries the counter is not initial + number of processes that exited 0, or control files are left", True),
        4: ("soak-other-failure", "real processes: a process failed with something other than the lock timeout (exit 8) or the known 'file does not exist' window", True),
    },
    expected=lambda kind, cid: ("Eval vm_compute in (map expected_case (filter (fun c => N.eqb (cid c) %d) cases))." % cid) if kind in (1, 2) else "",
    trusted=_COMMON + [
        "the hook: lib/file yield points (verifPoint, build tag verif, add-only, no-ops unless a scheduler is installed) mark the file-system steps; a step that is not preceded by a yield point is executed together with its predecessor",
        "modelled, not verified: O_CREAT|O_EXCL creation is atomic and exclusive, os.Rename replaces atomically, os.Remove/os.Stat/filepath.Glob are atomic w.r.t. the other steps; the pre-check `LockExists || RLockExists` of TryCreateLockFile is one step; flock on the data file (second line of defence) is outside the model; the random read-lock suffix never collides",
        "in-process 'processes' are transactions with their own session and file.Container in one OS process (flock conflicts between their descriptors as between processes); real OS processes are only exercised by the soak",
    ],
    assumptions=[
        "one table per transaction; CREATE TABLE (NewHandlerForCreate) and multi-table transactions are outside the modelled fragment",
        "an elapsed wait timeout is injected only while a process is inside NewHandlerForRead/NewHandlerForUpdate (where lib/file itself notices it); when the deadline and the retry timer are ready at the same instant Go's select may take either -- such runs are detected and discarded",
    ],
    level_text="Proof: Coq theorems (Properties/C09.v) over an executable transition-system model of the lock-file protocol of lib/file and its use by lib/query (29 program counters; one transition per file-system step: SearchFilePath, Exists, LockExists/RLockExists, O_EXCL creation of ._T.lock / ._T.<rnd>.rlock / ._T.temp, re-check and back-off, retry loop with the wait timeout elapsing at an arbitrary moment and being noticed where the code looks, open+load after the lock, COMMIT = Rename over the table -- or Exists/Remove/Rename before fix 4dfbb28, both variants are in the model --, release = Exists+Remove) hold for ANY number of processes and ANY schedule, by induction with a 20-clause invariant: lock_inv, mutual_exclusion (a holder for update excludes every other updater and reader), no_writer_starts_during_read, serialised (commits form a chain read-previous/write+1, table = initial + number of commits, commit order = lock acquisition order, each committed process exactly once), committed_count, quiescent_clean, timeout_changes_nothing (no event of a process that ends without committing changes the table; it holds no control file), timeout_needs_expiry. 'Fails only with the lock timeout' (only_lock_timeouts_rename_over) is proved for the COMMIT that renames over the table (/repo since fix 4dfbb28; the harness detects which COMMIT the tree has from the yield points reached) and refuted with a witness schedule for the former remove-then-rename COMMIT ('file does not exist' inside the window), where the failing case is characterised exactly (only a step taken while another process is between Remove and Rename). Tie to the code: with the verif yield points 2-3 real transactions are driven on a scratch directory through schedules covering every enabled event of every reachable joint state (plus random interleavings of up to 5 processes in the thorough tier); after every event control files + creators, counter, parked yield point and outcome are compared with the model inside Coq; real-process soak with the csvq binary.",
    level_note="Trusted: Coq kernel + vm_compute; the Go scheduler/observer harness; atomicity of single file-system calls (O_EXCL create, rename, unlink, stat, glob); yield points mark the steps. flock (second line of defence) and OS process scheduling are outside the model; real processes only in the soak. One table per transaction; CREATE TABLE not modelled.",
    technique="Coq theorems on an executable model + vm_compute correspondence with the Go implementation",
    design_ref="DESIGN.md section 5 (C09)",
)

HOOK_COMMITS = ["f46c903"]
