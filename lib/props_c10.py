"""C10 -- A crash at any instant of COMMIT leaves each existing table complete: old or new."""

_COMMON = [
    "Coq 8.16.1 kernel and vm_compute (no native_compute); no axioms declared by this development (driver greps for Admitted/admit/Axiom/Parameter/Conjecture/unset checks on every run)",
    "the Go correspondence harness (generators, strace output parser, directory snapshots) in /verif/harness, built against /repo's working tree on every run",
]

PROP = dict(
    id="C10",
    theorem_file="Properties/C10.v",
    needs_csvq=True,
    kinds={
        1: ("trace-mismatch", "the mutating system calls the real binary issued on the repository (strace) are not the op list of Model/Commit.v (commit_ops), or not a prefix of it after SIGKILL", False),
        2: ("old-or-new-violated", "after SIGKILL during COMMIT a table that existed before is neither complete-old nor complete-new (decidable checker Commit.old_or_new on the directory found), outside the known remove->rename window", True),
        3: ("state-mismatch", "the directory found after the run differs from the model's file-system state after the same calls (Fs.run)", False),
        5: ("not-recoverable", "every pre-existing table is complete (old or new) after the kill, yet with the hidden control files deleted csvq cannot SELECT from one of them", True),
        4: ("hypothesis-failed", "the state COMMIT started from does not satisfy commit_ready, or a call of the model's list is not enabled (harness/model error)", False),
        6: ("remove-rename-window", "killed between unlinkat(table) and renameat(temp, table): the table file does not exist, its complete new contents are only in the hidden temp file", True),
    },
    expected=lambda kind, cid: None if kind == 6 else "Eval vm_compute in (map expected_c10 (filter (fun c => N.eqb (cid c) %d || N.eqb (cwin c) %d) cases))." % (cid, cid),
    trusted=_COMMON + [
        "strace 6.1 reports every system call of the traced process tree in order, and inject=...:signal=SIGKILL:when=N kills the process before the call executes",
        "modelled, not verified: POSIX semantics of openat(O_CREAT|O_EXCL), ftruncate, write, unlinkat and the atomicity of renameat (Model/Fs.v step); bytes reach the file in write order (no power-loss reordering: the property is about process death, not about fsync)",
        "the encoded records of each table are taken from the undisturbed run (what the encoder writes is C02/C05's business); the line break that ends the file is NOT: the harness expects the file's own line break for an updated table and the session's --line-break for a created one",
    ],
    assumptions=[
        "crash = death of the csvq process between two system calls (SIGKILL); the operating system and the disk survive",
        "no other process touches the repository during the transaction",
        "table files are CSV files with fewer than 4096 bytes (one write call for the body, one for the final line break)",
    ],
    level_text="Proof: Coq theorems (Properties/C10.v) over ALL sets of created/updated/idle tables, ALL contents and ALL crash points k about the op-list model of Transaction.Commit/Handler.commit (Model/Commit.v, parameter rename_over): crash_old_or_new is REFUTED for the list the tree issues today (remove, then rename: C10_crash_old_or_new_refuted, witness = kill between unlinkat and renameat) with the strongest true statement C10_crash_old_or_new_partial (old, new, or missing with the complete new contents in the temp file), and PROVED for the repaired list that renames over the file (C10_crash_old_or_new_repaired); likewise recoverable (refuted/partial/repaired), plus unwritten tables byte-identical at every crash point, files of tables outside the transaction untouched, and the complete commit. The model is tied to the code on every run by strace: the trace of the real binary must equal commit_ops (which variant is detected from the trace), and for SIGKILL before every system call the directory found must equal run s0 (firstn k ops) and is judged by the decidable checker old_or_new (proved equivalent to the Prop). Outside the op-list model (which knows small CSV tables): large tables in CSV/TSV/LTSV/JSON Lines/JSON/fixed-length format are committed while SIGTERM/SIGINT/SIGQUIT (cancellation noticed by the encoders) or SIGKILL is injected at write/ftruncate/renameat/close calls; each table must be byte-identical to its complete old or complete new contents and readable by a fresh csvq with the right record count (model-free direct check).",
    level_note="Trusted: Coq kernel + vm_compute; strace and its SIGKILL injection; the Go harness (trace parser, snapshots); POSIX semantics of the six calls incl. atomic rename. New table contents come from the undisturbed run. The theorems' op list describes CSV tables under 4 KiB; other formats and multi-write tables are covered by the model-free byte comparison only. Not covered: power loss / fsync ordering, concurrent processes (C09).",
    technique="Coq theorems on an executable op-list model of COMMIT (prefix = crash) + strace correspondence with the real binary incl. SIGKILL injection before every system call",
    design_ref="DESIGN.md section 5 (C10)",
)
