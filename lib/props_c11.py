"""C11 -- No surviving run leaves lock/temp/half-created files; reads modify nothing."""

_COMMON = [
    "Coq 8.16.1 kernel and vm_compute (no native_compute); no axioms declared by this development (driver greps for Admitted/admit/Axiom/Parameter/Conjecture/unset checks on every run)",
    "the Go correspondence harness (generators, translation of programs to model actions, strace output parser, directory snapshots) in /verif/harness, built against /repo's working tree on every run",
]

PROP = dict(
    id="C11",
    theorem_file="Properties/C11.v",
    needs_csvq=True,
    kinds={
        1: ("trace-mismatch", "no run of the life-cycle model (Model/Cleanup.v run_process; for signalled runs: cancelled at any step) issues the mutating system calls the real binary issued on the repository (strace)", False),
        2: ("state-mismatch", "the directory found after the process ended differs from the model's final directory for the run with the same trace", False),
        3: ("leftover", "after the process ended the repository contains a control file that was not there before (lock / rlock / temp), lost a competing holder's control file, or contains a table created by a transaction that did not commit (decidable spec Cleanup.no_leftovers on the directory found)", True),
        4: ("read-only-mutation", "a program consisting of reading statements issued a call that can change a data file, or a data file's bytes or mtime changed", True),
    },
    expected=lambda kind, cid: "Eval vm_compute in (map expected_c11 (filter (fun c => N.eqb (qid c) %d) cases))." % cid,
    trusted=_COMMON + [
        "strace 6.1 reports every system call of the traced process tree in order, and inject=...:signal=SIG:when=N delivers the signal at that call",
        "modelled, not verified: POSIX semantics of openat(O_CREAT|O_EXCL), ftruncate, write, unlinkat, renameat (Model/Fs.v step); closing and removing a file the process itself holds never fails",
        "payloads of COMMIT's write calls in the model's expected trace are taken from the observed trace (file contents are C02/C05/C10's business); everything else of the expected trace comes from the program text",
        "cancellation is modelled at the points where the code checks its context (statement boundaries, lock / temp-file acquisition, opening, loading, each EncodeView of COMMIT); that a signal is only ever observed at such a point is validated by the signal-injection runs, not proved",
    ],
    assumptions=[
        "termination other than by an uncatchable kill (SIGKILL, power loss): those are C10",
        "competing holders' control files do not change while the run is in progress (dynamic competition is C09)",
        "renaming, closing and removing a file the process itself holds succeeds (a failing renameat is only judged by model-free checks, failing close/unlinkat are not injected)",
        "single-table statements; a table is read or written by at most one statement kind at a time (no INSERT ... SELECT from another table, no joins) in the generated programs",
        "the interactive shell is not covered (non-interactive runs: the first failing statement ends the program)",
    ],
    level_text="Proof: Coq theorems (Properties/C11.v) about a state-machine model of the handler life cycle (Model/Cleanup.v: NewHandlerForRead/Update/Create with every failure point, Handler.close / closeWithErrors, FileContainer bookkeeping, Transaction.Commit/Rollback/ReleaseResources, the deferred rollback + forced release of commandAction), for ALL initial directories incl. competing holders' files, ALL programs, ALL failure points (error, EXIT, timeout, cancellation, also inside COMMIT) and ALL map orders: C11_tracked / C11_handler_invariant (every file the run made and has not committed is referenced by a live handler), C11_cleanup_complete (after the deferred release the container is empty, every control-file path is bound exactly as before the run, every table file is as before unless a completed COMMIT wrote it), C11_read_only_untouched (reading programs issue no call that can change a data file and leave the directory as it was). Tied to the code on every run by strace: for success, syntax error, missing table, division by zero inside SELECT/UPDATE/CREATE TABLE AS SELECT, duplicate CREATE, EXIT, wait timeouts against hand-made .lock/.rlock/.temp files, SIGINT/SIGTERM/SIGQUIT injected at system call N, table names so long that the names of their control files do not fit (the retry loop of the read lock: .lock made, .rlock refused, .lock removed, until the timeout = action ARetryRead), and single system calls made to FAIL by strace (every repository openat, write, ftruncate once and from then on, with ENOSPC/EACCES/EIO/ENAMETOOLONG), programs delivered on the command line, through --source FILE and through a ./csvqrc preload file, and table names that differ only in case (FileContainer keys are upper-cased paths), the trace of the real binary must equal the model's trace (signalled runs: the model cancelled at some step) and the directory found must equal the model's; the decidable spec (no new control file, no uncommitted created table, data bytes+mtimes unchanged for read-only programs) is evaluated on the directory found.",
    level_note="Trusted: Coq kernel + vm_compute; strace and its signal injection; the Go harness (program-to-action translation, trace parser, snapshots); POSIX semantics of the six calls; close/remove of own files never fails. That cancellation is only observed at the modelled points is validated by the injection runs, not proved. Failing openat/write/ftruncate calls are covered by the model (failure at any step); a failing renameat or flock is outside the model and judged by model-free checks only (no control file left, every table complete old or new, no internal failure). Not covered: interactive shell, multi-table statements, failures of close/unlink themselves, dynamic competitors (C09), kills (C10).",
    technique="Coq invariant proof on an executable state-machine model of the file-handler life cycle + strace correspondence (traces and final directories, error/timeout/signal injection) with the real binary",
    design_ref="DESIGN.md section 5 (C11)",
)
