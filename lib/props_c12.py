"""C12 -- results are a function of the inputs: independent of --cpu, scheduling and run."""

_COMMON = [
    "Coq 8.16.1 kernel and vm_compute (no native_compute); no axioms declared by this development (driver greps for Admitted/admit/Axiom/Parameter/Conjecture/unset checks on every run)",
    "the Go correspondence harness (generators, comparison of stdout/files across runs) in /verif/harness, built against /repo's working tree on every run",
]

_EXPECT = {
    1: "expected_range", 2: "expected_range",
    3: "expected_assign", 4: "expected_assign",
    5: "expected_life", 6: "expected_life",
    7: "expected_minreq",
}
_LIST = {1: ("rcases", "rid"), 2: ("rcases", "rid"), 3: ("acases", "aid"), 4: ("acases", "aid"),
         5: ("lcases", "lid"), 6: ("lcases", "lid"), 7: ("mcases", "mid")}


def _expected(kind, cid):
    lst, idf = _LIST[kind]
    return "Eval vm_compute in (map %s (filter (fun c => N.eqb (%s c) %d) %s))." % (_EXPECT[kind], idf, cid, lst)


PROP = dict(
    id="C12",
    theorem_file="Properties/C12.v",
    needs_csvq=True,
    kinds={
        1: ("record-range-mismatch", "GoroutineTaskManager.RecordRange differs from Model.Par.record_range (the ranges C12_ranges_partition is about)", True),
        2: ("ranges-not-a-partition", "the ranges returned by RecordRange for Number goroutines are not a partition of [0,recordLen) in goroutine order (decidable form of C12_ranges_partition on the implementation's own answers)", True),
        3: ("assign-number-mismatch", "GoroutineManager.AssignRoutineNumber differs from Model.Par.assign_number", True),
        4: ("assign-number-bounds", "the observed goroutine number breaks 1 <= n <= cpu, n <= max 1 (len/min) or the shared counter did not move by n-1 (C12_number_bounds)", True),
        5: ("task-manager-life-cycle-mismatch", "NewGoroutineTaskManager + Done on the package-level manager differ from assign_number/finish", True),
        6: ("shared-counter-not-restored", "after all goroutines of a task manager called Done the shared counter is not back at its old value (C12_count_restored)", True),
        7: ("calc-minimum-required-mismatch", "CalcMinimumRequired differs from Model.Par.calc_minimum_required", True),
    },
    expected=_expected,
    trusted=_COMMON + [
        "which merge pattern each call site uses (slots / worker-ordered lists / arrival order / map order) is read off the code by hand; it is tied only by the end-to-end runs of the binary (byte identity of stdout and files over --cpu 1,2,3,4,8,16 and repetitions), which explore the schedules the machine happens to produce",
        "math.Floor(float64(a)/float64(b)) and math.Ceil of such quotients are modelled by integer floor/ceiling division (exact below 2^53; record counts are slice lengths)",
    ],
    assumptions=[
        "programs do not call RAND/NOW-like functions and do not assign variables inside queries (the generator never emits them)",
        "1 <= cpu (option.Flags.SetCPU clamps --cpu into [1, NumCPU]); record counts are non-negative",
    ],
    level_text="Proof: Coq theorems (Properties/C12.v) over ALL record counts, ALL goroutine numbers and ALL schedules about an executable model of goroutine_manager.go: the index ranges handed to the n goroutines concatenate, in goroutine order, to exactly 0..len-1 (C12_ranges_partition; hence pairwise disjoint, ordered, each index owned by exactly one goroutine), 1 <= n <= cpu whatever the shared goroutine budget (C12_number_bounds) and the budget counter is restored (C12_count_restored); results written into index-addressed slots under ANY interleaving of the workers' writes, and per-worker lists concatenated in worker order, equal the one-goroutine map/filter/flat_map (C12_slots_eq_seq, C12_concat_eq_seq, C12_concat_slots_eq_seq), hence independence of --cpu (C12_cpu_independent). Refuted on the faithful model, with witnesses: GROUP BY appends group keys in arrival order (C12_arrival_merge_schedule_dependent_refuted, C12_group_order_cpu_dependent_refuted; partial: same groups, same members, only the order varies, sequential order with one goroutine; C12_group_keys_sorted_by_first_record proves that the repair proposed in hooks/fix_group_key_order.patch restores the sequential order). REPLACE (repaired in /repo by 0ce9e2a) now appends unmatched rows in index order (C12_replace_order); C12_map_order_dependent_refuted records why ranging over a map was wrong. Tie to the code: RecordRange / AssignRoutineNumber / CalcMinimumRequired / the Done life cycle are called directly on a grid (thorough: every recordLen in [0,3000] x Number in [1,32]) and compared with the model inside Coq; which pattern each call site uses is tied by running generated programs with the real binary under --cpu 1,2,3,4,8,16 and repetitions and comparing stdout, exit code and every written file byte for byte.",
    level_note="Trusted: Coq kernel + vm_compute; the Go harness; the hand reading of which merge pattern each call site uses (validated only by the end-to-end runs, which see the schedules the machine produces, not all of them); float floor/ceil of small quotients modelled by integer division.",
    technique="Coq theorems on an executable model + vm_compute correspondence with the Go implementation + end-to-end determinism runs of the binary",
    design_ref="DESIGN.md section 5 (C12)",
    harness_timeout={"quick": 600, "thorough": 3000},
)
