"""C13 -- parallel query evaluation and loading are free of data races."""

_COMMON = [
    "Coq 8.16.1 kernel and vm_compute (no native_compute); no axioms declared by this development (driver greps for Admitted/admit/Axiom/Parameter/Conjecture/unset checks on every run)",
    "the Go correspondence harness in /verif/harness (workloads, parsing of race-detector reports), built with -race against /repo's working tree on every run",
]


def _expected(kind, cid):
    return "Eval vm_compute in (expected_of sites %d%%N)." % cid


PROP = dict(
    id="C13",
    theorem_file="Properties/C13.v",
    needs_csvq=False,
    race=True,
    binary="harness_race",
    kinds={
        1: ("site-fact-base-changed", "a goroutine body of lib/query / lib/cli is new, or shares/assigns variables differently from what its access summary was written for (re-extracted fact base differs from Harness/H13.v expected_sites): the race-freedom theorem of that site no longer speaks about the code", False),
        2: ("site-disappeared", "a goroutine body the access summaries were written for is no longer found in the sources (Harness/H13.v expected_sites has an entry without counterpart)", False),
        3: ("site-not-covered", "an extracted goroutine body is neither accepted by the syntactic discipline (site_ok: every written path indexed by the own record index, by the goroutine number, or under one mutex) nor one of the hand-summarised sites: no theorem covers it", False),
    },
    expected=_expected,
    trusted=_COMMON + [
        "the translator (/verif/translator, go/ast without type information): soundness of its syntactic criteria - shared = declared outside the goroutine body (parameters/receiver for named functions), an index expression equal to the closure's int parameter / the RecordRange loop variable is the goroutine's own record index, Lock()..Unlock() regions, no aliasing between distinct access paths, paths indexed by the own index are slices not maps (maps are recognised only when declared in the same function), callee side effects other than the task-manager methods and captured closures are not followed",
        "the model of the Go memory model used in Model/Access.v: happens-before = program order + go statement + WaitGroup.Wait after Done + channel send/receive/close (+ capacity edge); critical sections of one mutex are ordered (lockset condition); sync.Pool, sync.Map and context are race free by themselves",
        "the Go race detector (dynamic; reports only races of schedules that actually happen; GORACE history_size=7)",
        "the hand-written summaries of the five exceptional sites (Model/ParSites.v) are read off the code by hand; their variables are pinned by the fact-base equality",
    ],
    assumptions=[
        "the task-manager template as it was shipped raced on the error slot as soon as a record raised an error (C13_task_manager_always_race_free_refuted is kept as the record of it); the code repaired by /repo f6b3a60 reads the slot under the mutex and is race free whatever the records do (C13_task_manager_locked_drf) - the fact base extracted from the current source must show the locked read",
        "the loaders as shipped raced on the progress counter pos (C13_loader_pos_race_refuted, kept as the record); the order of tests repaired by /repo d9a59ee is proved race free on scaled-down instances by computing happens-before (C13_loader_small_fixed_race_free) and, without pos, for every number of rows (C13_loader_partial); cancellation/panic paths of the loaders are only exercised by the race detector",
        "process-wide state reached from built-in functions (RAND generator, regular-expression / datetime-format caches) is not in the fact base: it is exercised by the race-detector workload \"functions\" only (found and repaired: race-rand, /repo 1c1468e)",
    ],
    level_text="Partial proof: Coq theorems (Properties/C13.v) about access summaries in a model of Go's happens-before (program order, go, WaitGroup.Wait, channels, mutex locksets): in a fork/join execution the races are exactly the conflicting pairs of two different workers (C13_fork_join_race_free / C13_fork_join_race); workers that split the records by RecordRange and whose accesses to different records never conflict are race free for EVERY record count and EVERY number of goroutines (C13_drf_by_ranges, from C12's ranges_partition; C13_own_index_discipline; C13_drf_mutex); the GoroutineTaskManager template is race free on error-free runs (C13_task_manager_drf); a decidable syntactic discipline on the extracted fact base implies race freedom (C13_discipline_sound) and every one of the 49 extracted goroutine bodies is covered by it or by a hand summary (C13_expected_sites_classified, C13_sites_drf, 14 named site_*_drf, site_cross_join_drf, site_analyze_partitions_drf, site_lateral_join_drf, C13_loader_partial). Refuted with witnesses: the unsynchronised read in HasError (C13_haserror_race for every site/size once a record fails; C13_task_manager_always_race_free_refuted), pos shared by the loader goroutines (C13_loader_pos_race_refuted, two rows suffice), signalReceived (C13_signal_race_refuted). For the repairs proposed in hooks/fix_*.patch the full statements are proved (C13_task_manager_locked_drf, C13_discipline_sound_locked, C13_signal_fixed_race_free; scaled-down loader instances decided by computing happens-before). A fourth race found by the detector runs - the field-index cache of outer records shared by the goroutines of a correlated subquery (crashes with concurrent map writes) - was repaired in /repo (d44f076); the model follows the repaired code (site_outer_cache_per_goroutine_drf) and C13_shared_outer_cache_race records why. Tie to the code: a go/ast translator re-extracts, on every run, for every go statement / Run closure / EvaluateSequentially closure / task-manager method the shared access paths that are assigned, how they are indexed and under which mutex; Coq checks (vm_compute) that this equals the fact base the summaries were written for; and a race-detector build of the harness drives every site (up to 20 000 rows, CPU 2-16, loads of 3000-record files, errors half-way, cancellation, a signal) and requires the reported racing pairs to be exactly the refuted sites.",
    level_note="Trusted: Coq kernel + vm_compute; the happens-before model (Go memory model is not itself formalised); the translator's syntactic criteria (no types, no alias analysis); the hand summaries of 5 exceptional sites; the race detector, which is dynamic and sees only schedules that occur. The theorems are about summaries, not about the Go code.",
    technique="Coq race-freedom theorems on access summaries + fact base regenerated from the Go AST and compared in Coq + Go race detector as correspondence",
    design_ref="DESIGN.md section 5 (C13)",
    harness_timeout={"quick": 900, "thorough": 3000},
)
