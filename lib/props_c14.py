"""C14 -- Evaluation never changes what it only reads: pooled values, shared syntax trees."""

_STATIC = "no concrete failing program was found by this run; the obligation regenerated from the current source is broken"
_DYN = "the differential runs of this same check exhibit a concrete failing program (see the accompanying violation)"

PROP = dict(
    id="C14",
    theorem_file="Properties/C14.v",
    needs_csvq=False,
    kinds={
        1: ("discard-site", "a value.Discard call site of the current source is not `a local defined only by fresh constructors (value.To*/value.New*), not stored/passed on/captured, not used after the call` and is not allowlisted with a justification: hypothesis forallb (site_holds ctors) sites of C14_discipline_sound fails; " + _STATIC, False),
        2: ("ast-write", "an assignment in lib/query writes through a slice, map or pointer reachable from a lib/parser value (storage shared with the stored program): hypothesis forallb awrite_ok awrites of C14_writes_sound / C14_ast_immutable fails; " + _STATIC, False),
        3: ("ctor-not-fresh", "a constructor value.New*/value.To* has a return path that is neither a pool object just obtained, nor another fresh constructor, nor a shared singleton (it may return its argument); " + _STATIC, False),
        4: ("cell-write", "a field of a pooled cell type is assigned outside the initialisation of an object just taken from the pool, or Discard puts an object into the wrong pool (the model's only cell writes are allocations); " + _STATIC, False),
        11: ("discard-site", "a value.Discard call site violates the discipline (see kind 1); " + _DYN, True),
        12: ("ast-write", "a write through the shared syntax tree (see kind 2); " + _DYN, True),
        13: ("ctor-not-fresh", "a constructor of lib/value may return a shared object (see kind 3); " + _DYN, True),
        14: ("cell-write", "a pooled cell is written outside allocation (see kind 4); " + _DYN, True),
        5: ("poison-differs", "the program's output with a poisoning Discard differs from its output with the pool active: something read an object after it was discarded (C14_policy_irrelevant says no two pool policies can be told apart)", True),
        6: ("poison-marker", "a poison marker (\\x00DISCARDED / MinInt64+1 / NaN payload) is visible in the output or in the syntax tree: a discarded object is still referenced", True),
        7: ("tree-changed", "the deep dump of the parsed statements differs before/after execution: evaluation edited the shared syntax tree (C14_ast_immutable's hypothesis is violated by the implementation)", True),
        8: ("second-evaluation-differs", "executing the SAME parsed tree a second time on a fresh transaction gives a different output", True),
        9: ("model-sanity", "the model's executable semantics no longer give the expected outputs on the demo program under the four sample policies (H14.demo_ok)", False),
    },
    expected=lambda kind, cid: (
        "Eval vm_compute in (map (fun s => (s_id s, s_shape s, s_defs s, (defs_fresh ctors s, s_escapes s, s_use_after s, s_allow s))) (filter (fun s => N.eqb (s_id s) %d) sites))." % cid if kind in (1, 11)
        else "Eval vm_compute in (filter (fun w => N.eqb (aw_id w) %d) awrites)." % cid if kind in (2, 12)
        else "Eval vm_compute in (filter (fun c => N.eqb (2000 + c_id c) %d) ctors)." % cid if kind in (3, 13)
        else "Eval vm_compute in (filter (fun w => N.eqb (cw_id w) %d) cwrites)." % cid if kind in (4, 14)
        else "Eval vm_compute in (map (fun c => (r_id c, run_kinds c)) (filter (fun c => N.eqb (r_id c) %d) rcases))." % cid if kind in (5, 6, 7, 8)
        else "Eval vm_compute in (demo_ok, map demo_outs [pol_lifo; pol_never; pol_gc; pol_fifo])."),
    trusted=[
        "Coq 8.16.1 kernel and vm_compute; no axioms declared by this development (driver greps on every run); Print Assumptions under every theorem of Properties/C14.v: closed under the global context",
        "/verif/translator (Go, standard library go/parser + go/types with the source importer): soundness of the extraction of the fact base from the source is TRUSTED, not proved -- that the per-site facts mean what `conforms` (Proofs/Pool.v) says about execution traces: fresh origin = last definition is an allocation, no escape = no pointer copy out of the variable, no use after = nothing after the call mentions it. The use-after analysis is a structured control-flow walk (following statements of every enclosing block, cut at return/panic, loops re-entered unless the variable is defined inside); goto/labels/select/fallthrough make a site unclassifiable",
        "the abstraction of lib/query's handling of value.Primary pointers by the machine of Model/Pool.v (allocation / pointer copy / observable read / discard; cells are written only by allocation -- re-checked syntactically on every run: cwrites), and that value.IsNull/IsTrue/IsFalse/IsUnknown and the value-receiver methods of the Primary types (Raw, String, Ternary, Format) do not retain their argument",
        "translator/allowlist_c14.json: two Discard sites the analysis cannot classify (SetEnvVar's conditional `defer value.Discard(p)`; the deferred closure over the local array `args` in loadView) are accepted on a written justification tied to their exact fact signature; any other unclassifiable site, or a change of these two, is a violation",
        "the Go correspondence harness (/verif/harness/c14*.go), built against /repo's working tree on every run; output equality is decided on 64-bit FNV-1a digests computed by the harness",
        "hooks/c14_poison_discard.patch (add-only, build tag verif, off unless CSVQ_VERIF_POISON=1): when it is not applied to /repo the poisoned pass is skipped (reported in the evidence notes) and only the static obligations, the tree-unchanged and the evaluate-twice checks decide",
    ],
    assumptions=[
        "append(x.Slice, ...) on a slice of a syntax-tree node and mutation through pointer-receiver methods are not in the write fact base (lib/parser has no pointer-receiver mutators other than ClearBaseExpr, which lib/query does not call on shared nodes)",
        "dynamic corpus: RAND is excluded (nondeterministic); whole-table programs that fail on some row are dropped when run with several workers (which row's error is reported first is not fixed); NOW()/UUID-like sources of nondeterminism are not generated",
        "the model pools every cell type alike (worst case); Boolean/Ternary/Null are shared singletons that Discard ignores",
    ],
    level_text="Proof + regenerated obligations + differential validation. (1) Coq theorems (Properties/C14.v, all closed under the global context) over a machine of pointer variables, heap cells and a sync.Pool with an ARBITRARY policy (which objects survive, which one Get returns, at every step): C14_pool_transparent / C14_policy_irrelevant -- on every disciplined instruction sequence the pooled run is stuck iff the pool-free run is, gives the same outputs and the same value for every live ref, for every policy (simulation proved by induction over the trace); C14_reads_see_initial -- at every prefix, every ref the program never assigns reads as initially; C14_discipline_sound / C14_facts_give_transparency -- if the Boolean check of the per-call-site fact base is true and every Discard of a trace comes from a listed site whose facts describe the trace, the trace is disciplined; C14_ast_immutable -- if no step assigns a ref of the syntax tree, evaluating the statement again (any pool content, any policy) gives the same outputs and leaves the tree as it was; refutations show both hypotheses are needed (premature discard; F-C14-1's overwrite of Args[0]). (2) On every run /verif/translator re-extracts from the CURRENT source every value.Discard call site (125 today), every constructor of lib/value with the kind of each return path, every write through a lib/parser value, every write to a pooled cell; Coq evaluates the theorem hypotheses on them (vm_compute). (3) Every generated program (all functions of query.Functions on literal / table-cell / variable operands, in WHILE loops, user-defined functions, prepared statements run twice; operators; GROUP BY / ORDER BY / analytic / DML / cursor / view statements over 240-row tables with 2-4 workers) is parsed once and its tree executed twice, with the pool active and with a poisoning Discard, requiring identical output, no poison marker, an unchanged deep dump of the tree and an identical second evaluation.",
    level_note="Partial: the theorems are about the pool model and the abstract machine; the step from the Go source to the fact base (translator) and from function bodies to machine traces is trusted, validated by the poisoned differential runs. Two call sites are accepted by written justification (allowlist). F-C14-1 (Analyze overwrote fn.Args[0] in the slice shared with the parsed statement) is repaired by a fix: commit; it reappears as an ast-write violation if it returns.",
    technique="Coq pool-transparency theorem (simulation of an arbitrary-policy sync.Pool heap by a pool-free value semantics, induction over traces) + per-call-site obligations regenerated from the current Go source by a go/types translator and checked in Coq by vm_compute (Discard sites, constructor freshness, writes through parser values, cell writes) + poisoned-Discard differential runs of the library (pool active vs. poisoned, first vs. second evaluation of one parsed tree, deep tree dump before/after)",
    design_ref="DESIGN.md section 5 (C14), section 6 (F-C14-1), section 2 (hooks)",
    harness_timeout={"quick": 900, "thorough": 3000},
)

# the hook is delivered as hooks/c14_poison_discard.patch; the lead records the /repo commit here once applied
HOOK_COMMITS = ["784706f"]
