"""C15 -- blocks and function calls give declarations a local lifetime and safe shadowing."""

_COMMON = [
    "Coq 8.16.1 kernel and vm_compute (no native_compute); no axioms declared by this development (driver greps for Admitted/admit/Axiom/Parameter/Conjecture/unset checks on every run)",
    "the Go correspondence harness (generators, canonicalisation) in /verif/harness, built against /repo's working tree on every run",
]

PROP = dict(
    id="C15",
    theorem_file="Properties/C15.v",
    needs_csvq=True,
    kinds={
        1: ("lib-mismatch", "parser.Parse + Processor.Execute on a generated procedure: PRINT lines (typed values), final flow or error class differ from Model.Proc.run_heap", True),
        2: ("bin-mismatch", "csvq -q -s on a generated procedure: PRINT lines or the exit status differ from the model (Model.Proc.exit_code)", True),
        3: ("grammar-context", "the parser accepts/rejects the placement of BREAK/CONTINUE/RETURN/EXIT differently from Model.Proc.wf_stmt (program / loop / function / function-loop contexts)", True),
        4: ("rows-mismatch", "user-defined functions invoked concurrently (SELECT f(c1) FROM big WHERE g(c1), >= 400 rows, cpu 4): per-row results differ from one model invocation per row", True),
        5: ("model-out-of-fuel", "the model ran out of fuel on a generated case (harness/model limit, not a violation)", False),
        6: ("machines-disagree", "the pooled-object machine and the stack machine of the model disagree, or the pool discipline is broken at the end of a run (model error; Proofs/ProcSim.v proves this cannot happen)", False),
    },
    expected=lambda kind, cid: (
        ("Eval vm_compute in (map expected_bin (filter (fun c => N.eqb (bid c) %d) bcases))." % cid) if kind == 2 else
        ("Eval vm_compute in (map expected_ctx (filter (fun c => N.eqb (wid c) %d) wcases))." % cid) if kind == 3 else
        ("Eval vm_compute in (map expected_rows (filter (fun c => N.eqb (qid c) %d) qcases))." % cid) if kind == 4 else
        ("Eval vm_compute in (map expected_lib (filter (fun c => N.eqb (lid c) %d) lcases))." % cid)),
    trusted=_COMMON + [
        "the harness's rendering of a generated procedure as SQL and as a Coq term (cross-checked on every case by translating csvq's parser AST back to the same term), and its reading of PRINT lines as integers / plain strings / ternaries / NULL",
        "modelled, not verified: sync.Pool hands out each pooled object at most once until it is put back (the model quantifies over which pooled object is chosen); strings.ToUpper on the ASCII names used by the generator; value comparison/arithmetic are the C06 models (Model.Compare, Model.Arith)",
        "Go's scheduling of the goroutines that evaluate a query's rows: the model gives every row its own invocation from the same calling scope; only functions that write nothing but their own parameters/locals are used there (for others csvq's result is scheduling-dependent by design)",
    ],
    assumptions=[
        "procedure fragment: VAR/DECLARE of one variable, :=, DISPOSE, PRINT, IF/ELSEIF/ELSE, CASE, WHILE, WHILE..IN (NEXT fetch, one column), BREAK, CONTINUE, RETURN, EXIT [n], scalar function declaration (defaults) / call / DISPOSE FUNCTION, cursors over literal rows (DECLARE/OPEN/CLOSE/FETCH/DISPOSE, IS OPEN, COUNT), temporary tables of one column (DECLARE/INSERT one value/DISPOSE, SELECT COUNT(*)); expressions: literals (non-negative integers, plain strings, ternaries, NULL), variables, :=, + - * / %, comparisons, AND/OR/NOT, calls",
        "outside the fragment (never generated): aggregate functions, EXECUTE/SOURCE (which can smuggle EXIT into a function), COMMIT/ROLLBACK inside procedures, float and datetime values, non-ASCII names, FETCH positions other than NEXT, prepared-statement cursors",
        "the csvq binary is run with standard input from /dev/null: with a pipe on stdin csvq reads FROM-less SELECTs (the generated cursor queries) from it",
    ],
    level_text="Proof: Coq theorems (Properties/C15.v) over ALL procedures, states and fuels about an executable Gallina interpreter that mirrors Processor/ReferenceScope/UserDefinedFunction (flow values, block stack innermost first, dynamic function scope, WHILE clearing its block every iteration) and runs on an abstract scope machine: (1) block_local - after IF/CASE/WHILE/WHILE IN and after every invocation the chain has the same length and no surviving block, the enclosing one included, has a name it did not have; an outer binding of @x is unchanged unless code that assigns/fetches/disposes @x runs, and an assignment goes to the innermost binding only; (2) shadow_preserves_outer - while the innermost block binds @x and nothing disposes @x, every outer binding keeps its value through any nesting, calls and recursion; re-declaration in a new block always succeeds for variables, cursors and functions (refuted for temporary tables: finding temp-table-no-shadow); (3) call_frame_fresh - every invocation starts in a new innermost block holding exactly its parameters on top of the caller's chain (dynamic scope as coded), on the pooled heap a non-live empty object, two live siblings of one parent are distinct objects, results do not depend on the pool, and invocations that write only their own parameters/locals leave the caller's scope untouched so that per-row evaluation order is irrelevant; (4) flow_spec - the flow-value encoding equals a continuation semantics written without flags (BREAK -> after the innermost loop, CONTINUE -> its next test, RETURN -> the caller with the value, EXIT -> end of run, blocks closed on the way), for every machine and answer type; (5) pool_inv - on the pooled-heap machine, for every sync.Pool choice policy: live objects pairwise distinct and disjoint from the pool, pooled objects cleared, every Get fresh and every Put innermost, kept on every exit path incl. errors, creates and releases balance; the heap machine refines the stack machine (simulation). Tie: generated procedures (depth <= 8, shadowing, outer assignments, recursion, early exits, deliberate mistakes) run through parser.Parse+Processor.Execute (typed PRINT lines, flow, error class), through the csvq binary (stdout, exit code), the parser's placement rules for BREAK/CONTINUE/RETURN/EXIT vs the model's, and SELECT f(c1) FROM t WHERE g(c1) over >=400 rows with cpu 4 vs one model invocation per row; all compared inside Coq.",
    level_note="Trusted: Coq kernel + vm_compute (primitive floats/ints appear under Print Assumptions only because the value type contains floats); the Go harness (generator, SQL/Coq rendering cross-checked through the parser's AST, PRINT-line reader); sync.Pool hands out a pooled object at most once until it is put back; value comparison/arithmetic = the C06 models. Not covered by a theorem: interleavings inside one invocation (goroutine scheduling) - concurrent use is modelled as independent invocations from one calling scope and checked dynamically; create/release balance of the real blockScopePool is checked dynamically (seeded pool, GOMAXPROCS 1, collector off: the pool must hold exactly the seeded objects after batches of procedures incl. error paths). Fragment: see assumptions.",
    technique="Coq theorems on an executable Gallina interpreter (one interpreter over an abstract scope machine, instantiated by a stack machine and by a pooled-heap machine; simulation proof between them) + vm_compute correspondence with parser.Parse/Processor.Execute, the csvq binary and query.Select under cpu 4",
    design_ref="DESIGN.md section 5 (C15)",
)
