"""C15 -- blocks and function calls give declarations a local lifetime and safe shadowing."""

_COMMON = [
    "Coq 8.16.1 kernel and vm_compute (no native_compute); no axioms declared by this development (driver greps for Admitted/admit/Axiom/Parameter/Conjecture/unset checks on every run)",
    "the Go correspondence harness (generators, canonicalisation) in /verif/harness, built against /repo's working tree on every run",
]

PROP = dict(
    id="C15",
    theorem_file="Properties/C15.v",
    needs_csvq=True,
    kinds={
        1: ("lib-mismatch", "parser.Parse + Processor.Execute on a generated procedure: PRINT lines (typed values), final flow or error class differ from Model.Proc.run_heap", True),
        2: ("bin-mismatch", "csvq -q -s on a generated procedure: PRINT lines or the exit status differ from the model (Model.Proc.exit_code)", True),
        3: ("grammar-context", "the parser accepts/rejects the placement of BREAK/CONTINUE/RETURN/EXIT differently from Model.Proc.wf_stmt (program / loop / function / function-loop contexts)", True),
        4: ("rows-mismatch", "user-defined functions invoked concurrently (SELECT f(c1) FROM big WHERE g(c1), >= 400 rows, cpu 4): per-row results differ from one model invocation per row", True),
        5: ("model-out-of-fuel", "the model ran out of fuel on a generated case (harness/model limit, not a violation)", False),
        6: ("machines-disagree", "the pooled-object machine and the stack machine of the model disagree, or the pool discipline is broken at the end of a run (model error; Proofs/ProcSim.v proves this cannot happen)", False),
    },
    expected=lambda kind, cid: (
        ("Eval vm_compute in (map expected_bin (filter (fun c => N.eqb (bid c) %d) bcases))." % cid) if kind == 2 else
        ("Eval vm_compute in (map expected_ctx (filter (fun c => N.eqb (wid c) %d) wcases))." % cid) if kind == 3 else
        ("Eval vm_compute in (map expected_rows (filter (fun c => N.eqb (qid c) %d) qcases))." % cid) if kind == 4 else
        ("Eval vm_compute in (map expected_lib (filter (fun c => N.eqb (lid c) %d) lcases))." % cid)),
    trusted=_COMMON + [
        "the harness's rendering of a generated procedure as SQL and as a Coq term (cross-checked on every case by translating csvq's parser AST back to the same term), and its reading of PRINT lines as integers / plain strings / ternaries / NULL",
        "modelled, not verified: sync.Pool hands out each pooled object at most once until it is put back (the model quantifies over which pooled object is chosen); strings.ToUpper on the ASCII names used by the generator; value comparison/arithmetic are the C06 models (Model.Compare, Model.Arith)",
        "Go's scheduling of the goroutines that evaluate a query's rows: the model gives every row its own invocation from the same calling scope; only functions that write nothing but their own parameters/locals are used there (for others csvq's result is scheduling-dependent by design)",
    ],
    assumptions=[
        "procedure fragment: VAR/DECLARE of one variable, :=, DISPOSE, PRINT, IF/ELSEIF/ELSE, CASE, WHILE, WHILE..IN (NEXT fetch, one column), BREAK, CONTINUE, RETURN, EXIT [n], scalar function declaration (defaults) / call / DISPOSE FUNCTION, cursors over literal rows (DECLARE/OPEN/CLOSE/FETCH/DISPOSE, IS OPEN, COUNT), temporary tables of one column (DECLARE/INSERT one value/DISPOSE, SELECT COUNT(*)); expressions: literals (non-negative integers, plain strings, ternaries, NULL), variables, :=, + - * / %, comparisons, AND/OR/NOT, calls",
        "outside the fragment (never generated): aggregate functions, EXECUTE/SOURCE (which can smuggle EXIT into a function), COMMIT/ROLLBACK inside procedures, float and datetime values, non-ASCII names, FETCH positions other than NEXT, prepared-statement cursors",
        "the csvq binary is run with standard input from /dev/null: with a pipe on stdin csvq reads FROM-less SELECTs (the generated cursor queries) from it",
    ],
    level_text="",
    level_note="",
    technique="Coq theorems on an executable Gallina interpreter (one interpreter over an abstract scope machine, instantiated by a stack machine and by a pooled-heap machine; simulation proof between them) + vm_compute correspondence with parser.Parse/Processor.Execute, the csvq binary and query.Select under cpu 4",
    design_ref="DESIGN.md section 5 (C15)",
)
