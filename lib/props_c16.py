"""C16 -- a cursor walks a snapshot of its query taken at OPEN, with exact positioning."""

PROP = dict(
    id="C16",
    theorem_file="Properties/C16.v",
    needs_csvq=False,
    kinds={
        1: ("history-mismatch", "on some statement of the history the implementation (parser.Parse + Processor.ExecuteStatement, statement by statement on one transaction) and the model of cursor.go / FetchCursor / WhileInCursor / reference_scope.go (Model.Cursor.step with Go's int arithmetic) differ in error class, status value, variable values or the rows a WHILE IN loop visited", True),
        2: ("spec-violation", "the implementation's own observations are not those of the clamped-pointer specification (Model.Cursor.step with exact arithmetic): a FETCH delivered a record that is not the addressed row of the snapshot taken at OPEN, moved the pointer somewhere else than clamp(target), or a status/loop/error answer disagrees with it", True),
    },
    expected=lambda kind, cid: "Eval vm_compute in (map expected_case (filter (fun c => N.eqb (cid c) %d) cases))." % cid,
    trusted=[
        "Coq 8.16.1 kernel and vm_compute (no native_compute); no axioms declared by this development (driver greps for Admitted/admit/Axiom/Parameter/Conjecture/unset checks on every run)",
        "the Go correspondence harness (generators, canonicalisation) in /verif/harness, built against /repo's working tree on every run",
        "primitive binary64 floats and 63-bit integers of Coq (PrimFloat, PrimInt63 -- listed by Print Assumptions as primitives): used only to model value.ToInteger on a float or numeric-text FETCH number (truncation toward zero)",
        "the result of the cursor's query at OPEN and after every data-changing statement is not modelled but measured: the harness evaluates the same SELECT through query.Select on the same transaction (independently of cursor.go) and hands it to the model as the abstract 'current result' (Model.Cursor.db); that csvq's SELECT is right is C03's business",
        "string oracles for textual FETCH numbers (strconv.ParseInt / ParseFloat on option.TrimSpace, Go standard library) carried as data",
        "float-to-int conversion of NaN/infinite/out-of-range numeric TEXT ('nan', '1e300') is implementation-defined in Go (amd64: MinInt64); modelled so, never generated",
    ],
    assumptions=[
        "rows are abstract lists of values: the model never inspects row data, the correspondence compares it value by value (class, int64, float bits, text)",
        "pseudo cursors (user-defined aggregates) are modelled and exercised through ReferenceScope.AddPseudoCursor only; blocks are entered/left through Processor.NewChildProcessor/Close (what IF/WHILE/functions do), not through SQL control flow (C15)",
        "WHILE bodies in generated histories contain at most one, idempotent, data-changing statement (its effect is measured after the loop)",
        "documented deviation outside the property (DESIGN.md section 5, C16): the manual says an out-of-range FETCH sets the variables to NULL, the code leaves them unchanged -- the model follows the code",
    ],
    level_text="Proof: 28 Coq theorems/examples (Properties/C16.v) about an executable model of Cursor/CursorMap (cursor.go), the cursor lookup through block scopes (reference_scope.go), FetchCursor (query.go: number evaluation, arity check, assignment loop), WhileInCursor (processor.go) and the cursor status expressions (eval.go), over ALL histories of DECLARE/OPEN/FETCH/CLOSE/DISPOSE/status/WHILE IN/block entry+exit/data changes, all result sizes and all position arguments: fetch_spec (new pointer = clamp(target) in [-1,len], a record is delivered iff the target is a row index and it is that row of the view; proved for exact arithmetic, REFUTED for the code's wrapping int addition by FETCH RELATIVE near +-2^63, proved for the code whenever pointer+number stays in int64), the invariant -1 <= pointer <= len for every reachable state (induction over fold_left of arbitrary operation lists incl. loops), snapshot (after a successful OPEN the cursor holds the result its query had then; through any history that does not open/close/dispose/redeclare it or leave its block -- with arbitrary data changes interleaved -- the view is unchanged and every fetched record is a row of it), while_in_visits_all (from a fresh cursor: the visited rows are always a prefix of the result in order, exactly all len rows when the loop ends without error, never out of fuel; bodies that only change data never fail), status_agrees (COUNT = len, IS OPEN, IS IN RANGE = -1<idx<len after a fetch through any cursor-keeping history, UNKNOWN before any fetch), errors (undeclared / closed / open twice / redeclared / pseudo: the stated error and the state, variables included, untouched). Tie: histories of 8-25 statements on one transaction through parser.Parse + Processor.ExecuteStatement (file table + temporary table, prepared-statement cursors, nested blocks, pseudo cursors, loops with bodies, INSERT/UPDATE/DELETE/ROLLBACK/COMMIT interleaved) are replayed statement by statement on the model inside Coq (error class, status value, variables, visited rows), and additionally on the exact-arithmetic specification.",
    level_note="Trusted: Coq kernel + vm_compute; Go harness; the query results handed to the model are measured with query.Select (csvq's SELECT is C03's subject); Coq primitive floats only for ToInteger of float/text FETCH numbers. Known finding relative-overflow (FETCH RELATIVE n with pointer+n outside int64 wraps) is kept bug-compatible in the model and reported as KNOWN-FINDING.",
    design_ref="DESIGN.md section 5 (C16)",
    technique="Coq theorems (induction over operation histories, frame lemmas over block stacks, loop invariants) on an executable Gallina model + vm_compute replay of histories executed on the Go implementation",
)
