"""C18 -- the parser is total; printed queries re-parse to the same query."""

_TRUST = [
    "Coq 8.16.1 kernel and vm_compute (no native_compute); no axioms declared by this development (driver greps for Admitted/admit/Axiom/Parameter/Conjecture/unset checks on every run)",
    "the Go correspondence harness (generators, canonicalisation, the packed int63 transport of code points decoded by Harness/H18.v) in /verif/harness, built against /repo's working tree on every run",
    "modelled, not verified: the LALR grammar and its actions (lib/parser/parser.y / parser.go, goyacc's driver loop) -- exercised only differentially; Go's []rune(string) conversion (invalid UTF-8 -> U+FFFD); Go's unicode tables (Letter, Nd above Latin-1 are passed to the model as data, White_Space and Latin-1 are written out in Model/Lex.v and compared with the runtime on every run); strings.EqualFold / strings.ToUpper against ASCII words (modelled by fold_canon / to_upper, compared exhaustively over all code points by the harness on every run); strconv.ParseInt / ParseFloat success on the number shapes the scanner produces (modelled exactly: int64 range, missing exponent digits, rounding to infinity at 2^1024 - 2^970; literals shorter than 9000 code points)",
]

PROP = dict(
    id="C18",
    theorem_file="Properties/C18.v",
    kinds={
        1: ("scan-mismatch", "the token stream of parser.Scanner.Scan (kind, literal, quoted flag, placeholder ordinal, line, char, error class, HolderNumber) differs from Model.Lex.tokens on this text and mode", True),
        2: ("stream-spec", "the implementation's own token stream breaks the specification Model.Lex.stream_ok: a token or lexical error reported at a line/char that is not a position of the text, EOF not last, or more tokens than code points", True),
        3: ("model-out-of-fuel", "Model.Lex.tokens ran out of fuel (excluded by theorem C18_scan_total: the generated case or the model changed)", True),
        4: ("escape-mismatch", "option.EscapeString / EscapeIdentifier / QuoteString / QuoteIdentifier / UnescapeString / UnescapeIdentifier differ from Model.Escape on this text", True),
        5: ("escape-roundtrip", "option.UnescapeString(option.EscapeString(s), single quote) or the identifier pair does not give s back", True),
        6: ("unicode-assumption", "unicode.IsSpace/IsLetter/IsDigit, strings.EqualFold or strings.ToUpper of the Go runtime differ from what Model/Lex.v assumes (harness/model error, not a violation of the property)", False),
    },
    expected=lambda kind, cid: ("Eval vm_compute in (map (expected_scan CFG) (filter (fun x => N.eqb (sid x) %d%%N) scases))." % cid) if kind in (1, 2, 3)
        else (("Eval vm_compute in (map expected_escape (filter (fun x => N.eqb (eid x) %d%%N) ecases))." % cid) if kind in (4, 5) else None),
    trusted=_TRUST,
    assumptions=[
        "the grammar is outside the model: 'parser.Parse is total' and 'print / re-parse / print identity of statements' are established only for the inputs explored (all four mode combinations of every generated text), not proved",
        "String() exists only on query expressions (SELECT queries, clauses, tables, values); for other statements every outermost printable node is round-tripped inside a SELECT context of its kind",
        "evaluation identity is compared for generated SELECT-without-FROM expressions over literals, variables and side-effect-free functions, and (query.Select, header labels + records) for generated SELECTs and a fixed list of boundary-literal SELECTs (every window frame shape with offsets 0/1/2/1000000, LIMIT/OFFSET/FETCH 0, one-element IN lists ...) over two fixed tables; records are compared as a sequence only where the ORDER BY is total, else as a multiset; SELECTs that cannot be evaluated are compared structurally (tree parsed from the printed text = printed tree up to positions and spellings)",
        "termination: every input is first scanned and parsed in child processes (ulimit -v 800 MB, 20 s without progress = not terminating); an input a child dies on (twice) is reported as scanner-nontermination / parse-nontermination and left out of the in-process runs",
    ],
    needs_csvq=False,
    level_text="Proof (partial, as planned in DESIGN.md section 5): 21 Coq theorems/examples (Properties/C18.v) about an executable model of the complete hand-written scanner (Model/Lex.v: both quoting modes, prepared-statement mode, comments, numbers incl. int64/float64 limits, operators, variables/flags/environment variables/runtime information, external commands, identifiers/keywords/function classes with Unicode case folding, constants/URLs/table functions, string and identifier literals with escapes) and of option.EscapeString/UnescapeString/EscapeIdentifier/UnescapeIdentifier/Quote* (Model/Escape.v), for ALL texts, configurations and modes: the scanner never runs out of fuel = input length + 1 (C18_scan_total), every token but EOF consumes at least one code point (C18_scan_progress, C18_token_count), the line/char of every token, lexical error and EOF is a position of the text (C18_scan_positions, C18_positions_numeric, C18_stream_ok), UnescapeString inverts EscapeString and the identifier pair likewise (C18_unescape_escape_string/_identifier; false for the double quotation mark as quote: ..._any_quote_refuted), and every literal, quoted identifier and enclosed environment variable that String() prints is scanned back to exactly itself at the right position in every mode (C18_scan_quoted_string/_identifier/_envvar; the side condition on the following rune is necessary: ..._any_rest_refuted). The model is tied to the code by comparing, inside Coq, the token streams of parser.Scanner and the outputs of the option functions with the model on random code-point strings, token soups, mutated valid queries, a grammar-based corpus and the inputs of the pinned parser tests in all four mode combinations. NOT proved (LALR grammar not modelled): parser.Parse returning without panic inside a time bound with error positions inside the input, print/re-parse/print identity of every printable node and evaluation identity are checked differentially on the same inputs on every run.",
    level_note="Trusted: Coq kernel + vm_compute; Go harness; Go's rune conversion, Unicode tables and case folding (compared with the model on every run); strconv number parsing (modelled exactly). Not modelled: parser.y / goyacc tables and actions (differential runs only).",
    technique="Coq theorems for scanner/escaping; grammar round trip by differential runs (stated as partial)",
    design_ref="DESIGN.md section 5 (C18)",
    harness_timeout={"quick": 600, "thorough": 2400},
)
