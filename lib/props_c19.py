"""C19 -- csvq never fails internally: any program, data or file state ends cleanly."""

COMMON_TRUST = [
    "Coq 8.16.1 kernel and vm_compute (no native_compute); no axioms declared by this development (driver greps for Admitted/admit/Axiom/Parameter/Conjecture/unset checks on every run)",
    "the Go correspondence harness (generators, classification of process outcomes, shape checkers) in /verif/harness, built against /repo's working tree on every run",
]


def _expected(kind, cid):
    if kind == 1:
        return "Eval vm_compute in (expected_row extracted_errors %d)." % (cid - 100000)
    if kind == 2:
        return "Eval vm_compute in (nth_error model_table %d)." % (cid - 200000)
    if kind == 3:
        return "Eval vm_compute in (model_exit, model_return_codes, model_orphans)."
    if kind == 4:
        return "Eval vm_compute in (map expected_trigger (filter (fun t => N.eqb (tid t) %d) tcases))." % cid
    if kind == 6:
        return "Eval vm_compute in documented_statuses."
    if kind in (7, 8):
        return "Eval vm_compute in (map expected_fixed (filter (fun c => N.eqb (fid c) %d) fcases))." % cid
    return ""


PROP = dict(
    id="C19",
    theorem_file="Properties/C19.v",
    needs_csvq=True,
    harness_timeout={"quick": 900, "thorough": 2400},
    kinds={
        1: ("error-table-mismatch", "translator obligation: an error constructor extracted from the CURRENT lib/query/error.go (constructor, struct type, return code, error number) is not a row of the pinned model table Model/ExitCode.v model_table -- a new error type or a changed code; exit_code_total no longer speaks about the code", False),
        2: ("error-table-missing", "translator obligation: a row of the pinned model table has no constructor in the current lib/query/error.go (removed / renamed)", False),
        3: ("exit-shape-mismatch", "translator obligation: cli.Exit's mapping in lib/cli/app.go (default code, nil -> no exit, ForcedExit 0 -> no exit, query.Error -> Code(), cli.Exit(message, code)), the panic capture in Processor.execute, the ReturnCode constants or the set of never-built error types differ from the model", False),
        4: ("exit-code-mismatch", "a program ending in a known error class: error number / Code() observed through the library or the exit status of build/csvq differ from process_status of the model", True),
        5: ("nil-error-dereference-site", "translator obligation: a selector on an `error` variable that is provably nil at that point (the pattern of F-C19-1: `if e != nil { … err.Error() … }` with a never-assigned err)", False),
        7: ("fixed-load-mismatch", "fixed-length loader: SELECT * FROM FIXED('[...]', file, 'UTF8', no_header, without_null) of build/csvq disagrees with Model/Fixed.v fixed_load (header names, cells incl. NULL vs empty, or error vs table)", True),
        8: ("fixed-not-rectangular", "fixed-length loader: the table printed by build/csvq has a record whose field count differs from the header's (fixed_load_rectangular fails on the implementation's own output)", True),
        6: ("undocumented-status", "a run ended with an exit status outside 0,1,2,4,8,16,32,64 although the program contains no EXIT / TRIGGER ERROR code and no signal was sent (Model/ExitCode.v status_documented)", True),
    },
    expected=_expected,
    trusted=COMMON_TRUST + [
        "translator/c19 (Go, go/ast only): extraction of the error table, of cli.Exit's shape, of the function tables and the syntactic nil-error analysis are trusted to read the source correctly; the pinned table coq/Model/ExitCode.v was written from the same extraction and reviewed against lib/query/error.go",
        "the manual's Return Code table (docs/_posts/2006-01-02-command.md) is transcribed by hand into documented_codes / code_documented",
        "process outcomes are observed through /bin/sh, exec and wait(2): exit status mod 256, stderr text; the internal-failure markers looked for are 'Fatal Error', 'panic:', 'goroutine ', 'runtime error', 'fatal error:', 'SIGSEGV', 'unexpected signal'",
    ],
    assumptions=[
        "absence of internal failures (panics, hangs, non-rectangular tables) in the Go code is EXPLORED, not proved: corpus + loader fuzzing + boundary sweeps + file-system conditions with the real binary (see rule); DESIGN.md states C19 as 'partial'",
        "csv_load_rectangular / ltsv_load_rectangular are proved in the codec development (Csvq.Proofs.Csv.csv_load_rect, Csvq.Proofs.Ltsv.ltsv_load_rect, stated as C19_csv_load_rectangular / C19_ltsv_load_rectangular in Properties/C02.v and tied to the code by H02's not-rectangular kind); this file set adds fixed_load_rectangular for explicit position lists on valid UTF-8 (automatic SPACES detection, other encodings and the JSON/JSONL loaders are fuzzed only)",
        "every process runs with 1 GB of address space and 10 s of wall clock: exhausting either counts as a failure of csvq (an unbounded allocation or loop on a small input)",
        "permission conditions are exercised as uid 65534 through setpriv when the check runs as root; skipped (noted) when setpriv is missing",
    ],
    level_text="Proof (partial, as DESIGN.md states for C19): 18 Coq theorems (+6 examples) (Properties/C19.v) about an executable model of csvq's error classes -- one constructor per error constructor of lib/query/error.go (119 static classes, a finite enumeration: static_classes_bound, lifted to `forall e` by forallb_forall and the completeness lemma static_classes_enumerated), EXIT n / TRIGGER ERROR n / signal n for ALL integers n, and foreign Go errors -- and of cli.Exit: exit_code_total / exit_code_documented (every class exits with the code the manual documents for it: 1,2,4,8,16,32,64 by category, the requested code, or 128+signal), exit_code_zero_only_on_request and status_zero_only_success_or_request (status 0 = success or the program asked for a multiple of 256; the unrestricted statement is refuted by EXIT 256), status_of_errors_is_documented (no truncation for non-requested codes), error_number_determines_code / error_number_band; and about an executable model of the fixed-length loader (go-text/fixedlen parseRecord + loadViewFromFixedLengthTextFile, explicit positions, UTF-8): fixed_load_rectangular (for every position list, option vector and input: error, or one header name and one cell per record for each position), fixed_record_progress and fixed_load_total_partial (termination unless single-line mode meets an empty position list; the unrestricted statement is refuted by 'S[]', a reproduced finding). Tie to the code: on every run translator/c19 (go/ast) re-extracts the error table, the ReturnCode constants and the shape of cli.Exit from the current source and Coq compares them with the pinned model by vm_compute (a new error type or changed code breaks the obligation); ~125 programs reaching ~90 distinct error numbers are run through action.Run and through the real binary and number / Code() / exit status compared with process_status; SELECT * FROM FIXED(...) of the real binary on random texts x position lists x option vectors is compared cell by cell (NULL vs empty, header autofill) with the model. EXPLORED ONLY (no proof): that the Go code never panics, hangs or loads a non-rectangular table -- corpus of minimised failing inputs, byte-level fuzzing of all six loaders x option vectors with a rectangularity check of the output, boundary sweeps of every built-in function (names extracted from the source at run time) and clause, command-line values, file-system conditions, and the translator obligation 'no selector on a provably nil error variable' (2 known sites).",
    level_note="Trusted: Coq kernel + vm_compute; the go/ast translator; the Go harness and its outcome classification; the hand transcription of the manual's return-code table. Not covered here: CSV/LTSV loader shape theorems (codec development), SPACES auto-detection and non-UTF-8 encodings of the fixed-length loader, JSON loaders (fuzzed only), signals other than SIGINT/SIGTERM, interactive shell, network (URL tables), Windows. Internal-failure freedom is a search result, bounded by the generators described in `rule`.",
    technique="Coq shape/exit-code theorems; internal-failure freedom explored by sweeps (stated as partial)",
    design_ref="DESIGN.md section 5 (C19), section 6 (F-C19-1..5, F-C07-2), section 12",
)
