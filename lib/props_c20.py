from props import COMMON_TRUST
PROP = dict(
    id="C20",
    theorem_file="Properties/C20.v",
    kinds={
        1: ("model-mismatch", "the cache model (Model.Txn) disagrees with a read of transaction A, with A's cache flags / uncommitted maps, with whether B was locked out, or with the files at the end", True),
        2: ("read-not-repeatable", "a read of A differs from TxnSpec.track applied to the value A first loaded and the steps in between (same data plus A's own changes; the file only at the first access for update to a copy loaded by a plain SELECT)", True),
        3: ("stale-after-end", "the first read of a table after COMMIT / ROLLBACK (or at start) differs from the current file", True),
        4: ("fragment", "an observed run is outside the modelled fragment or a statement reporting 0 affected rows changed its table", True),
    },
    expected=lambda kind, cid: "Eval vm_compute in (map expected_c20 (filter (fun c => N.eqb (c20_id c) %d) cases))." % cid,
    trusted=COMMON_TRUST,
    assumptions=[],
    level_text="", level_note="", technique="", needs_csvq=False,
)
