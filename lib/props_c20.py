from props import COMMON_TRUST, FLOAT_TRUST

PROP = dict(
    id="C20",
    theorem_file="Properties/C20.v",
    kinds={
        1: ("model-mismatch", "the cache model (Model.Txn) disagrees with a read of transaction A, with A's cache flags / uncommitted maps, with whether B was locked out, or with the files at the end", True),
        2: ("read-not-repeatable", "a read of A differs from TxnSpec.track applied to the value A first loaded and the steps in between (same data plus A's own changes; the file only at the first access for update to a copy loaded by a plain SELECT)", True),
        3: ("stale-after-end", "the first read of a table after COMMIT / ROLLBACK (or at start) differs from the current file", True),
        4: ("fragment", "an observed run is outside the modelled fragment or a statement reporting 0 affected rows changed its table", True),
    },
    expected=lambda kind, cid: "Eval vm_compute in (map expected_c20 (filter (fun c => N.eqb (c20_id c) %d) cases))." % cid,
    trusted=COMMON_TRUST + [
        "'another process' is a second query.Transaction (own Session and FileContainer) in the same OS process on the same directory; it commits whole transactions between two steps of A (no commit in the middle of one of A's statements)",
        "B being locked out is observed as B's lock wait timeout (30 ms); the lock protocol itself is C09",
        "cells are compared as csvq values (NULL / integer / text by raw text); " + FLOAT_TRUST,
    ],
    assumptions=[
        "the environment action ExtCommit takes effect exactly when the transaction does not hold the table's exclusive lock (it has not loaded it for update since its last COMMIT / ROLLBACK) -- compared with the implementation on every generated step (B committed / B locked out)",
        "two CSV tables, statements INSERT / UPDATE / DELETE (incl. no row hit), a failing UPDATE, SELECT, SELECT FOR UPDATE, COMMIT, ROLLBACK",
    ],
    level_text="Proof: 7 Coq theorems + 3 examples (Properties/C20.v) on the cache part of Model/Txn.v with the environment action ExtCommit (another process commits) allowed between ANY two steps. C20_repeatable_read / C20_repeatable_read_history: for every state / history in which table p is cached and EVERY following interleaving of own statements, failed statements and foreign commits without COMMIT/ROLLBACK, a read of p returns TxnSpec.track p v fu d mid -- the value held, replaced by the transaction's own changes, and the file's content only at the first access for update to a copy that was loaded by a plain SELECT (the documented exception, stated exactly; C20_example_exception shows it is real). Corollaries without `track`: C20_stable_plain (plain copy, no access for update: unchanged whatever others commit), C20_stable_locked (held for update: unchanged until the own change), C20_own_change_visible, C20_fresh_after_end (after COMMIT / ROLLBACK and any foreign commits the next read returns the current file), C20_ext_commit_excluded_while_locked. Proved by induction over the interleaving with a single-table invariant. Tie to the code on every run: two library Transactions on one scratch directory, generated interleavings; every read of A, A's cache flags and uncommitted maps after every step, whether B could commit or was locked out, and the final files are compared with the model; reads are additionally checked against `track` and against the pending-writes machine of C01 on the observations alone.",
    level_note="Trusted: Coq kernel + vm_compute; Go harness; the second writer is a second Transaction object in the same process; lock-out is observed through B's short lock wait timeout; histories with three or more transactions are not generated.",
    technique="Coq theorems (single-table tracking invariant, induction over interleavings with environment commits) + vm_compute correspondence with two library transactions on one directory",
    design_ref="DESIGN.md section 5 (C20)",
    needs_csvq=False,
)
