#!/usr/bin/env python3
"""Regression seeds: every "fix:" commit of /repo, reverted on its own in /repo's working tree
(git revert --no-commit; nothing is committed, the tree is restored afterwards), must make the quick
check of the property it was recorded for in known_findings.json report a VIOLATION again.

    lib/regresstest.py [--only HASH,...] [--tier quick]

Writes /verif/seeded/regressions.json.  Reverting a fix is a realistic change by construction: the
reverted tree is the code as the maintainers shipped it, it compiles and passes the pinned test suite
(no fix commit touches a test).  Not to be run while anything else uses /repo.
"""
import json, os, subprocess, sys, time

ROOT = '/verif'
REPO = '/repo'
ENV = dict(os.environ, GOFLAGS='-mod=mod', GOPROXY='off', GOSUMDB='off', GOTOOLCHAIN='local')


def sh(cmd, **kw):
    return subprocess.run(cmd, shell=True, capture_output=True, text=True, env=ENV, **kw)


def clean():
    return sh('git -C %s status --porcelain' % REPO).stdout.strip() == ''


def restore():
    sh('git -C %s revert --abort' % REPO)
    sh('git -C %s reset -q --hard HEAD' % REPO)
    sh('git -C %s clean -fdq' % REPO)


def main():
    tier = 'quick'
    only = None
    a = sys.argv[1:]
    while a:
        x = a.pop(0)
        if x == '--tier':
            tier = a.pop(0)
        elif x == '--only':
            only = set(a.pop(0).split(','))
    if not clean():
        print('/repo has uncommitted changes; refusing to run')
        return 2
    kf = json.load(open(os.path.join(ROOT, 'known_findings.json')))['findings']
    by_commit = {}
    for f in kf:
        if f.get('status') == 'fixed' and f.get('commit'):
            by_commit.setdefault(f['commit'], []).append(f)
    out_path = os.path.join(ROOT, 'seeded', 'regressions.json')
    results = {}
    if os.path.exists(out_path):
        results = {r['commit']: r for r in json.load(open(out_path))['regressions']}
    for commit, entries in by_commit.items():
        if only and commit not in only:
            continue
        subject = sh('git -C %s log -1 --format=%%s %s' % (REPO, commit)).stdout.strip()
        props = sorted({e['property'] for e in entries})
        rec = dict(commit=commit, subject=subject, properties=props, keys=sorted({e['key'] for e in entries}), tier=tier)
        r = sh('git -C %s revert --no-commit %s' % (REPO, commit))
        if r.returncode != 0:
            restore()
            rec.update(reverted=False, note='git revert --no-commit does not apply cleanly on the current tree (later commits touch the same lines)')
            results[commit] = rec
            print(json.dumps(rec)[:300], flush=True)
            continue
        b = sh('cd %s && go build ./... && go build -tags verif ./...' % REPO)
        if b.returncode != 0:
            restore()
            rec.update(reverted=False, note='the reverted tree does not build: ' + b.stderr[-300:])
            results[commit] = rec
            print(json.dumps(rec)[:300], flush=True)
            continue
        rec['reverted'] = True
        rec['checks'] = {}
        det = []
        for p in props:
            t0 = time.time()
            c = sh('cd %s && ./check %s --tier %s' % (ROOT, p, tier))
            lines = [l for l in c.stdout.splitlines() if l.startswith('VIOLATION') or l.startswith('check ')]
            more = [l.strip()[:300] for l in c.stdout.splitlines() if l.startswith('  ') and 'C13-CHILD' not in l][:4]
            rec['checks'][p] = dict(exit=c.returncode, wall_s=round(time.time() - t0, 1), lines=lines[:6], detail=more)
            if c.returncode == 1 and any(l.startswith('VIOLATION property=%s ' % p) for l in lines):
                det.append(p)
        rec['detected_by'] = det
        restore()
        if not clean():
            print('could not restore /repo!')
            return 2
        results[commit] = rec
        json.dump(dict(_format='one entry per fix commit of /repo that known_findings.json records; produced by lib/regresstest.py',
                       regressions=list(results.values())), open(out_path, 'w'), indent=1)
        print(json.dumps(dict(commit=commit, props=props, detected_by=det, subject=subject))[:300], flush=True)
    return 0


if __name__ == '__main__':
    sys.exit(main())
