#!/usr/bin/env python3
"""seedtest.py PID SRC_DIR NAME [--tier quick|thorough]
Verify a seeded change (SRC_DIR with patch.diff, demo/RUN.sh, meta.md) and run the check against it.
 1. scratch worktree of /repo HEAD: patch applies, builds, pinned suite passes, RUN.sh fails with the
    patch and passes without;
 2. apply the patch to /repo, run ./check PID, restore /repo.
Writes /verif/seeded/PID-NAME/{patch.diff,demo/,meta.json}."""
import json, os, shutil, subprocess, sys, tempfile, time
pid, src, name = sys.argv[1], sys.argv[2], sys.argv[3]
tier = sys.argv[sys.argv.index('--tier') + 1] if '--tier' in sys.argv else 'quick'
extra = sys.argv[sys.argv.index('--also') + 1].split(',') if '--also' in sys.argv else []
ENV = dict(os.environ, GOFLAGS='-mod=mod', GOPROXY='off', GOSUMDB='off', GOTOOLCHAIN='local')
def sh(cmd, cwd=None, timeout=1800, env=None):
    p = subprocess.run(cmd, shell=True, cwd=cwd, env=env or ENV, stdout=subprocess.PIPE, stderr=subprocess.STDOUT, timeout=timeout)
    return p.returncode, p.stdout.decode('utf-8', 'replace')
res = dict(property=pid, name=name, source=src, tier=tier)
patch = os.path.abspath(os.path.join(src, 'patch.diff'))
wt = tempfile.mkdtemp(prefix='seedchk-')
os.rmdir(wt)
tmp = tempfile.mkdtemp(prefix='seedtmp-')
env = dict(ENV, TMPDIR=tmp)
try:
    rc, out = sh('git -C /repo worktree add -q %s HEAD' % wt)
    assert rc == 0, out
    demo = os.path.join(src, 'demo')
    shutil.copytree(demo, os.path.join(wt, 'out_demo'))
    run = 'sh out_demo/RUN.sh' if os.path.exists(os.path.join(demo, 'RUN.sh')) else None
    # RUN.sh may refer to its own location; keep the original layout too
    os.makedirs(os.path.join(wt, 'out', name), exist_ok=True)
    shutil.copytree(demo, os.path.join(wt, 'out', name, 'demo'))
    orig = os.path.basename(os.path.normpath(src))
    if orig != name:   # the demo may name its own directory as the author knew it
        shutil.copytree(demo, os.path.join(wt, 'out', orig, 'demo'))
    runcmd = 'bash out/%s/demo/RUN.sh' % name
    rc, out = sh(runcmd, cwd=wt, env=env, timeout=1200)
    res['demo_without_patch'] = rc
    rc, out = sh('git apply --exclude="out/*" %s' % patch, cwd=wt)
    if rc != 0:   # the tree moved on since the change was written: try a three-way application
        rc, out = sh('git apply --3way --exclude="out/*" %s && git reset -q' % patch, cwd=wt)
        res['applied_3way'] = (rc == 0)
    res['patch_applies'] = (rc == 0)
    if rc != 0:
        res['apply_error'] = out[-500:]
    else:
        rc, out = sh('go build ./...', cwd=wt, env=env)
        res['builds'] = (rc == 0)
        rc, out = sh('go test -vet=off -count=1 ./... 2>&1 | grep -v "no test files" | grep -v "^ok" ; true', cwd=wt, env=env)
        res['suite_failures'] = out.strip()[-800:]
        rc, out = sh(runcmd, cwd=wt, env=env, timeout=1200)
        res['demo_with_patch'] = rc
        res['demo_output_tail'] = out[-600:]
finally:
    sh('git -C /repo worktree remove --force %s' % wt)
    shutil.rmtree(tmp, ignore_errors=True)
res['confirmed'] = bool(res.get('patch_applies') and res.get('builds') and not res.get('suite_failures') and res.get('demo_without_patch') == 0 and res.get('demo_with_patch', 0) != 0)
# run the checks against the change
checks = {}
if res.get('patch_applies'):
    rc, out = sh('git -C /repo status --porcelain')
    assert out.strip() == '', 'refusing: /repo has local changes: ' + out
    rc, out = sh('git -C /repo apply --exclude="out/*" %s' % patch)
    if rc != 0:
        rc, out = sh('git -C /repo apply --3way --exclude="out/*" %s && git -C /repo reset -q' % patch)
    assert rc == 0, out
    try:
        for p in [pid] + extra:
            t0 = time.time()
            rc, out = sh('./check %s --tier %s' % (p, tier), cwd='/verif', timeout=3600)
            lines = [l for l in out.splitlines() if l.startswith('VIOLATION') or l.startswith('check ') or l.startswith('  ')]
            checks[p] = dict(exit=rc, wall_s=round(time.time() - t0, 1), lines=lines[:12])
    finally:
        sh('git -C /repo checkout -- . && git -C /repo clean -fdq -- lib main.go')
res['checks'] = checks
res['detected_by'] = [p for p, c in checks.items() if c['exit'] != 0]
dst = os.path.join('/verif/seeded', '%s-%s' % (pid, name))
shutil.rmtree(dst, ignore_errors=True)
os.makedirs(dst)
shutil.copy(patch, os.path.join(dst, 'patch.diff'))
shutil.copytree(os.path.join(src, 'demo'), os.path.join(dst, 'demo'))
if os.path.exists(os.path.join(src, 'meta.md')):
    shutil.copy(os.path.join(src, 'meta.md'), os.path.join(dst, 'meta.md'))
json.dump(res, open(os.path.join(dst, 'meta.json'), 'w'), indent=1)
print(json.dumps({k: res[k] for k in ('property', 'name', 'confirmed', 'detected_by')}), {p: (c['exit'], c['wall_s']) for p, c in checks.items()})
if not res['confirmed']:
    print('  NOT CONFIRMED:', {k: res.get(k) for k in ('patch_applies', 'builds', 'suite_failures', 'demo_without_patch', 'demo_with_patch')})
