#!/usr/bin/env python3
import json, re, sys
r = json.load(open(sys.argv[1]))
c = r.get('case') or {}
W = int(sys.argv[2]) if len(sys.argv) > 2 else 1500
print('check:', r.get('check'), 'id:', r.get('id'), 'occ:', r.get('occurrences'))
for k, v in c.items():
    print(' ', k, ':', (json.dumps(v, ensure_ascii=False) if not isinstance(v, str) else v)[:W])
e = r.get('model_expected', '')
e = re.sub(r"\{\|\s*raw := (\[[^\]]*\]);[^}]*\|\}", lambda m_: 'S' + repr(''.join(chr(int(x)) for x in re.findall(r'(\d+)%N', m_.group(1)))), e, flags=re.S)
print('model:', re.sub(r'\s+', ' ', e)[:W])
