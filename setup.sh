#!/bin/sh
# build the framework offline from files on disk: full .vo build of the Coq development, Go harness
set -e
cd "$(dirname "$0")"
export GOFLAGS=-mod=mod GOPROXY=off GOSUMDB=off GOTOOLCHAIN=local
mkdir -p build gen evidence
( cd coq && coq_makefile -f _CoqProject -o Makefile >/dev/null && timeout 3000 make -j16 )
cp /repo/go.sum harness/go.sum
( cd harness && go build -tags verif -o ../build/harness . )
( cd /repo && go build -tags verif -o /verif/build/csvq . )
echo "setup ok"
