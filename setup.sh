#!/bin/sh
# build the framework offline from files on disk: full .vo build of the Coq development, Go harness
set -e
cd "$(dirname "$0")"
export GOFLAGS=-mod=mod GOPROXY=off GOSUMDB=off GOTOOLCHAIN=local
mkdir -p build gen evidence
python3 - <<'PY'
import sys, os
sys.path.insert(0, "lib")
import driver
ok, log = driver.build_coq()
print(log[-3000:])
sys.exit(0 if ok else 1)
PY
cp /repo/go.sum harness/go.sum
( cd harness && go build -tags verif -o ../build/harness . )
( cd /repo && go build -tags verif -o /verif/build/csvq . )
echo "setup ok"
