#!/usr/bin/env python3
"""One-off helper that WROTE coq/Model/ExitCode.v from a fact base produced by c19facts.

The model file is committed source: it is the pinned, reviewed table that every ./check C19 run compares
(inside Coq, by vm_compute) with the table re-extracted from /repo's CURRENT working tree.  Do NOT run
this on every check -- that would make the comparison vacuous.  Re-run it only when a change of csvq's
error table has been reviewed and accepted:

    build/c19facts -repo /repo -json /tmp/facts.json && python3 translator/c19/genmodel.py /tmp/facts.json > coq/Model/ExitCode.v
"""
import json, sys

f = json.load(open(sys.argv[1]))
rows = f["errors"]
DYN = {"NewForcedExit", "NewUserTriggeredError", "NewSignalReceived"}


def cs(s):
    return "[" + ";".join(str(ord(c)) for c in s) + "]%N" if s else "[]"


def cname(ctor):
    return "E_" + ctor[3:]


cats = sorted(((k, v) for k, v in f["return_codes"].items() if k.startswith("ReturnCode")), key=lambda kv: kv[1])
catname = {k: "Cat" + k[len("ReturnCode"):] for k, _ in cats}
static = [r for r in rows if r["ctor"] not in DYN]
for r in static:
    assert r["code_const"] and r["num_const"], r
assert len(set(r["ctor"] for r in rows)) == len(rows)

o = []
w = o.append
w("""(** * Csvq.Model.ExitCode -- csvq's error classes and their mapping to the process exit status

    One constructor of [error_class] per error constructor (`New…`) of lib/query/error.go as of the pinned
    tree, with the return code (lib/query/error_code.go: ReturnCode…) and the error number it stores in
    its BaseError, plus [E_Foreign] for a Go error that does not implement query.Error.  [exit_code]
    is cli.Exit's mapping (lib/cli/app.go, func Exit): a query.Error exits with its Code(), anything else
    with ReturnCodeApplicationError; ForcedExit with code 0 and "no error" do not call cli.Exit at all.
    [process_status] adds what the operating system does to the value (mod 256).

    Quirks mirrored from the source (they do not affect codes):
    NewContextCanceled builds a ContextDone value; NewNestedRecursionError a RecursionExceededLimitError;
    NewStatementNotExistError a DuplicateStatementNameError; the three NewTableObjectInvalid… constructors
    an InvalidTableObjectError -- so six declared struct types are never built ([model_orphans]).

    This file is the pinned table.  translator/c19 re-extracts the same table from the current source on
    every check and the generated shard compares the two by vm_compute (Harness/H19.v).
    Definitions only; proofs are in Proofs/C19.v. *)
From Coq Require Import ZArith NArith List Bool.
Import ListNotations.
Notation str := (list N).
Local Open Scope Z_scope.

(** ** return-code categories (lib/query/error_code.go, documented in docs/_posts/2006-01-02-command.md "Return Code") *)
Inductive category : Type :=""")
for k, _ in cats:
    w("| %s" % catname[k])
o[-1] += "."
w("")
w("Definition category_code (c : category) : Z :=\n  match c with")
for k, v in cats:
    w("  | %s => %d" % (catname[k], v))
w("  end.")
w("")
w("Definition category_const_name (c : category) : str :=\n  match c with")
for k, v in cats:
    w("  | %s => %s (* %s *)" % (catname[k], cs(k), k))
w("  end.")
w("")
w("Definition all_categories : list category := [%s]." % "; ".join(catname[k] for k, _ in cats))
w("Definition return_code_base_signal : Z := %d.  (* returnCodeBaseSignal *)" % f["return_codes"]["returnCodeBaseSignal"])
w("Definition error_signal_base : Z := 91280.        (* errorSignalBase *)")
w("")
w("(** ** error classes *)")
w("Inductive error_class : Type :=")
for r in static:
    w("| %s" % cname(r["ctor"]))
w("| E_ForcedExit (code : Z)                 (* EXIT [code] *)")
w("| E_UserTriggeredError (code : option Z)  (* TRIGGER ERROR [code] [message] *)")
w("| E_SignalReceived (sig : Z)              (* SIGINT/SIGQUIT/SIGTERM delivered while running *)")
w("| E_Foreign.                              (* an `error` that is not a query.Error *)")
w("")
w("Definition static_classes : list error_class :=\n  [" + ";\n   ".join(cname(r["ctor"]) for r in static) + "].")
w("")
w("Definition is_static (e : error_class) : bool :=\n  match e with\n  | E_ForcedExit _ | E_UserTriggeredError _ | E_SignalReceived _ | E_Foreign => false\n  | _ => true\n  end.")
w("")
w("(** position of a static class in [static_classes] *)")
w("Definition class_index (e : error_class) : nat :=\n  match e with")
for i, r in enumerate(static):
    w("  | %s => %d" % (cname(r["ctor"]), i))
w("  | _ => %d\n  end%%nat." % len(static))
w("")
w("(** the ReturnCode… constant the constructor passes; [None]: computed at run time / not a query.Error *)")
w("Definition category_of (e : error_class) : option category :=\n  match e with")
for r in static:
    w("  | %s => Some %s" % (cname(r["ctor"]), catname[r["code_expr"]]))
w("  | E_UserTriggeredError None => Some CatDefaultUserTriggeredError")
w("  | E_ForcedExit _ | E_UserTriggeredError (Some _) | E_SignalReceived _ | E_Foreign => None\n  end.")
w("")
w("""(** BaseError.code as the constructor sets it; for [E_Foreign]: cli.Exit's default *)
Definition exit_code (e : error_class) : Z :=
  match e with
  | E_ForcedExit c => c
  | E_UserTriggeredError (Some c) => c
  | E_SignalReceived s => return_code_base_signal + s
  | E_Foreign => category_code CatApplicationError
  | _ => match category_of e with Some c => category_code c | None => 0 end
  end.
""")
w("(** BaseError.number *)")
w("Definition error_number (e : error_class) : option Z :=\n  match e with")
for r in static:
    w("  | %s => Some %d (* %s *)" % (cname(r["ctor"]), r["number"], r["number_expr"]))
w("  | E_ForcedExit _ => Some 90640 (* ErrorExit *)")
w("  | E_UserTriggeredError _ => Some 90650 (* ErrorUserTriggered *)")
w("  | E_SignalReceived s => Some (error_signal_base + s)")
w("  | E_Foreign => None\n  end.")
w("")
w("Definition ctor_name (e : error_class) : str :=\n  match e with")
for r in rows:
    pat = cname(r["ctor"]) + (" _" if r["ctor"] in DYN else "")
    w("  | %s => %s (* %s *)" % (pat, cs(r["ctor"]), r["ctor"]))
w("  | E_Foreign => []\n  end.")
w("")
w("(** the struct type the constructor really builds *)")
w("Definition type_name (e : error_class) : str :=\n  match e with")
for r in rows:
    pat = cname(r["ctor"]) + (" _" if r["ctor"] in DYN else "")
    w("  | %s => %s (* %s *)" % (pat, cs(r["type"]), r["type"]))
w("  | E_Foreign => []\n  end.")
w("")
dyn = {r["ctor"]: r for r in rows if r["ctor"] in DYN}
w("""(** ** the table in the form the translator extracts it
    row = (constructor, struct type, code, number); code/number: [inl] constant, [inr] description of a
    non-constant expression ("param" = a parameter of the constructor, "var=64" = a local initialised
    to the constant 64 and possibly reassigned, "128+var" …) *)
Definition xrow : Type := (str * str * (Z + str) * (Z + str))%type.

Definition static_row (e : error_class) : xrow :=
  (ctor_name e, type_name e, inl (exit_code e), inl (match error_number e with Some n => n | None => 0 end)).
""")


def side(const, val, expr):
    return "inl %d" % val if const else "inr %s (* %s *)" % (cs(expr), expr)


w("Definition dynamic_rows : list xrow :=\n  [" + ";\n   ".join(
    "(ctor_name (%s), type_name (%s),\n    %s,\n    %s)" % (
        a, a, side(dyn[c]["code_const"], dyn[c]["code"], dyn[c]["code_expr"]), side(dyn[c]["num_const"], dyn[c]["number"], dyn[c]["number_expr"]))
    for c, a in (("NewForcedExit", "E_ForcedExit 0"), ("NewUserTriggeredError", "E_UserTriggeredError None"), ("NewSignalReceived", "E_SignalReceived 0"))) + "].")
w("")
w("Definition model_table : list xrow := map static_row static_classes ++ dynamic_rows.")
w("")
w("Definition model_orphans : list str :=\n  [" + ";\n   ".join("%s (* %s *)" % (cs(t), t) for t in f["orphan_types"]) + "].")
w("")
w("Definition model_return_codes : list (str * Z) :=\n  map (fun c => (category_const_name c, category_code c)) all_categories ++ [(%s, return_code_base_signal)]." % cs("returnCodeBaseSignal"))
w("")
w("""(** shape of cli.Exit (lib/cli/app.go) and of the panic capture (Processor.execute) *)
Record xexit : Type := mkXExit {
  x_default_code : Z;       (* code := query.ReturnCodeApplicationError *)
  x_nil_no_exit : bool;     (* if err == nil { return nil } *)
  x_forced_zero_nil : bool; (* ForcedExit with Code() == 0 returns nil *)
  x_uses_error_code : bool; (* query.Error: code = apperr.Code() *)
  x_exits_with_code : bool; (* return cli.Exit(message, code) *)
  x_recover_fatal : bool    (* recover() -> NewFatalError in Processor.execute *)
}.
Definition model_exit : xexit := mkXExit (category_code CatApplicationError) true true true true true.

(** ** what the process does *)
Inductive outcome : Type :=
| Success                      (* the action returned nil *)
| Failed (e : error_class).

(** the code handed to cli.Exit / os.Exit; [None]: cli.Exit is not called, main returns normally *)
Definition exit_request (o : outcome) : option Z :=
  match o with
  | Success => None
  | Failed (E_ForcedExit 0) => None
  | Failed e => Some (exit_code e)
  end.

(** exit status seen by the parent process: the low 8 bits *)
Definition process_status (o : outcome) : Z :=
  match exit_request o with
  | None => 0
  | Some c => c mod 256
  end.

(** the codes of the manual's table that are not chosen by the program or the signal number *)
Definition documented_codes : list Z := [1; 2; 4; 8; 16; 32; 64].

(** statuses a run may end with when the program contains no EXIT / TRIGGER ERROR code and no signal is sent *)
Definition documented_statuses : list Z := 0 :: documented_codes.
Definition status_documented (s : Z) : bool := existsb (Z.eqb s) documented_statuses.

(** class of an observed error number ([param]: the code given to EXIT / TRIGGER ERROR, if any) *)
Definition class_of_number (n : Z) (param : option Z) : option error_class :=
  if n =? 90640 then Some (E_ForcedExit (match param with Some c => c | None => 0 end))
  else if n =? 90650 then Some (E_UserTriggeredError param)
  else if (error_signal_base <? n) && (n <=? error_signal_base + 64) then Some (E_SignalReceived (n - error_signal_base))
  else find (fun e => match error_number e with Some m => m =? n | None => false end) static_classes.
""")
print("\n".join(o))
