module veriftranslator/c19

go 1.18
