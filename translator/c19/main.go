// c19facts: fact extraction for property C19 from the CURRENT csvq source tree (standard library
// go/ast only, no type checking, no dependencies).
//
//  1. error table: every `New…` constructor of lib/query/error.go with the return code and the error
//     number it puts into the BaseError (constants of lib/query/error_code.go resolved to numbers;
//     non-constant codes are rendered as a small description string, e.g. "param", "var=64", "128+var");
//  2. the shape of cli.Exit mapping in lib/cli/app.go (default code, nil -> no exit, ForcedExit 0 -> no
//     exit, query.Error -> its Code(), cli.Exit(message, code));
//  3. the names in the built-in function tables (Functions, AggregateFunctions, AnalyticFunctions);
//  4. "nil error dereference" sites: a selector `v.Error()` / `v.x` on an error variable that is
//     provably nil at that point (zero declaration or nil-guarded definitions only), see nilsites.go.
//
// Output: a JSON fact base (-json) and a Coq fragment (-coq, gen/C19/Errors.v) that the generated
// shard compares with Csvq.Model.ExitCode by vm_compute.
package main

import (
	"encoding/json"
	"flag"
	"fmt"
	"go/ast"
	"go/parser"
	"go/token"
	"os"
	"path/filepath"
	"sort"
	"strconv"
	"strings"
)

type ErrRow struct {
	Ctor       string `json:"ctor"`       // constructor function, e.g. NewFieldNotExistError
	Type       string `json:"type"`       // struct type of the returned value
	CodeConst  bool   `json:"code_const"` // the return code is a compile-time constant
	Code       int64  `json:"code"`       // its value
	CodeExpr   string `json:"code_expr"`  // source text (constant name) or description of a dynamic code
	NumConst   bool   `json:"num_const"`
	Number     int64  `json:"number"`
	NumberExpr string `json:"number_expr"`
}

type ExitShape struct {
	Found         bool   `json:"found"`
	DefaultName   string `json:"default_name"`    // code := query.<DefaultName>
	DefaultCode   int64  `json:"default_code"`    // its value
	NilNoExit     bool   `json:"nil_no_exit"`     // if err == nil { return nil }
	ForcedZeroNil bool   `json:"forced_zero_nil"` // ForcedExit with Code()==0 returns nil
	UsesErrorCode bool   `json:"uses_error_code"` // code = apperr.Code() for query.Error
	ExitsWithCode bool   `json:"exits_with_code"` // return cli.Exit(message, code)
	RecoverFatal  bool   `json:"recover_fatal"`   // Processor.execute: recover() -> NewFatalError
}

type Facts struct {
	Repo        string           `json:"repo"`
	ReturnCodes map[string]int64 `json:"return_codes"`
	Errors      []ErrRow         `json:"errors"`
	Exit        ExitShape        `json:"exit"`
	Scalar      []string         `json:"scalar_functions"`
	Aggregate   []string         `json:"aggregate_functions"`
	Analytic    []string         `json:"analytic_functions"`
	Flags       []string         `json:"flags"` // names of the @@FLAGS (lib/option/flags.go, constants …Flag)
	NilSites    []NilSite        `json:"nil_sites"`
	Orphans     []string         `json:"orphan_types"` // declared error types that no constructor builds
	Problems    []string         `json:"problems"`     // things the extractor could not interpret (=> broken obligation)
}

func main() {
	repo := flag.String("repo", "/repo", "csvq source tree")
	jsonOut := flag.String("json", "", "fact base (JSON)")
	coqOut := flag.String("coq", "", "Coq fragment (Errors.v)")
	flag.Parse()

	f := &Facts{Repo: *repo, ReturnCodes: map[string]int64{}}
	fset := token.NewFileSet()

	consts := map[string]int64{}
	qdir := filepath.Join(*repo, "lib", "query")
	for _, name := range []string{"error_code.go", "error.go"} {
		file, err := parser.ParseFile(fset, filepath.Join(qdir, name), nil, 0)
		if err != nil {
			f.Problems = append(f.Problems, "parse "+name+": "+err.Error())
			continue
		}
		collectConsts(file, consts, f)
	}
	for k, v := range consts {
		if strings.HasPrefix(k, "ReturnCode") || k == "returnCodeBaseSignal" {
			f.ReturnCodes[k] = v
		}
	}
	if file, err := parser.ParseFile(fset, filepath.Join(qdir, "error.go"), nil, 0); err == nil {
		extractErrors(fset, file, consts, f)
	}
	extractExit(fset, *repo, consts, f)
	extractFunctions(fset, qdir, f)
	extractFlags(fset, *repo, f)
	f.NilSites = findNilSites(fset, *repo, f)

	sort.Slice(f.Errors, func(i, j int) bool {
		if f.Errors[i].Ctor != f.Errors[j].Ctor {
			return f.Errors[i].Ctor < f.Errors[j].Ctor
		}
		return f.Errors[i].Number < f.Errors[j].Number
	})
	if *jsonOut != "" {
		b, _ := json.MarshalIndent(f, "", " ")
		if err := os.WriteFile(*jsonOut, b, 0644); err != nil {
			fmt.Fprintln(os.Stderr, err)
			os.Exit(1)
		}
	}
	if *coqOut != "" {
		if err := os.WriteFile(*coqOut, []byte(coqFragment(f)), 0644); err != nil {
			fmt.Fprintln(os.Stderr, err)
			os.Exit(1)
		}
	}
	fmt.Printf("c19facts: %d constructors, %d scalar / %d aggregate / %d analytic functions, %d nil sites, %d problems\n",
		len(f.Errors), len(f.Scalar), len(f.Aggregate), len(f.Analytic), len(f.NilSites), len(f.Problems))
}

// ---- constants --------------------------------------------------------------------------------
func collectConsts(file *ast.File, consts map[string]int64, f *Facts) {
	for _, d := range file.Decls {
		gd, ok := d.(*ast.GenDecl)
		if !ok || gd.Tok != token.CONST {
			continue
		}
		for _, s := range gd.Specs {
			vs := s.(*ast.ValueSpec)
			for i, n := range vs.Names {
				if i >= len(vs.Values) {
					continue
				}
				if v, ok := evalConst(vs.Values[i], consts); ok {
					consts[n.Name] = v
				}
			}
		}
	}
}

func evalConst(e ast.Expr, consts map[string]int64) (int64, bool) {
	switch x := e.(type) {
	case *ast.BasicLit:
		if x.Kind == token.INT {
			v, err := strconv.ParseInt(x.Value, 0, 64)
			return v, err == nil
		}
	case *ast.Ident:
		v, ok := consts[x.Name]
		return v, ok
	case *ast.SelectorExpr: // query.ReturnCodeX
		v, ok := consts[x.Sel.Name]
		return v, ok
	case *ast.ParenExpr:
		return evalConst(x.X, consts)
	case *ast.BinaryExpr:
		l, ok1 := evalConst(x.X, consts)
		r, ok2 := evalConst(x.Y, consts)
		if ok1 && ok2 {
			switch x.Op {
			case token.ADD:
				return l + r, true
			case token.SUB:
				return l - r, true
			case token.MUL:
				return l * r, true
			}
		}
	}
	return 0, false
}

// describe renders a non-constant code expression: constants by value, parameters as "param", local
// variables as "var" or "var=<constant initial value>"
func describe(e ast.Expr, consts map[string]int64, fn *ast.FuncDecl) string {
	if v, ok := evalConst(e, consts); ok {
		return strconv.FormatInt(v, 10)
	}
	switch x := e.(type) {
	case *ast.Ident:
		if x.Obj != nil {
			switch d := x.Obj.Decl.(type) {
			case *ast.Field:
				return "param"
			case *ast.AssignStmt:
				for i, l := range d.Lhs {
					if id, ok := l.(*ast.Ident); ok && id.Name == x.Name && i < len(d.Rhs) {
						if v, ok := evalConst(d.Rhs[i], consts); ok {
							return "var=" + strconv.FormatInt(v, 10)
						}
					}
				}
				return "var"
			}
		}
		return "?" + x.Name
	case *ast.BinaryExpr:
		return describe(x.X, consts, fn) + x.Op.String() + describe(x.Y, consts, fn)
	case *ast.ParenExpr:
		return describe(x.X, consts, fn)
	}
	return "?expr"
}

func exprText(e ast.Expr) string {
	switch x := e.(type) {
	case *ast.Ident:
		return x.Name
	case *ast.SelectorExpr:
		return exprText(x.X) + "." + x.Sel.Name
	case *ast.BasicLit:
		return x.Value
	case *ast.BinaryExpr:
		return exprText(x.X) + x.Op.String() + exprText(x.Y)
	case *ast.ParenExpr:
		return "(" + exprText(x.X) + ")"
	case *ast.CallExpr:
		return exprText(x.Fun) + "(…)"
	case *ast.StarExpr:
		return "*" + exprText(x.X)
	case *ast.UnaryExpr:
		return x.Op.String() + exprText(x.X)
	}
	return "?"
}

// ---- error constructors -------------------------------------------------------------------------
func extractErrors(fset *token.FileSet, file *ast.File, consts map[string]int64, f *Facts) {
	// struct types embedding *BaseError
	errTypes := map[string]bool{}
	for _, d := range file.Decls {
		gd, ok := d.(*ast.GenDecl)
		if !ok || gd.Tok != token.TYPE {
			continue
		}
		for _, s := range gd.Specs {
			ts := s.(*ast.TypeSpec)
			st, ok := ts.Type.(*ast.StructType)
			if !ok {
				continue
			}
			for _, fl := range st.Fields.List {
				if len(fl.Names) == 0 && exprText(fl.Type) == "*BaseError" {
					errTypes[ts.Name.Name] = true
				}
			}
		}
	}
	usedTypes := map[string]bool{}
	for _, d := range file.Decls {
		fn, ok := d.(*ast.FuncDecl)
		if !ok || fn.Recv != nil || fn.Body == nil || !strings.HasPrefix(fn.Name.Name, "New") {
			continue
		}
		if fn.Name.Name == "NewBaseError" || fn.Name.Name == "NewBaseErrorWithPrefix" {
			continue
		}
		seen := map[string]bool{}
		found := false
		ast.Inspect(fn.Body, func(n ast.Node) bool {
			cl, ok := n.(*ast.CompositeLit)
			if !ok {
				return true
			}
			tn := exprText(cl.Type)
			if !errTypes[tn] {
				return true
			}
			var codeE, numE ast.Expr
			for _, el := range cl.Elts {
				e := el
				if kv, ok := el.(*ast.KeyValueExpr); ok {
					e = kv.Value
				}
				if u, ok := e.(*ast.UnaryExpr); ok && u.Op == token.AND {
					e = u.X
				}
				switch x := e.(type) {
				case *ast.CallExpr:
					name := exprText(x.Fun)
					if (name == "NewBaseError" || name == "NewBaseErrorWithPrefix") && len(x.Args) == 4 {
						codeE, numE = x.Args[2], x.Args[3]
					}
				case *ast.CompositeLit:
					if exprText(x.Type) == "BaseError" {
						for _, fe := range x.Elts {
							if kv, ok := fe.(*ast.KeyValueExpr); ok {
								switch exprText(kv.Key) {
								case "code":
									codeE = kv.Value
								case "number":
									numE = kv.Value
								}
							}
						}
					}
				}
			}
			if codeE == nil || numE == nil {
				f.Problems = append(f.Problems, fmt.Sprintf("%s: cannot find code/number in the %s literal", fn.Name.Name, tn))
				return true
			}
			found = true
			usedTypes[tn] = true
			row := ErrRow{Ctor: fn.Name.Name, Type: tn}
			if v, ok := evalConst(codeE, consts); ok {
				row.CodeConst, row.Code, row.CodeExpr = true, v, exprText(codeE)
			} else {
				row.CodeExpr = describe(codeE, consts, fn)
			}
			if v, ok := evalConst(numE, consts); ok {
				row.NumConst, row.Number, row.NumberExpr = true, v, exprText(numE)
			} else {
				row.NumberExpr = describe(numE, consts, fn)
			}
			key := fmt.Sprintf("%s|%v|%d|%s|%v|%d|%s", row.Type, row.CodeConst, row.Code, row.CodeExpr, row.NumConst, row.Number, row.NumberExpr)
			if !seen[key] {
				seen[key] = true
				f.Errors = append(f.Errors, row)
			}
			return true
		})
		if !found {
			// a New… function in error.go that builds no error value we can interpret
			results := ""
			if fn.Type.Results != nil && len(fn.Type.Results.List) == 1 {
				results = exprText(fn.Type.Results.List[0].Type)
			}
			if results == "error" {
				f.Problems = append(f.Problems, fn.Name.Name+": no error literal recognised")
			}
		}
	}
	defer func() { sort.Strings(f.Orphans) }()
	for t := range errTypes {
		if !usedTypes[t] {
			// a declared error type that no constructor builds (ContextCanceled today: its constructor builds ContextDone)
			f.Orphans = append(f.Orphans, t)
		}
	}
}

// ---- cli.Exit -------------------------------------------------------------------------------------
func extractExit(fset *token.FileSet, repo string, consts map[string]int64, f *Facts) {
	file, err := parser.ParseFile(fset, filepath.Join(repo, "lib", "cli", "app.go"), nil, 0)
	if err != nil {
		f.Problems = append(f.Problems, "parse app.go: "+err.Error())
		return
	}
	for _, d := range file.Decls {
		fn, ok := d.(*ast.FuncDecl)
		if !ok || fn.Name.Name != "Exit" || fn.Body == nil {
			continue
		}
		f.Exit.Found = true
		for _, st := range fn.Body.List {
			switch s := st.(type) {
			case *ast.IfStmt:
				cond := exprText(s.Cond)
				returnsNil := false
				if len(s.Body.List) > 0 {
					if r, ok := s.Body.List[len(s.Body.List)-1].(*ast.ReturnStmt); ok && len(r.Results) == 1 && exprText(r.Results[0]) == "nil" {
						returnsNil = true
					}
				}
				if s.Init == nil && cond == "err==nil" && returnsNil {
					f.Exit.NilNoExit = true
				}
				if s.Init != nil {
					if as, ok := s.Init.(*ast.AssignStmt); ok && len(as.Rhs) == 1 {
						if ta, ok := as.Rhs[0].(*ast.TypeAssertExpr); ok {
							tt := exprText(ta.Type)
							if tt == "*query.ForcedExit" && returnsNil && cond == "ok&&exit.Code(…)==0" {
								f.Exit.ForcedZeroNil = true
							}
							if tt == "query.Error" && cond == "ok" {
								for _, b := range s.Body.List {
									if a, ok := b.(*ast.AssignStmt); ok && len(a.Lhs) == 1 && exprText(a.Lhs[0]) == "code" &&
										a.Tok == token.ASSIGN && exprText(a.Rhs[0]) == "apperr.Code(…)" {
										f.Exit.UsesErrorCode = true
									}
								}
							}
						}
					}
				}
			case *ast.AssignStmt:
				if len(s.Lhs) == 1 && exprText(s.Lhs[0]) == "code" && s.Tok == token.DEFINE {
					f.Exit.DefaultName = exprText(s.Rhs[0])
					if v, ok := evalConst(s.Rhs[0], consts); ok {
						f.Exit.DefaultCode = v
					} else {
						f.Problems = append(f.Problems, "Exit: default code is not a constant: "+exprText(s.Rhs[0]))
					}
				}
			case *ast.ReturnStmt:
				if len(s.Results) == 1 {
					if c, ok := s.Results[0].(*ast.CallExpr); ok && exprText(c.Fun) == "cli.Exit" && len(c.Args) == 2 && exprText(c.Args[1]) == "code" {
						f.Exit.ExitsWithCode = true
					}
				}
			}
		}
	}
	if !f.Exit.Found {
		f.Problems = append(f.Problems, "lib/cli/app.go: func Exit not found")
	}
	// Processor.execute: deferred recover() that turns a panic into NewFatalError
	pf, err := parser.ParseFile(fset, filepath.Join(repo, "lib", "query", "processor.go"), nil, 0)
	if err == nil {
		for _, d := range pf.Decls {
			fn, ok := d.(*ast.FuncDecl)
			if !ok || fn.Name.Name != "execute" || fn.Body == nil {
				continue
			}
			hasRecover, hasFatal := false, false
			ast.Inspect(fn.Body, func(n ast.Node) bool {
				if c, ok := n.(*ast.CallExpr); ok {
					switch exprText(c.Fun) {
					case "recover":
						hasRecover = true
					case "NewFatalError":
						hasFatal = true
					}
				}
				return true
			})
			f.Exit.RecoverFatal = hasRecover && hasFatal
		}
	}
}

// ---- function tables --------------------------------------------------------------------------------
func extractFunctions(fset *token.FileSet, qdir string, f *Facts) {
	want := map[string]*[]string{"Functions": &f.Scalar, "AggregateFunctions": &f.Aggregate, "AnalyticFunctions": &f.Analytic}
	files, _ := filepath.Glob(filepath.Join(qdir, "*.go"))
	for _, p := range files {
		if strings.HasSuffix(p, "_test.go") {
			continue
		}
		file, err := parser.ParseFile(fset, p, nil, 0)
		if err != nil {
			continue
		}
		for _, d := range file.Decls {
			gd, ok := d.(*ast.GenDecl)
			if !ok || gd.Tok != token.VAR {
				continue
			}
			for _, s := range gd.Specs {
				vs := s.(*ast.ValueSpec)
				for i, n := range vs.Names {
					dst, ok := want[n.Name]
					if !ok || i >= len(vs.Values) {
						continue
					}
					cl, ok := vs.Values[i].(*ast.CompositeLit)
					if !ok {
						continue
					}
					for _, el := range cl.Elts {
						if kv, ok := el.(*ast.KeyValueExpr); ok {
							if bl, ok := kv.Key.(*ast.BasicLit); ok && bl.Kind == token.STRING {
								if name, err := strconv.Unquote(bl.Value); err == nil {
									*dst = append(*dst, name)
								}
							}
						}
					}
				}
			}
		}
	}
	sort.Strings(f.Scalar)
	sort.Strings(f.Aggregate)
	sort.Strings(f.Analytic)
	if len(f.Scalar) == 0 {
		f.Problems = append(f.Problems, "built-in function table `Functions` not found in lib/query")
	}
}

func extractFlags(fset *token.FileSet, repo string, f *Facts) {
	file, err := parser.ParseFile(fset, filepath.Join(repo, "lib", "option", "flags.go"), nil, 0)
	if err != nil {
		return
	}
	for _, d := range file.Decls {
		gd, ok := d.(*ast.GenDecl)
		if !ok || gd.Tok != token.CONST {
			continue
		}
		for _, s := range gd.Specs {
			vs := s.(*ast.ValueSpec)
			for i, n := range vs.Names {
				if strings.HasSuffix(n.Name, "Flag") && i < len(vs.Values) {
					if bl, ok := vs.Values[i].(*ast.BasicLit); ok && bl.Kind == token.STRING {
						if name, err := strconv.Unquote(bl.Value); err == nil {
							f.Flags = append(f.Flags, name)
						}
					}
				}
			}
		}
	}
	sort.Strings(f.Flags)
}

// ---- Coq fragment ---------------------------------------------------------------------------------
func coqStr(s string) string {
	if s == "" {
		return "[]"
	}
	parts := make([]string, 0, len(s))
	for _, r := range s {
		parts = append(parts, strconv.Itoa(int(r)))
	}
	return "[" + strings.Join(parts, ";") + "]%N"
}

func coqFragment(f *Facts) string {
	var b strings.Builder
	b.WriteString("(* generated by translator/c19 from " + f.Repo + " -- do not edit *)\n")
	b.WriteString("(* row: (constructor name, type name, code, number); code/number: inl constant | inr description of a non-constant expression *)\n")
	b.WriteString("Definition extracted_errors : list xrow := [\n")
	for i, r := range f.Errors {
		code := "(inr " + coqStr(r.CodeExpr) + ")"
		if r.CodeConst {
			code = fmt.Sprintf("(inl (%d)%%Z)", r.Code)
		}
		num := "(inr " + coqStr(r.NumberExpr) + ")"
		if r.NumConst {
			num = fmt.Sprintf("(inl (%d)%%Z)", r.Number)
		}
		sep := ";"
		if i == len(f.Errors)-1 {
			sep = ""
		}
		fmt.Fprintf(&b, "  (* %s *) (%s, %s, %s, %s)%s\n", r.Ctor, coqStr(r.Ctor), coqStr(r.Type), code, num, sep)
	}
	b.WriteString("].\n")
	bs := func(x bool) string {
		if x {
			return "true"
		}
		return "false"
	}
	fmt.Fprintf(&b, "Definition extracted_exit : xexit := mkXExit (%d)%%Z %s %s %s %s %s.\n", f.Exit.DefaultCode,
		bs(f.Exit.NilNoExit), bs(f.Exit.ForcedZeroNil), bs(f.Exit.UsesErrorCode), bs(f.Exit.ExitsWithCode), bs(f.Exit.RecoverFatal))
	keys := make([]string, 0, len(f.ReturnCodes))
	for k := range f.ReturnCodes {
		keys = append(keys, k)
	}
	sort.Strings(keys)
	b.WriteString("Definition extracted_return_codes : list (str * Z) := [")
	for i, k := range keys {
		if i > 0 {
			b.WriteString("; ")
		}
		fmt.Fprintf(&b, "(%s, (%d)%%Z)", coqStr(k), f.ReturnCodes[k])
	}
	b.WriteString("].\n")
	b.WriteString("(* declared error struct types that no constructor builds (copy-paste quirks of error.go) *)\nDefinition extracted_orphans : list str := [")
	for i, t := range f.Orphans {
		if i > 0 {
			b.WriteString("; ")
		}
		b.WriteString(coqStr(t))
	}
	b.WriteString("].\n")
	fmt.Fprintf(&b, "Definition extracted_problems : N := %d%%N.\n", len(f.Problems))
	return b.String()
}
