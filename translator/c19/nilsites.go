package main

// Nil-error dereference sites (translator obligation of C19, finding F-C19-1).
//
// A site is a selector expression `v.Error()` / `v.field` where v is a variable of type `error` (by its
// declaration: named result / `var v error`; or any variable when the selector is the call `v.Error()`)
// that is PROVABLY NIL at that point by this syntactic argument:
//
//   - v's address is never taken, and
//   - every definition of v that can reach the use is a zero declaration (named result, `var v error`),
//     an explicit `v = nil`, or is immediately followed by the guard `if v != nil { …; return|break|
//     continue|goto|panic }` that ends before the use  -- where a definition cannot reach the use when it
//     sits in a different clause of the same switch/select (or the other arm of the same if) with no loop
//     around both inside v's scope, when it textually follows (or contains) the use with no such loop, or
//     when it sits in a `defer func(){…}()` of a function that contains the use;
//   - or the use sits in the body of `if v == nil { … }` with no definition of v in between.
//
// Closures: a use or a definition inside a function literal that is not invoked on the spot
// (`func(){…}()`) is treated as "may run at any time" (=> not provable).  Uses inside `if v != nil`
// bodies or after a terminating `if v == nil` guard are never reported.
//
// The typical instance (load_view.go, processor.go today):
//
//	p, e := CreateFilePath(…)
//	if e != nil { return …, NewIOError(id, err.Error()) }   // err is the never-assigned outer variable

import (
	"go/ast"
	"go/parser"
	"go/token"
	"os"
	"path/filepath"
	"sort"
	"strings"
)

type NilSite struct {
	ID   string `json:"id"`   // stable: file:function:variable.selector
	File string `json:"file"` // relative to the repository
	Line int    `json:"line"`
	Func string `json:"func"`
	Var  string `json:"var"`
	Sel  string `json:"sel"`
	Why  string `json:"why"`
}

type defKind int

const (
	defZero defKind = iota
	defNil
	defUnknown
)

type vdef struct {
	kind     defKind
	pos, end token.Pos
	stmt     ast.Node // the statement (AssignStmt, DeclStmt, RangeStmt, …) or the Field / FuncType for parameters
}

type vinfo struct {
	obj       *ast.Object
	defs      []vdef
	addrTaken bool
}

type fnAnalysis struct {
	fset   *token.FileSet
	parent map[ast.Node]ast.Node
	vars   map[*ast.Object]*vinfo
	uses   []*ast.SelectorExpr
}

func findNilSites(fset *token.FileSet, repo string, f *Facts) []NilSite {
	var sites []NilSite
	root := filepath.Join(repo, "lib")
	_ = filepath.Walk(root, func(p string, info os.FileInfo, err error) error {
		if err != nil || info.IsDir() || !strings.HasSuffix(p, ".go") || strings.HasSuffix(p, "_test.go") {
			return nil
		}
		file, perr := parser.ParseFile(fset, p, nil, 0)
		if perr != nil {
			f.Problems = append(f.Problems, "parse "+p+": "+perr.Error())
			return nil
		}
		rel, _ := filepath.Rel(repo, p)
		for _, d := range file.Decls {
			fn, ok := d.(*ast.FuncDecl)
			if !ok || fn.Body == nil {
				continue
			}
			sites = append(sites, analyseFunc(fset, rel, fn)...)
		}
		return nil
	})
	sort.Slice(sites, func(i, j int) bool { return sites[i].ID < sites[j].ID })
	// stable ids: number repeated ids
	count := map[string]int{}
	for i := range sites {
		count[sites[i].ID]++
		if n := count[sites[i].ID]; n > 1 {
			sites[i].ID += "#" + string(rune('0'+n))
		}
	}
	return sites
}

func funcName(fn *ast.FuncDecl) string {
	if fn.Recv != nil && len(fn.Recv.List) == 1 {
		return strings.TrimPrefix(exprText(fn.Recv.List[0].Type), "*") + "." + fn.Name.Name
	}
	return fn.Name.Name
}

func isIdent(e ast.Expr, name string) bool {
	id, ok := e.(*ast.Ident)
	return ok && id.Name == name
}

func analyseFunc(fset *token.FileSet, rel string, fn *ast.FuncDecl) []NilSite {
	a := &fnAnalysis{fset: fset, parent: map[ast.Node]ast.Node{}, vars: map[*ast.Object]*vinfo{}}
	var stack []ast.Node
	ast.Inspect(fn, func(n ast.Node) bool {
		if n == nil {
			stack = stack[:len(stack)-1]
			return true
		}
		if len(stack) > 0 {
			a.parent[n] = stack[len(stack)-1]
		}
		stack = append(stack, n)
		return true
	})
	get := func(o *ast.Object) *vinfo {
		v := a.vars[o]
		if v == nil {
			v = &vinfo{obj: o}
			a.vars[o] = v
		}
		return v
	}
	addFields := func(fl *ast.FieldList, owner ast.Node, result bool) {
		if fl == nil {
			return
		}
		for _, fd := range fl.List {
			for _, nm := range fd.Names {
				if nm.Obj == nil {
					continue
				}
				k := defUnknown
				if result {
					k = defZero
				}
				get(nm.Obj).defs = append(get(nm.Obj).defs, vdef{kind: k, pos: owner.Pos(), end: owner.Pos(), stmt: fd})
			}
		}
	}
	ast.Inspect(fn, func(n ast.Node) bool {
		switch x := n.(type) {
		case *ast.FuncDecl:
			addFields(x.Recv, x, false)
			addFields(x.Type.Params, x, false)
			addFields(x.Type.Results, x, true)
		case *ast.FuncLit:
			addFields(x.Type.Params, x, false)
			addFields(x.Type.Results, x, true)
		case *ast.DeclStmt:
			if gd, ok := x.Decl.(*ast.GenDecl); ok && gd.Tok == token.VAR {
				for _, s := range gd.Specs {
					vs := s.(*ast.ValueSpec)
					for i, nm := range vs.Names {
						if nm.Obj == nil {
							continue
						}
						k := defZero
						if len(vs.Values) > 0 {
							k = defUnknown
							if len(vs.Values) == len(vs.Names) && isIdent(vs.Values[i], "nil") {
								k = defNil
							}
						}
						get(nm.Obj).defs = append(get(nm.Obj).defs, vdef{kind: k, pos: x.Pos(), end: x.End(), stmt: x})
					}
				}
			}
		case *ast.AssignStmt:
			for i, l := range x.Lhs {
				id, ok := l.(*ast.Ident)
				if !ok || id.Obj == nil || id.Name == "_" {
					continue
				}
				k := defUnknown
				if len(x.Lhs) == len(x.Rhs) && isIdent(x.Rhs[i], "nil") {
					k = defNil
				}
				get(id.Obj).defs = append(get(id.Obj).defs, vdef{kind: k, pos: x.Pos(), end: x.End(), stmt: x})
			}
		case *ast.RangeStmt:
			for _, e := range []ast.Expr{x.Key, x.Value} {
				if id, ok := e.(*ast.Ident); ok && id.Obj != nil {
					get(id.Obj).defs = append(get(id.Obj).defs, vdef{kind: defUnknown, pos: x.Pos(), end: x.Body.Pos(), stmt: x})
				}
			}
		case *ast.UnaryExpr:
			if x.Op == token.AND {
				if id, ok := x.X.(*ast.Ident); ok && id.Obj != nil {
					get(id.Obj).addrTaken = true
				}
			}
		case *ast.SelectorExpr:
			if id, ok := x.X.(*ast.Ident); ok && id.Obj != nil && id.Obj.Kind == ast.Var {
				a.uses = append(a.uses, x)
			}
		}
		return true
	})

	var out []NilSite
	for _, u := range a.uses {
		id := u.X.(*ast.Ident)
		v := a.vars[id.Obj]
		if v == nil || !a.errorVar(v, u) {
			continue
		}
		if why, ok := a.provablyNil(v, u); ok {
			pos := fset.Position(u.Pos())
			out = append(out, NilSite{
				ID:   rel + ":" + funcName(fn) + ":" + id.Name + "." + u.Sel.Name,
				File: rel, Line: pos.Line, Func: funcName(fn), Var: id.Name, Sel: u.Sel.Name, Why: why,
			})
		}
	}
	return out
}

// errorVar: declared with type `error`, or (type unknown) used as v.Error()
func (a *fnAnalysis) errorVar(v *vinfo, u *ast.SelectorExpr) bool {
	switch d := v.obj.Decl.(type) {
	case *ast.Field:
		return isIdent(d.Type, "error")
	case *ast.ValueSpec:
		if d.Type != nil {
			return isIdent(d.Type, "error")
		}
	}
	if u.Sel.Name != "Error" {
		return false
	}
	c, ok := a.parent[u].(*ast.CallExpr)
	return ok && c.Fun == u && len(c.Args) == 0
}

func contains(outer ast.Node, pos token.Pos) bool {
	return outer != nil && outer.Pos() <= pos && pos < outer.End()
}

func (a *fnAnalysis) ancestors(n ast.Node) []ast.Node {
	var out []ast.Node
	for p := a.parent[n]; p != nil; p = a.parent[p] {
		out = append(out, p)
	}
	return out
}

// immediate: the function literal is called on the spot (not deferred, not `go`)
func (a *fnAnalysis) litMode(l *ast.FuncLit) string {
	c, ok := a.parent[l].(*ast.CallExpr)
	if !ok || c.Fun != l {
		return "stored"
	}
	switch a.parent[c].(type) {
	case *ast.DeferStmt:
		return "defer"
	case *ast.GoStmt:
		return "go"
	}
	return "inline"
}

func (a *fnAnalysis) enclosingFunc(n ast.Node) ast.Node {
	for _, p := range a.ancestors(n) {
		switch p.(type) {
		case *ast.FuncLit, *ast.FuncDecl:
			return p
		}
	}
	return nil
}

// harmfulLoop: a for/range statement that contains both positions and does not contain v's declaration
func (a *fnAnalysis) harmfulLoop(n ast.Node, p1, p2, decl token.Pos) bool {
	for _, p := range a.ancestors(n) {
		switch p.(type) {
		case *ast.ForStmt, *ast.RangeStmt:
			if contains(p, p1) && contains(p, p2) && !contains(p, decl) {
				return true
			}
		}
	}
	return false
}

func isNilCmp(e ast.Expr, obj *ast.Object, op token.Token) bool {
	b, ok := e.(*ast.BinaryExpr)
	if !ok || b.Op != op {
		return false
	}
	l, lok := b.X.(*ast.Ident)
	r, rok := b.Y.(*ast.Ident)
	if !lok || !rok {
		return false
	}
	return (l.Obj == obj && r.Name == "nil") || (r.Obj == obj && l.Name == "nil")
}

func hasConjunct(e ast.Expr, obj *ast.Object, op token.Token) bool {
	if isNilCmp(e, obj, op) {
		return true
	}
	switch x := e.(type) {
	case *ast.ParenExpr:
		return hasConjunct(x.X, obj, op)
	case *ast.BinaryExpr:
		if x.Op == token.LAND {
			return hasConjunct(x.X, obj, op) || hasConjunct(x.Y, obj, op)
		}
	}
	return false
}

func terminating(b *ast.BlockStmt) bool {
	if b == nil || len(b.List) == 0 {
		return false
	}
	switch s := b.List[len(b.List)-1].(type) {
	case *ast.ReturnStmt, *ast.BranchStmt:
		return true
	case *ast.ExprStmt:
		if c, ok := s.X.(*ast.CallExpr); ok {
			switch exprText(c.Fun) {
			case "panic", "os.Exit", "log.Fatal", "log.Fatalln", "log.Fatalf":
				return true
			}
		}
	}
	return false
}

func stmtList(n ast.Node) []ast.Stmt {
	switch x := n.(type) {
	case *ast.BlockStmt:
		return x.List
	case *ast.CaseClause:
		return x.Body
	case *ast.CommClause:
		return x.Body
	}
	return nil
}

// guarded: the definition statement is followed by `if v != nil { … terminating }` ending before the use
func (a *fnAnalysis) guarded(d vdef, v *vinfo, use token.Pos) bool {
	st, ok := d.stmt.(ast.Stmt)
	if !ok {
		return false
	}
	par := a.parent[st]
	if ifs, ok := par.(*ast.IfStmt); ok && ifs.Init == st {
		return isNilCmp(ifs.Cond, v.obj, token.NEQ) && terminating(ifs.Body) && ifs.Else == nil && use >= ifs.End()
	}
	list := stmtList(par)
	for i, s := range list {
		if s == st && i+1 < len(list) {
			if ifs, ok := list[i+1].(*ast.IfStmt); ok && ifs.Init == nil && ifs.Else == nil &&
				isNilCmp(ifs.Cond, v.obj, token.NEQ) && terminating(ifs.Body) && use >= ifs.End() {
				return true
			}
		}
	}
	return false
}

// exclusive: d and the use sit in different clauses of one switch/select, or in the two arms of one if
func (a *fnAnalysis) exclusive(d vdef, u ast.Node, decl token.Pos) bool {
	dn, ok := d.stmt.(ast.Node)
	if !ok {
		return false
	}
	for _, p := range append([]ast.Node{dn}, a.ancestors(dn)...) {
		switch c := p.(type) {
		case *ast.CaseClause, *ast.CommClause:
			body := a.parent[c]  // BlockStmt
			sw := a.parent[body] // Switch / TypeSwitch / Select
			if sw != nil && contains(body, u.Pos()) && !contains(c, u.Pos()) {
				// the use is in the same switch body but not in d's clause; it must be inside some clause
				if !a.harmfulLoop(u, d.pos, u.Pos(), decl) && !fallsThrough(c) {
					return true
				}
			}
		case *ast.IfStmt:
			inBody := contains(c.Body, d.pos)
			inElse := c.Else != nil && contains(c.Else, d.pos)
			useBody := contains(c.Body, u.Pos())
			useElse := c.Else != nil && contains(c.Else, u.Pos())
			if (inBody && useElse) || (inElse && useBody) {
				if !a.harmfulLoop(u, d.pos, u.Pos(), decl) {
					return true
				}
			}
		}
	}
	return false
}

func fallsThrough(n ast.Node) bool {
	cc, ok := n.(*ast.CaseClause)
	if !ok || len(cc.Body) == 0 {
		return false
	}
	b, ok := cc.Body[len(cc.Body)-1].(*ast.BranchStmt)
	return ok && b.Tok == token.FALLTHROUGH
}

func (a *fnAnalysis) provablyNil(v *vinfo, u *ast.SelectorExpr) (string, bool) {
	if v.addrTaken {
		return "", false
	}
	decl := v.obj.Pos()
	up := u.Pos()
	// never report inside `if v != nil { … }`, in the else of `if v == nil`, or after a terminating `if v == nil` guard
	for _, p := range a.ancestors(u) {
		if ifs, ok := p.(*ast.IfStmt); ok {
			if contains(ifs.Body, up) && hasConjunct(ifs.Cond, v.obj, token.NEQ) {
				return "", false
			}
			if ifs.Else != nil && contains(ifs.Else, up) && isNilCmp(ifs.Cond, v.obj, token.EQL) {
				return "", false
			}
		}
		for _, s := range stmtList(p) {
			if ifs, ok := s.(*ast.IfStmt); ok && ifs.End() <= up && isNilCmp(ifs.Cond, v.obj, token.EQL) && terminating(ifs.Body) {
				return "", false
			}
		}
	}
	// closures that are not run on the spot
	useDetached := false
	for _, p := range a.ancestors(u) {
		if l, ok := p.(*ast.FuncLit); ok && !contains(l, decl) && a.litMode(l) != "inline" {
			useDetached = true
		}
	}
	// R0: inside `if v == nil { … }` with no definition in between
	for _, p := range a.ancestors(u) {
		if ifs, ok := p.(*ast.IfStmt); ok && contains(ifs.Body, up) && isNilCmp(ifs.Cond, v.obj, token.EQL) {
			clean := true
			for _, d := range v.defs {
				if d.pos >= ifs.Body.Pos() && d.pos < up {
					clean = false
				}
			}
			// a closure boundary between the test and the use breaks the argument
			for _, q := range a.ancestors(u) {
				if q == ifs {
					break
				}
				if l, ok := q.(*ast.FuncLit); ok && a.litMode(l) != "inline" {
					clean = false
				}
			}
			if clean {
				return "inside `if " + v.obj.Name + " == nil`", true
			}
		}
	}
	hasZero := false
	for _, d := range v.defs {
		if d.kind == defZero {
			hasZero = true
			continue
		}
		if d.kind == defNil {
			continue
		}
		if useDetached {
			return "", false
		}
		// definition inside a closure that does not contain the use
		detachedDef, deferredDef := false, false
		if dn, ok := d.stmt.(ast.Node); ok {
			for _, p := range a.ancestors(dn) {
				if l, ok := p.(*ast.FuncLit); ok && !contains(l, decl) && !contains(l, up) {
					switch a.litMode(l) {
					case "inline":
					case "defer":
						if ef := a.enclosingFunc(l); ef != nil && contains(ef, up) {
							deferredDef = true
						} else {
							detachedDef = true
						}
					default:
						detachedDef = true
					}
				}
			}
		}
		if detachedDef {
			return "", false
		}
		if deferredDef {
			continue
		}
		if d.end <= up {
			if a.guarded(d, v, up) || a.exclusive(d, u, decl) {
				continue
			}
			return "", false
		}
		// the definition follows or contains the use: reaches it only around a loop
		if a.harmfulLoop(u, d.pos, up, decl) {
			return "", false
		}
	}
	if hasZero {
		return "zero-declared " + v.obj.Name + " has no definition reaching this point", true
	}
	if len(v.defs) == 0 {
		return "", false
	}
	return "every definition of " + v.obj.Name + " reaching this point is followed by a terminating `if " + v.obj.Name + " != nil` guard", true
}
