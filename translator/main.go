// translator -- re-extracts, from the CURRENT source tree of csvq, the fact base that the C14 proof
// obligations are checked against (DESIGN.md section 1, "regeneration by a translator").
//
//	translator -repo /repo -out DIR [-allow allowlist_c14.json]
//
// writes DIR/Sites.v (Coq: ctors, sites, awrites, cwrites + the vm_compute check) and DIR/sites.json
// (the same facts, human readable, used by the harness for replays).  Standard library only:
// go/parser + go/types with the "source" importer (works offline inside the module).
//
// Facts (every list is complete for the analysed packages; nothing is sampled):
//
//	ctors   every function New*/To* of lib/value with the kind of each of its return statements
//	        (pool get / call of another constructor / shared singleton / anything else)
//	sites   every call of value.Discard: shape of the argument, every definition of the discarded
//	        variable, every way it escapes (stored, returned, appended, passed on, captured), every
//	        use that can execute after the call (structured-control-flow walk, no CFG needed)
//	awrites every assignment / IncDec / copy() in the analysed packages whose target is reached through
//	        a value of a lib/parser type, with whether the path crosses a slice, map or pointer
//	        (= storage shared with the stored program) or only a by-value local copy
//	cwrites every assignment to a field of the pooled cell types (String/Integer/Float/Datetime) in
//	        lib/value, with whether it initialises an object just obtained from the pool
package main

import (
	"encoding/json"
	"flag"
	"fmt"
	"go/ast"
	"go/build"
	"go/importer"
	"go/parser"
	"go/token"
	"go/types"
	"os"
	"path/filepath"
	"sort"
	"strings"
)

// ---- fact records -------------------------------------------------------------------------------
type DefSrc struct {
	Kind string `json:"kind"` // ctor | nil | other
	Ctor string `json:"ctor,omitempty"`
	Line int    `json:"line"`
	Why  string `json:"why,omitempty"`
}

type Site struct {
	ID       int      `json:"id"`
	Identity string   `json:"identity"` // file:func:var#k -- stable under line shifts
	File     string   `json:"file"`
	Line     int      `json:"line"`
	Func     string   `json:"func"`
	Var      string   `json:"var"`
	Shape    string   `json:"shape"` // ident | defer-ident | other
	Defs     []DefSrc `json:"defs"`
	Escapes  []string `json:"escapes"`
	UseAfter []string `json:"use_after"`
	Sig      string   `json:"sig"`
	Allow    string   `json:"allow,omitempty"` // justification when allowlisted
}

type Ret struct {
	Kind string `json:"kind"` // poolget | ctor | singleton | other
	Ctor string `json:"ctor,omitempty"`
	Line int    `json:"line"`
	Text string `json:"text"`
}

type Ctor struct {
	ID   int    `json:"id"`
	Name string `json:"name"`
	File string `json:"file"`
	Line int    `json:"line"`
	Rets []Ret  `json:"rets"`
}

type AWrite struct {
	ID       int    `json:"id"`
	Identity string `json:"identity"` // file:func:lhs-text
	File     string `json:"file"`
	Line     int    `json:"line"`
	Func     string `json:"func"`
	Lhs      string `json:"lhs"`
	Class    string `json:"class"` // shared | local-copy | local-fresh
	Why      string `json:"why"`
}

type CWrite struct {
	ID    int    `json:"id"`
	File  string `json:"file"`
	Line  int    `json:"line"`
	Func  string `json:"func"`
	Lhs   string `json:"lhs"`
	Fresh bool   `json:"fresh"` // the object was obtained from get*() in the same function
}

type Facts struct {
	Repo    string   `json:"repo"`
	Pkgs    []string `json:"packages"`
	Ctors   []Ctor   `json:"ctors"`
	Sites   []Site   `json:"sites"`
	AWrites []AWrite `json:"awrites"`
	CWrites []CWrite `json:"cwrites"`
	Pooled  []string `json:"pooled_types"`
	Notes   []string `json:"notes"`
}

type AllowEntry struct {
	Identity      string `json:"identity"`
	Sig           string `json:"facts"`
	Justification string `json:"justification"`
}

// ---- package loading ----------------------------------------------------------------------------
type pkg struct {
	rel     string
	fset    *token.FileSet
	files   []*ast.File
	info    *types.Info
	tpkg    *types.Package
	parents map[ast.Node]ast.Node
}

var (
	repo    string
	modPath string
	fset    = token.NewFileSet()
	imp     types.Importer
)

func fatal(f string, a ...interface{}) {
	fmt.Fprintf(os.Stderr, "translator: "+f+"\n", a...)
	os.Exit(2)
}

func goFiles(dir string) []string {
	ents, err := os.ReadDir(dir)
	if err != nil {
		return nil
	}
	var out []string
	ctx := build.Default // default tags: the production build (!verif)
	for _, e := range ents {
		n := e.Name()
		if e.IsDir() || !strings.HasSuffix(n, ".go") || strings.HasSuffix(n, "_test.go") {
			continue
		}
		if ok, err := ctx.MatchFile(dir, n); err != nil || !ok {
			continue
		}
		out = append(out, filepath.Join(dir, n))
	}
	sort.Strings(out)
	return out
}

func loadPkg(rel string) *pkg {
	dir := filepath.Join(repo, rel)
	p := &pkg{rel: rel, fset: fset, parents: map[ast.Node]ast.Node{}}
	for _, f := range goFiles(dir) {
		af, err := parser.ParseFile(fset, f, nil, parser.ParseComments)
		if err != nil {
			fatal("parse %s: %v", f, err)
		}
		p.files = append(p.files, af)
	}
	if len(p.files) == 0 {
		fatal("no Go files in %s", dir)
	}
	p.info = &types.Info{
		Types: map[ast.Expr]types.TypeAndValue{}, Defs: map[*ast.Ident]types.Object{},
		Uses: map[*ast.Ident]types.Object{}, Selections: map[*ast.SelectorExpr]*types.Selection{},
		Implicits: map[ast.Node]types.Object{},
	}
	var errs []string
	conf := types.Config{Importer: imp, Error: func(err error) { errs = append(errs, err.Error()) }}
	tp, _ := conf.Check(modPath+"/"+rel, fset, p.files, p.info)
	if len(errs) > 0 {
		fatal("type errors in %s: %s", rel, strings.Join(errs[:min(len(errs), 5)], "; "))
	}
	p.tpkg = tp
	for _, f := range p.files {
		var stack []ast.Node
		ast.Inspect(f, func(n ast.Node) bool {
			if n == nil {
				stack = stack[:len(stack)-1]
				return true
			}
			if len(stack) > 0 {
				p.parents[n] = stack[len(stack)-1]
			}
			stack = append(stack, n)
			return true
		})
	}
	return p
}

func min(a, b int) int {
	if a < b {
		return a
	}
	return b
}

func (p *pkg) relFile(pos token.Pos) string {
	f := fset.Position(pos).Filename
	r, err := filepath.Rel(repo, f)
	if err != nil {
		return f
	}
	return r
}
func (p *pkg) line(pos token.Pos) int { return fset.Position(pos).Line }

func (p *pkg) text(n ast.Node) string {
	return types.ExprString(n.(ast.Expr))
}

// enclosing top-level function declaration (or nil) and innermost function literal (or nil)
func (p *pkg) enclosing(n ast.Node) (*ast.FuncDecl, *ast.FuncLit) {
	var lit *ast.FuncLit
	for cur := p.parents[n]; cur != nil; cur = p.parents[cur] {
		switch t := cur.(type) {
		case *ast.FuncLit:
			if lit == nil {
				lit = t
			}
		case *ast.FuncDecl:
			return t, lit
		}
	}
	return nil, lit
}

func funcName(fd *ast.FuncDecl) string {
	if fd == nil {
		return "<package>"
	}
	if fd.Recv != nil && len(fd.Recv.List) == 1 {
		return types.ExprString(fd.Recv.List[0].Type) + "." + fd.Name.Name
	}
	return fd.Name.Name
}

func isValuePkg(tp *types.Package) bool {
	return tp != nil && tp.Path() == modPath+"/lib/value"
}
func isParserPkg(tp *types.Package) bool {
	return tp != nil && tp.Path() == modPath+"/lib/parser"
}

// callee resolves the called function object of a call expression (nil for conversions, closures ...)
func (p *pkg) callee(c *ast.CallExpr) types.Object {
	var id *ast.Ident
	switch f := c.Fun.(type) {
	case *ast.Ident:
		id = f
	case *ast.SelectorExpr:
		id = f.Sel
	case *ast.ParenExpr:
		if i, ok := f.X.(*ast.Ident); ok {
			id = i
		}
	}
	if id == nil {
		return nil
	}
	return p.info.Uses[id]
}

func (p *pkg) isValueFunc(c *ast.CallExpr, name string) bool {
	o := p.callee(c)
	f, ok := o.(*types.Func)
	if !ok || !isValuePkg(f.Pkg()) {
		return false
	}
	if sig, ok := f.Type().(*types.Signature); ok && sig.Recv() != nil {
		return false
	}
	return name == "" || f.Name() == name
}

// ---- constructors of lib/value ------------------------------------------------------------------
var pooledTypes = map[string]bool{} // struct types X for which a function getX() exists
var ctorIDs = map[string]int{}
var poolOf = map[string]string{} // getter name -> pool variable

func isCtorName(n string) bool {
	return (strings.HasPrefix(n, "New") || strings.HasPrefix(n, "To")) && len(n) > 3
}

func analyseCtors(p *pkg, facts *Facts) {
	// pool getters: func getX() *X { return xPool.Get().(*X) }
	getters := map[string]bool{}
	singletons := map[types.Object]bool{}
	for _, f := range p.files {
		for _, d := range f.Decls {
			switch d := d.(type) {
			case *ast.FuncDecl:
				if d.Recv == nil && strings.HasPrefix(d.Name.Name, "get") && d.Body != nil && len(d.Body.List) == 1 {
					if rs, ok := d.Body.List[0].(*ast.ReturnStmt); ok && len(rs.Results) == 1 {
						if ta, ok := rs.Results[0].(*ast.TypeAssertExpr); ok {
							if c, ok := ta.X.(*ast.CallExpr); ok {
								if se, ok := c.Fun.(*ast.SelectorExpr); ok && se.Sel.Name == "Get" {
									getters[d.Name.Name] = true
									poolOf[d.Name.Name] = types.ExprString(se.X)
									pooledTypes[strings.TrimPrefix(d.Name.Name, "get")] = true
								}
							}
						}
					}
				}
			case *ast.GenDecl:
				if d.Tok != token.VAR {
					continue
				}
				for _, s := range d.Specs {
					vs := s.(*ast.ValueSpec)
					for i, n := range vs.Names {
						if i < len(vs.Values) {
							if u, ok := vs.Values[i].(*ast.UnaryExpr); ok && u.Op == token.AND {
								if _, ok := u.X.(*ast.CompositeLit); ok {
									singletons[p.info.Defs[n]] = true
								}
							}
						}
					}
				}
			}
		}
	}
	for t := range pooledTypes {
		facts.Pooled = append(facts.Pooled, t)
	}
	sort.Strings(facts.Pooled)

	var decls []*ast.FuncDecl
	for _, f := range p.files {
		for _, d := range f.Decls {
			if fd, ok := d.(*ast.FuncDecl); ok && fd.Recv == nil && fd.Body != nil && isCtorName(fd.Name.Name) && returnsPrimaryLike(p, fd) {
				decls = append(decls, fd)
			}
		}
	}
	sort.Slice(decls, func(i, j int) bool { return decls[i].Name.Name < decls[j].Name.Name })
	for i, fd := range decls {
		ctorIDs[fd.Name.Name] = i + 1
	}
	for _, fd := range decls {
		c := Ctor{ID: ctorIDs[fd.Name.Name], Name: fd.Name.Name, File: p.relFile(fd.Pos()), Line: p.line(fd.Pos())}
		ast.Inspect(fd.Body, func(n ast.Node) bool {
			if _, ok := n.(*ast.FuncLit); ok {
				return false // returns of nested closures are not returns of the constructor
			}
			rs, ok := n.(*ast.ReturnStmt)
			if !ok {
				return true
			}
			r := Ret{Kind: "other", Line: p.line(rs.Pos())}
			if len(rs.Results) != 1 {
				r.Text = "<naked or multi-value return>"
				c.Rets = append(c.Rets, r)
				return true
			}
			e := ast.Unparen(rs.Results[0])
			r.Text = types.ExprString(e)
			switch e := e.(type) {
			case *ast.CallExpr:
				if o, ok := p.callee(e).(*types.Func); ok && isValuePkg(o.Pkg()) && ctorIDs[o.Name()] != 0 {
					r.Kind, r.Ctor = "ctor", o.Name()
				}
			case *ast.Ident:
				o := p.info.Uses[e]
				if singletons[o] {
					r.Kind = "singleton"
				} else if v, ok := o.(*types.Var); ok && v.Parent() != p.tpkg.Scope() {
					// a local: fresh iff its only definition is x := getX() and it is not used
					// otherwise than through field initialisation before the return
					if p.localFromGetter(fd, v, getters) {
						r.Kind = "poolget"
					}
				}
			}
			c.Rets = append(c.Rets, r)
			return true
		})
		if len(c.Rets) == 0 {
			c.Rets = append(c.Rets, Ret{Kind: "other", Line: c.Line, Text: "<no return statement>"})
		}
		facts.Ctors = append(facts.Ctors, c)
	}

	// every assignment to a field of a pooled cell type
	for _, f := range p.files {
		ast.Inspect(f, func(n ast.Node) bool {
			var lhs []ast.Expr
			switch s := n.(type) {
			case *ast.AssignStmt:
				lhs = s.Lhs
			case *ast.IncDecStmt:
				lhs = []ast.Expr{s.X}
			default:
				return true
			}
			for _, l := range lhs {
				se, ok := ast.Unparen(l).(*ast.SelectorExpr)
				if !ok {
					continue
				}
				sel := p.info.Selections[se]
				if sel == nil || sel.Kind() != types.FieldVal {
					continue
				}
				recv := sel.Recv()
				if pt, ok := recv.(*types.Pointer); ok {
					recv = pt.Elem()
				}
				nt, ok := recv.(*types.Named)
				if !ok || !isValuePkg(nt.Obj().Pkg()) || !pooledTypes[nt.Obj().Name()] {
					continue
				}
				fd, _ := p.enclosing(n)
				cw := CWrite{File: p.relFile(n.Pos()), Line: p.line(n.Pos()), Func: funcName(fd), Lhs: types.ExprString(l)}
				if id, ok := ast.Unparen(se.X).(*ast.Ident); ok && fd != nil {
					if v, ok := p.info.Uses[id].(*types.Var); ok {
						cw.Fresh = p.localFromGetter(fd, v, getters)
					}
				}
				facts.CWrites = append(facts.CWrites, cw)
			}
			return true
		})
	}
	// every Put into one of the pools, anywhere in lib/value: allowed only inside Discard, as
	// `case *T: xPool.Put(p)` with T pooled and xPool the pool that getT() reads
	pools := map[string]bool{}
	for _, pv := range poolOf {
		pools[pv] = true
	}
	for _, f := range p.files {
		ast.Inspect(f, func(n ast.Node) bool {
			c, ok := n.(*ast.CallExpr)
			if !ok {
				return true
			}
			se, ok := c.Fun.(*ast.SelectorExpr)
			if !ok || se.Sel.Name != "Put" || !pools[types.ExprString(se.X)] {
				return true
			}
			fd, _ := p.enclosing(c)
			cw := CWrite{File: p.relFile(c.Pos()), Line: p.line(c.Pos()), Func: funcName(fd), Lhs: types.ExprString(c)}
			var cc *ast.CaseClause
			for cur := p.parents[c]; cur != nil && cc == nil; cur = p.parents[cur] {
				cc, _ = cur.(*ast.CaseClause)
			}
			if fd != nil && fd.Recv == nil && fd.Name.Name == "Discard" && cc != nil && len(cc.List) == 1 {
				if st, ok := cc.List[0].(*ast.StarExpr); ok {
					if id, ok := st.X.(*ast.Ident); ok && pooledTypes[id.Name] && types.ExprString(se.X) == poolOf["get"+id.Name] {
						cw.Fresh = true
						cw.Lhs = "case *" + id.Name + ": " + cw.Lhs
					}
				}
			}
			facts.CWrites = append(facts.CWrites, cw)
			return true
		})
	}
	sort.Slice(facts.CWrites, func(i, j int) bool {
		a, b := facts.CWrites[i], facts.CWrites[j]
		return a.File < b.File || a.File == b.File && a.Line < b.Line
	})
	for i := range facts.CWrites {
		facts.CWrites[i].ID = 3001 + i
	}
}

func returnsPrimaryLike(p *pkg, fd *ast.FuncDecl) bool {
	o, ok := p.info.Defs[fd.Name].(*types.Func)
	if !ok {
		return false
	}
	res := o.Type().(*types.Signature).Results()
	if res.Len() != 1 {
		return false
	}
	t := res.At(0).Type()
	if pt, ok := t.(*types.Pointer); ok {
		t = pt.Elem()
	}
	nt, ok := t.(*types.Named)
	if !ok || !isValuePkg(nt.Obj().Pkg()) {
		return false
	}
	if nt.Obj().Name() == "Primary" {
		return true
	}
	// pointer to a type implementing Primary
	prim := p.tpkg.Scope().Lookup("Primary")
	if prim == nil {
		return false
	}
	iface, ok := prim.Type().Underlying().(*types.Interface)
	return ok && (types.Implements(nt, iface) || types.Implements(types.NewPointer(nt), iface))
}

// localFromGetter: v is a local of fd whose single definition is `v := getX()` and whose every other
// occurrence is `v.field = ...` (initialisation) or `return v`
func (p *pkg) localFromGetter(fd *ast.FuncDecl, v *types.Var, getters map[string]bool) bool {
	defs, ok := 0, true
	ast.Inspect(fd.Body, func(n ast.Node) bool {
		id, isId := n.(*ast.Ident)
		if !isId {
			return true
		}
		if p.info.Defs[id] == v {
			defs++
			as, isAs := p.parents[id].(*ast.AssignStmt)
			if !isAs || len(as.Lhs) != 1 || len(as.Rhs) != 1 {
				ok = false
				return true
			}
			c, isCall := ast.Unparen(as.Rhs[0]).(*ast.CallExpr)
			if !isCall {
				ok = false
				return true
			}
			fi, isIdent := c.Fun.(*ast.Ident)
			if !isIdent || !getters[fi.Name] {
				ok = false
			}
			return true
		}
		if p.info.Uses[id] != v {
			return true
		}
		switch par := p.parents[id].(type) {
		case *ast.ReturnStmt:
		case *ast.SelectorExpr:
			as, isAs := p.parents[par].(*ast.AssignStmt)
			if !isAs || as.Tok != token.ASSIGN || len(as.Lhs) != 1 || as.Lhs[0] != ast.Expr(par) {
				ok = false
			}
		default:
			ok = false
		}
		return true
	})
	return ok && defs == 1
}

// ---- Discard call sites -------------------------------------------------------------------------
type occ struct {
	id   *ast.Ident
	kind string // read | discard | escape
	why  string
}

type varFacts struct {
	obj   *types.Var
	defs  []DefSrc
	defAt []ast.Node // nodes (statement / spec) that define or assign the variable
	occs  []occ      // every non-defining occurrence
}

// collect everything about one local variable inside a top-level function
func (p *pkg) varFactsOf(fd *ast.FuncDecl, v *types.Var, depth int) *varFacts {
	vf := &varFacts{obj: v}
	ast.Inspect(fd, func(n ast.Node) bool {
		id, ok := n.(*ast.Ident)
		if !ok {
			return true
		}
		if p.info.Defs[id] == v {
			d, at := p.defSource(fd, id, depth)
			vf.defs = append(vf.defs, d...)
			vf.defAt = append(vf.defAt, at)
			return true
		}
		if p.info.Uses[id] != v {
			return true
		}
		// plain assignment  v = rhs  /  v, err = f()
		if as, ok := p.parents[id].(*ast.AssignStmt); ok {
			for _, l := range as.Lhs {
				if l == ast.Expr(id) {
					d, at := p.defSource(fd, id, depth)
					vf.defs = append(vf.defs, d...)
					vf.defAt = append(vf.defAt, at)
					return true
				}
			}
		}
		k, why := p.classifyUse(id)
		vf.occs = append(vf.occs, occ{id, k, why})
		return true
	})
	// variables introduced by a type switch (`switch x := y.(type)`) have one implicit object per clause
	if len(vf.defs) == 0 {
		vf.defs = append(vf.defs, DefSrc{Kind: "other", Line: p.line(v.Pos()), Why: "no syntactic definition found (parameter of a closure, type-switch variable ...)"})
	}
	// captured by a closure that does not contain its definition?
	declLit := p.innermostLit(fd, v.Pos())
	for i, o := range vf.occs {
		if p.innermostLit(fd, o.id.Pos()) != declLit {
			vf.occs[i].kind, vf.occs[i].why = "escape", "captured by a function literal"
		}
	}
	return vf
}

func (p *pkg) innermostLit(fd *ast.FuncDecl, pos token.Pos) *ast.FuncLit {
	var lit *ast.FuncLit
	ast.Inspect(fd, func(n ast.Node) bool {
		if n == nil {
			return true
		}
		if n.Pos() > pos || pos >= n.End() {
			return false
		}
		if l, ok := n.(*ast.FuncLit); ok {
			lit = l
		}
		return true
	})
	return lit
}

// defSource classifies the right-hand side that defines/assigns the identifier id
func (p *pkg) defSource(fd *ast.FuncDecl, id *ast.Ident, depth int) ([]DefSrc, ast.Node) {
	ln := p.line(id.Pos())
	other := func(why string) []DefSrc { return []DefSrc{{Kind: "other", Line: ln, Why: why}} }
	switch par := p.parents[id].(type) {
	case *ast.AssignStmt:
		if par.Tok != token.DEFINE && par.Tok != token.ASSIGN {
			return other("compound assignment"), par
		}
		if len(par.Lhs) != len(par.Rhs) {
			return other("one of several results of " + types.ExprString(par.Rhs[0])), par
		}
		for i, l := range par.Lhs {
			if l == ast.Expr(id) {
				return p.classifyRhs(fd, par.Rhs[i], depth), par
			}
		}
		return other("left-hand side not found"), par
	case *ast.ValueSpec:
		if len(par.Values) == 0 {
			return []DefSrc{{Kind: "nil", Line: ln}}, par
		}
		if len(par.Values) != len(par.Names) {
			return other("one of several results"), par
		}
		for i, n := range par.Names {
			if n == id {
				return p.classifyRhs(fd, par.Values[i], depth), par
			}
		}
		return other("name not found"), par
	case *ast.Field:
		return other("parameter or result of the function"), par
	case *ast.RangeStmt:
		return other("range variable"), par
	default:
		return other(fmt.Sprintf("defined by %T", par)), par
	}
}

func (p *pkg) classifyRhs(fd *ast.FuncDecl, e ast.Expr, depth int) []DefSrc {
	e = ast.Unparen(e)
	ln := p.line(e.Pos())
	switch e := e.(type) {
	case *ast.Ident:
		if e.Name == "nil" && p.info.Uses[e] == types.Universe.Lookup("nil") {
			return []DefSrc{{Kind: "nil", Line: ln}}
		}
		// alias of another local: fresh only if that local is itself fresh, used for nothing else
		if v, ok := p.info.Uses[e].(*types.Var); ok && depth > 0 && v.Parent() != p.tpkg.Scope() && !v.IsField() {
			return p.transferredLocal(fd, v, depth-1, "assigned from "+e.Name)
		}
	case *ast.CallExpr:
		if o, ok := p.callee(e).(*types.Func); ok && isValuePkg(o.Pkg()) {
			if sig := o.Type().(*types.Signature); sig.Recv() == nil && isCtorName(o.Name()) {
				return []DefSrc{{Kind: "ctor", Ctor: o.Name(), Line: ln}}
			}
		}
		// call of a local closure: flatten its return statements
		if fi, ok := ast.Unparen(e.Fun).(*ast.Ident); ok && depth > 0 {
			if v, ok := p.info.Uses[fi].(*types.Var); ok {
				if lit := p.singleFuncLit(fd, v); lit != nil {
					var out []DefSrc
					ast.Inspect(lit.Body, func(n ast.Node) bool {
						if l, ok := n.(*ast.FuncLit); ok && l != lit {
							return false
						}
						rs, ok := n.(*ast.ReturnStmt)
						if !ok {
							return true
						}
						if len(rs.Results) != 1 {
							out = append(out, DefSrc{Kind: "other", Line: p.line(rs.Pos()), Why: "closure returns several values"})
							return true
						}
						r := ast.Unparen(rs.Results[0])
						if rid, ok := r.(*ast.Ident); ok {
							if rv, ok := p.info.Uses[rid].(*types.Var); ok && rv.Parent() != p.tpkg.Scope() {
								out = append(out, p.transferredLocal(fd, rv, depth-1, "returned by closure "+fi.Name)...)
								return true
							}
						}
						out = append(out, p.classifyRhs(fd, r, depth-1)...)
						return true
					})
					if len(out) > 0 {
						return out
					}
				}
			}
		}
		return []DefSrc{{Kind: "other", Line: ln, Why: "result of " + types.ExprString(e.Fun)}}
	}
	return []DefSrc{{Kind: "other", Line: ln, Why: "expression " + types.ExprString(e)}}
}

// transferredLocal: the local v is handed over (returned by a closure / assigned) exactly once; the
// receiver is as fresh as v provided v is otherwise only read and never discarded itself
func (p *pkg) transferredLocal(fd *ast.FuncDecl, v *types.Var, depth int, how string) []DefSrc {
	vf := p.varFactsOf(fd, v, depth)
	transfers := 0
	for _, o := range vf.occs {
		switch o.kind {
		case "read":
		case "escape":
			if o.why == "returned" || o.why == "stored" {
				transfers++
			} else {
				return []DefSrc{{Kind: "other", Line: p.line(o.id.Pos()), Why: how + ": " + v.Name() + " also " + o.why}}
			}
		default:
			return []DefSrc{{Kind: "other", Line: p.line(o.id.Pos()), Why: how + ": " + v.Name() + " is also discarded"}}
		}
	}
	if transfers != 1 {
		return []DefSrc{{Kind: "other", Line: p.line(v.Pos()), Why: fmt.Sprintf("%s: %s handed over %d times", how, v.Name(), transfers)}}
	}
	return vf.defs
}

func (p *pkg) singleFuncLit(fd *ast.FuncDecl, v *types.Var) *ast.FuncLit {
	var lit *ast.FuncLit
	n := 0
	ast.Inspect(fd, func(x ast.Node) bool {
		id, ok := x.(*ast.Ident)
		if !ok {
			return true
		}
		isDef := p.info.Defs[id] == v
		if !isDef && p.info.Uses[id] == v {
			if as, ok := p.parents[id].(*ast.AssignStmt); ok {
				for _, l := range as.Lhs {
					if l == ast.Expr(id) {
						isDef = true
					}
				}
			}
		}
		if !isDef {
			return true
		}
		n++
		if as, ok := p.parents[id].(*ast.AssignStmt); ok && len(as.Lhs) == 1 && len(as.Rhs) == 1 {
			if l, ok := ast.Unparen(as.Rhs[0]).(*ast.FuncLit); ok {
				lit = l
			}
		}
		return true
	})
	if n == 1 {
		return lit
	}
	return nil
}

var pureReaders = map[string]bool{"IsNull": true, "IsTrue": true, "IsFalse": true, "IsUnknown": true}

// classifyUse: what a non-defining occurrence of the variable does with the pointer
func (p *pkg) classifyUse(id *ast.Ident) (string, string) {
	var child ast.Node = id
	par := p.parents[id]
	for {
		if pe, ok := par.(*ast.ParenExpr); ok {
			child, par = pe, p.parents[pe]
			continue
		}
		break
	}
	switch t := par.(type) {
	case *ast.CallExpr:
		if t.Fun == child {
			return "escape", "called as a function"
		}
		if p.isValueFunc(t, "Discard") {
			return "discard", ""
		}
		if o, ok := p.callee(t).(*types.Func); ok && isValuePkg(o.Pkg()) && pureReaders[o.Name()] {
			return "read", ""
		}
		return "escape", "passed to " + types.ExprString(t.Fun)
	case *ast.TypeAssertExpr:
		if t.X != child {
			return "escape", "type position"
		}
		// x.(*T).Method(...) with a value receiver reads the cell and keeps nothing
		if se, ok := p.parents[t].(*ast.SelectorExpr); ok && se.X == ast.Expr(t) {
			if c, ok := p.parents[se].(*ast.CallExpr); ok && c.Fun == ast.Expr(se) {
				if sel := p.info.Selections[se]; sel != nil && sel.Kind() == types.MethodVal {
					if f, ok := sel.Obj().(*types.Func); ok {
						if r := f.Type().(*types.Signature).Recv(); r != nil {
							if _, isPtr := r.Type().(*types.Pointer); !isPtr {
								return "read", ""
							}
						}
					}
				}
			}
		}
		return "escape", "aliased through a type assertion"
	case *ast.SelectorExpr:
		if t.X == child {
			if c, ok := p.parents[t].(*ast.CallExpr); ok && c.Fun == ast.Expr(t) {
				return "read", "" // method of the Primary interface (String / Ternary): value receivers
			}
			return "escape", "method value or field"
		}
		return "escape", "selector"
	case *ast.BinaryExpr:
		if t.Op == token.EQL || t.Op == token.NEQ {
			return "read", ""
		}
		return "escape", "operand"
	case *ast.ReturnStmt:
		return "escape", "returned"
	case *ast.AssignStmt:
		return "escape", "stored"
	case *ast.ValueSpec:
		return "escape", "stored"
	case *ast.CompositeLit, *ast.KeyValueExpr:
		return "escape", "stored in a composite literal"
	case *ast.SendStmt:
		return "escape", "sent on a channel"
	case *ast.UnaryExpr:
		return "escape", "address taken"
	case *ast.TypeSwitchStmt, *ast.ExprStmt:
		return "read", ""
	}
	return "escape", fmt.Sprintf("used in %T", par)
}

// usesAfter: occurrences of the variable that can execute after the Discard statement st.
// Structured walk: following statements of every enclosing statement list, cut at an unconditional
// return/panic; a loop whose body contains st but not the variable's definition makes every
// occurrence in the loop (including st itself) reachable again.
func (p *pkg) usesAfter(st ast.Stmt, self *ast.Ident, vf *varFacts) (after []string, unknown string) {
	inRange := func(n ast.Node) []occ {
		var out []occ
		for _, o := range vf.occs {
			if o.id != self && n.Pos() <= o.id.Pos() && o.id.Pos() < n.End() {
				out = append(out, o)
			}
		}
		return out
	}
	report := func(os []occ, how string) {
		for _, o := range os {
			after = append(after, fmt.Sprintf("line %d (%s%s)", p.line(o.id.Pos()), o.kind, how))
		}
	}
	terminates := func(s ast.Stmt) bool {
		switch s := s.(type) {
		case *ast.ReturnStmt:
			return true
		case *ast.ExprStmt:
			if c, ok := s.X.(*ast.CallExpr); ok {
				if id, ok := c.Fun.(*ast.Ident); ok && id.Name == "panic" {
					return true
				}
			}
		}
		return false
	}
	var cur ast.Node = st
	for {
		par := p.parents[cur]
		var list []ast.Stmt
		switch t := par.(type) {
		case *ast.BlockStmt:
			list = t.List
			switch p.parents[t].(type) {
			case *ast.SwitchStmt, *ast.TypeSwitchStmt, *ast.SelectStmt:
				list = nil // the clauses of a switch are alternatives, not successors
			}
		case *ast.CaseClause:
			list = t.Body
			for _, s := range t.Body {
				if b, ok := s.(*ast.BranchStmt); ok && b.Tok == token.FALLTHROUGH {
					unknown = "fallthrough"
				}
			}
		case *ast.IfStmt, *ast.SwitchStmt, *ast.TypeSwitchStmt:
		case *ast.ForStmt, *ast.RangeStmt:
			definedInside := false
			for _, d := range vf.defAt {
				if d != nil && par.Pos() <= d.Pos() && d.Pos() < par.End() {
					definedInside = true
				}
			}
			if !definedInside {
				report(inRange(par), ", next iteration of the enclosing loop")
				after = append(after, fmt.Sprintf("line %d (discarded again by the next iteration)", p.line(st.Pos())))
			}
			if fs, ok := par.(*ast.ForStmt); ok && fs.Post != nil && cur != ast.Node(fs.Post) {
				report(inRange(fs.Post), ", loop post statement")
			}
		case *ast.FuncLit, *ast.FuncDecl:
			return
		case *ast.LabeledStmt:
			unknown = "labelled statement"
		case *ast.CommClause, *ast.SelectStmt:
			unknown = "select statement"
		case nil:
			return
		default:
			unknown = fmt.Sprintf("enclosed by %T", par)
			return
		}
		if list != nil {
			idx := -1
			for i, s := range list {
				if ast.Node(s) == cur {
					idx = i
				}
			}
			stop := false
			for _, s := range list[idx+1:] {
				report(inRange(s), "")
				if terminates(s) {
					stop = true
					break
				}
				ast.Inspect(s, func(n ast.Node) bool {
					if b, ok := n.(*ast.BranchStmt); ok && b.Tok == token.GOTO {
						unknown = "goto"
					}
					return true
				})
			}
			if stop {
				return
			}
		}
		cur = par
	}
}

func (p *pkg) analyseSites(facts *Facts) {
	type found struct {
		call *ast.CallExpr
		file *ast.File
	}
	var calls []found
	for _, f := range p.files {
		ast.Inspect(f, func(n ast.Node) bool {
			if c, ok := n.(*ast.CallExpr); ok && p.isValueFunc(c, "Discard") {
				calls = append(calls, found{c, f})
			}
			return true
		})
	}
	sort.Slice(calls, func(i, j int) bool { return calls[i].call.Pos() < calls[j].call.Pos() })
	// value.Discard mentioned otherwise than as the callee of a call (passed around as a function value)
	for _, f := range p.files {
		ast.Inspect(f, func(n ast.Node) bool {
			id, ok := n.(*ast.Ident)
			if !ok {
				return true
			}
			o, ok := p.info.Uses[id].(*types.Func)
			if !ok || !isValuePkg(o.Pkg()) || o.Name() != "Discard" || o.Type().(*types.Signature).Recv() != nil {
				return true
			}
			var ref ast.Node = id
			if se, ok := p.parents[id].(*ast.SelectorExpr); ok && se.Sel == id {
				ref = se
			}
			if c, ok := p.parents[ref].(*ast.CallExpr); ok && c.Fun == ref {
				return true
			}
			fd, _ := p.enclosing(id)
			s := Site{File: p.relFile(id.Pos()), Line: p.line(id.Pos()), Func: funcName(fd), Shape: "other", Var: "<function value>",
				Defs: []DefSrc{{Kind: "other", Line: p.line(id.Pos()), Why: "value.Discard is used as a function value: its arguments cannot be tracked"}}}
			s.Identity = fmt.Sprintf("%s:%s:<function value>#%d", s.File, s.Func, s.Line)
			s.Sig = siteSig(s)
			facts.Sites = append(facts.Sites, s)
			return true
		})
	}
	count := map[string]int{}
	for _, fc := range calls {
		c := fc.call
		fd, lit := p.enclosing(c)
		s := Site{File: p.relFile(c.Pos()), Line: p.line(c.Pos()), Func: funcName(fd), Shape: "other"}
		s.Var = "<none>"
		if len(c.Args) == 1 {
			s.Var = types.ExprString(c.Args[0])
		}
		key := fmt.Sprintf("%s:%s:%s", s.File, s.Func, s.Var)
		count[key]++
		s.Identity = fmt.Sprintf("%s#%d", key, count[key])

		var st ast.Stmt
		deferred := false
		switch par := p.parents[c].(type) {
		case *ast.ExprStmt:
			st = par
		case *ast.DeferStmt:
			st, deferred = par, true
		}
		var id *ast.Ident
		isIdent := false
		if len(c.Args) == 1 {
			id, isIdent = ast.Unparen(c.Args[0]).(*ast.Ident)
		}
		var v *types.Var
		if isIdent {
			v, _ = p.info.Uses[id].(*types.Var)
		}
		switch {
		case fd == nil || st == nil || v == nil || v.IsField() || v.Parent() == p.tpkg.Scope():
			why := "argument is not a local variable"
			if st == nil {
				why = "call is not a statement of its own"
			}
			s.Defs = []DefSrc{{Kind: "other", Line: s.Line, Why: why}}
			if !isIdent && fd != nil && len(c.Args) == 1 {
				// element of a local array/slice: report how the container is filled
				s.Defs[0].Why = "argument is the expression " + s.Var
			}
			if lit != nil {
				s.Escapes = append(s.Escapes, "inside a function literal")
			}
		default:
			vf := p.varFactsOf(fd, v, 2)
			s.Defs = vf.defs
			if deferred {
				s.Shape = "defer-ident"
			} else {
				s.Shape = "ident"
			}
			for _, o := range vf.occs {
				if o.kind == "escape" {
					// `return x` ends the function: on that path the (non-deferred) Discard does not run
					// afterwards, and a return that can run AFTER the call is reported as a use-after
					if o.why == "returned" && !deferred {
						continue
					}
					s.Escapes = append(s.Escapes, fmt.Sprintf("line %d: %s", p.line(o.id.Pos()), o.why))
				}
			}
			if deferred {
				// a deferred Discard runs when the function returns: nothing in the function runs after
				// it, but a second registration (defer inside a loop) would discard twice
				for cur := p.parents[st]; cur != nil; cur = p.parents[cur] {
					switch cur.(type) {
					case *ast.ForStmt, *ast.RangeStmt:
						s.UseAfter = append(s.UseAfter, fmt.Sprintf("line %d (defer inside a loop)", s.Line))
					}
					if _, ok := cur.(*ast.FuncLit); ok {
						break
					}
				}
			} else {
				after, unknown := p.usesAfter(st, id, vf)
				s.UseAfter = after
				if unknown != "" {
					s.Shape = "other"
					s.Defs = append(s.Defs, DefSrc{Kind: "other", Line: s.Line, Why: "control flow not analysable: " + unknown})
				}
			}
		}
		sort.SliceStable(s.Defs, func(i, j int) bool { return s.Defs[i].Line < s.Defs[j].Line })
		s.Sig = siteSig(s)
		facts.Sites = append(facts.Sites, s)
	}
}

func siteSig(s Site) string {
	var ds []string
	for _, d := range s.Defs {
		if d.Kind == "ctor" {
			ds = append(ds, "ctor:"+d.Ctor)
		} else {
			ds = append(ds, d.Kind)
		}
	}
	return fmt.Sprintf("%s|%s|escapes=%d|after=%d", s.Shape, strings.Join(ds, ","), len(s.Escapes), len(s.UseAfter))
}

// ---- writes through the syntax tree -------------------------------------------------------------
func mentionsParser(t types.Type, seen map[types.Type]bool) bool {
	if t == nil || seen[t] {
		return false
	}
	seen[t] = true
	switch t := t.(type) {
	case *types.Named:
		if isParserPkg(t.Obj().Pkg()) {
			return true
		}
		return false
	case *types.Pointer:
		return mentionsParser(t.Elem(), seen)
	case *types.Slice:
		return mentionsParser(t.Elem(), seen)
	case *types.Array:
		return mentionsParser(t.Elem(), seen)
	case *types.Map:
		return mentionsParser(t.Elem(), seen) // a map KEYED by nodes (a cache) is not part of the tree
	}
	return false
}

func (p *pkg) typeOf(e ast.Expr) types.Type {
	if tv, ok := p.info.Types[e]; ok {
		return tv.Type
	}
	if id, ok := e.(*ast.Ident); ok {
		if o := p.info.Uses[id]; o != nil {
			return o.Type()
		}
	}
	return nil
}

// classifyTarget walks the left-hand side from the written location down to its root variable
func (p *pkg) classifyTarget(fd *ast.FuncDecl, lhs ast.Expr) (isParser bool, class string, why string) {
	e := ast.Unparen(lhs)
	type step struct {
		shared bool
		what   string
		cont   ast.Expr
	}
	var steps []step
	var root ast.Expr
	for root == nil {
		switch t := e.(type) {
		case *ast.ParenExpr:
			e = t.X
		case *ast.IndexExpr:
			ct := p.typeOf(t.X)
			sh := false
			if ct != nil {
				switch u := ct.Underlying().(type) {
				case *types.Slice, *types.Map:
					sh = true
				case *types.Pointer:
					_ = u
					sh = true
				}
			}
			steps = append(steps, step{sh, "element of " + types.ExprString(t.X), t.X})
			e = t.X
		case *ast.SelectorExpr:
			if id, ok := t.X.(*ast.Ident); ok {
				if _, isPkg := p.info.Uses[id].(*types.PkgName); isPkg {
					root = t
					continue
				}
			}
			ct := p.typeOf(t.X)
			sh := false
			if ct != nil {
				if _, ok := ct.Underlying().(*types.Pointer); ok {
					sh = true
				}
			}
			steps = append(steps, step{sh, "field of " + types.ExprString(t.X), t.X})
			e = t.X
		case *ast.StarExpr:
			steps = append(steps, step{true, "pointee of " + types.ExprString(t.X), t.X})
			e = t.X
		default:
			root = e
		}
	}
	if len(steps) == 0 {
		return false, "", ""
	}
	// does any container on the path belong to the parser's data structures?
	for _, s := range steps {
		if mentionsParser(p.typeOf(s.cont), map[types.Type]bool{}) {
			isParser = true
		}
	}
	if !isParser {
		return false, "", ""
	}
	// shared iff a sharing step has a parser-typed container at or below it (towards the root)
	for i, s := range steps {
		if !s.shared {
			continue
		}
		for _, below := range steps[i:] {
			if mentionsParser(p.typeOf(below.cont), map[types.Type]bool{}) {
				class, why = "shared", s.what+" (slice, map or pointer: storage shared with the stored program)"
			}
		}
	}
	if class == "" {
		return true, "local-copy", "field of a by-value local copy of a syntax-tree node"
	}
	// exemption: the root is a local whose every definition builds a fresh container
	if id, ok := root.(*ast.Ident); ok && fd != nil {
		if v, ok := p.info.Uses[id].(*types.Var); ok && v.Parent() != p.tpkg.Scope() && !v.IsField() {
			if p.localBuiltFresh(fd, v) && len(steps) == 1 {
				return true, "local-fresh", "element of a container built by make/composite literal in the same function"
			}
		}
	}
	return true, class, why
}

// localBuiltFresh: every definition/assignment of v is make(...), a composite literal, or
// append(v, ...) of itself
func (p *pkg) localBuiltFresh(fd *ast.FuncDecl, v *types.Var) bool {
	ok, n := true, 0
	check := func(rhs ast.Expr) {
		n++
		switch r := ast.Unparen(rhs).(type) {
		case *ast.CompositeLit:
			return
		case *ast.CallExpr:
			if id, isId := r.Fun.(*ast.Ident); isId {
				if _, isB := p.info.Uses[id].(*types.Builtin); isB {
					if id.Name == "make" {
						return
					}
					if id.Name == "append" && len(r.Args) > 0 {
						if a, isA := ast.Unparen(r.Args[0]).(*ast.Ident); isA && p.info.Uses[a] == v {
							return
						}
					}
				}
			}
		}
		ok = false
	}
	ast.Inspect(fd, func(x ast.Node) bool {
		id, isId := x.(*ast.Ident)
		if !isId {
			return true
		}
		isDef := p.info.Defs[id] == v
		if !isDef && p.info.Uses[id] != v {
			return true
		}
		switch par := p.parents[id].(type) {
		case *ast.AssignStmt:
			for i, l := range par.Lhs {
				if l == ast.Expr(id) {
					if len(par.Lhs) != len(par.Rhs) {
						ok = false
						n++
					} else {
						check(par.Rhs[i])
					}
				}
			}
		case *ast.ValueSpec:
			for i, nm := range par.Names {
				if nm == id {
					if len(par.Values) == 0 {
						n++ // nil slice, grown by append
					} else if len(par.Values) != len(par.Names) {
						ok = false
					} else {
						check(par.Values[i])
					}
				}
			}
		case *ast.Field, *ast.RangeStmt:
			if isDef {
				ok = false
			}
		}
		return true
	})
	return ok && n > 0
}

func (p *pkg) analyseWrites(facts *Facts) {
	for _, f := range p.files {
		ast.Inspect(f, func(n ast.Node) bool {
			var targets []ast.Expr
			switch s := n.(type) {
			case *ast.AssignStmt:
				targets = s.Lhs
			case *ast.IncDecStmt:
				targets = []ast.Expr{s.X}
			case *ast.RangeStmt:
				if s.Tok == token.ASSIGN {
					if s.Key != nil {
						targets = append(targets, s.Key)
					}
					if s.Value != nil {
						targets = append(targets, s.Value)
					}
				}
			case *ast.CallExpr:
				if id, ok := s.Fun.(*ast.Ident); ok && id.Name == "copy" && len(s.Args) == 2 {
					if _, isB := p.info.Uses[id].(*types.Builtin); isB {
						// copy(dst, src) writes the elements of dst
						targets = []ast.Expr{&ast.IndexExpr{X: s.Args[0], Index: &ast.BasicLit{Kind: token.INT, Value: "0"}}}
					}
				}
			default:
				return true
			}
			fd, _ := p.enclosing(n)
			for _, t := range targets {
				if _, ok := ast.Unparen(t).(*ast.Ident); ok {
					continue
				}
				isParser, class, why := p.classifyTarget(fd, t)
				if !isParser {
					continue
				}
				w := AWrite{File: p.relFile(n.Pos()), Line: p.line(n.Pos()), Func: funcName(fd), Lhs: types.ExprString(t), Class: class, Why: why}
				w.Identity = fmt.Sprintf("%s:%s:%s", w.File, w.Func, w.Lhs)
				facts.AWrites = append(facts.AWrites, w)
			}
			return true
		})
	}
}

// ---- output ------------------------------------------------------------------------------------
func coqBool(b bool) string {
	if b {
		return "true"
	}
	return "false"
}

func emitCoq(facts *Facts) string {
	var b strings.Builder
	b.WriteString("(* GENERATED by /verif/translator from " + facts.Repo + " -- do not edit.\n   Fact base of C14: constructors of lib/value, every value.Discard call site, every write through a\n   lib/parser value, every write to a pooled cell. *)\n")
	b.WriteString("From Coq Require Import NArith List.\nImport ListNotations.\nRequire Import Csvq.Model.Pool Csvq.Harness.H14.\nOpen Scope N_scope.\n\n")
	b.WriteString("Definition ctors : list ctor := [\n")
	for i, c := range facts.Ctors {
		var rs []string
		for _, r := range c.Rets {
			switch r.Kind {
			case "poolget":
				rs = append(rs, "RPoolGet")
			case "singleton":
				rs = append(rs, "RSingleton")
			case "ctor":
				rs = append(rs, fmt.Sprintf("RCtor %d", ctorIDs[r.Ctor]))
			default:
				rs = append(rs, "ROther")
			}
		}
		sep := ";"
		if i == len(facts.Ctors)-1 {
			sep = ""
		}
		b.WriteString(fmt.Sprintf("  mkCtor %d [%s]%s  (* %s %s:%d *)\n", c.ID, strings.Join(rs, "; "), sep, c.Name, c.File, c.Line))
	}
	b.WriteString("].\n\nDefinition sites : list site := [\n")
	for i, s := range facts.Sites {
		var ds []string
		for _, d := range s.Defs {
			switch d.Kind {
			case "ctor":
				ds = append(ds, fmt.Sprintf("DCtor %d", ctorIDs[d.Ctor]))
			case "nil":
				ds = append(ds, "DNil")
			default:
				ds = append(ds, "DOther")
			}
		}
		shape := map[string]string{"ident": "ShIdent", "defer-ident": "ShDefer", "other": "ShOther"}[s.Shape]
		sep := ";"
		if i == len(facts.Sites)-1 {
			sep = ""
		}
		b.WriteString(fmt.Sprintf("  mkSite %d %s [%s] %s %s %s%s  (* %s:%d %s %s *)\n", s.ID, shape, strings.Join(ds, "; "),
			coqBool(len(s.Escapes) > 0), coqBool(len(s.UseAfter) > 0), coqBool(s.Allow != ""), sep, s.File, s.Line, s.Func, s.Var))
	}
	b.WriteString("].\n\nDefinition awrites : list awrite := [\n")
	for i, w := range facts.AWrites {
		cl := map[string]string{"shared": "AWShared", "local-copy": "AWLocalCopy", "local-fresh": "AWLocalFresh"}[w.Class]
		sep := ";"
		if i == len(facts.AWrites)-1 {
			sep = ""
		}
		b.WriteString(fmt.Sprintf("  mkAW %d %s%s  (* %s:%d %s: %s *)\n", w.ID, cl, sep, w.File, w.Line, w.Func, w.Lhs))
	}
	b.WriteString("].\n\nDefinition cwrites : list cwrite := [\n")
	for i, w := range facts.CWrites {
		sep := ";"
		if i == len(facts.CWrites)-1 {
			sep = ""
		}
		b.WriteString(fmt.Sprintf("  mkCW %d %s%s  (* %s:%d %s: %s *)\n", w.ID, coqBool(w.Fresh), sep, w.File, w.Line, w.Func, w.Lhs))
	}
	b.WriteString("].\n\n")
	b.WriteString("Definition dyn_failed : bool := false.\n")
	b.WriteString("Definition M := Eval vm_compute in (check_facts dyn_failed ctors sites awrites cwrites).\nPrint M.\n")
	return b.String()
}

func main() {
	repoFlag := flag.String("repo", "/repo", "csvq source tree")
	out := flag.String("out", ".", "output directory")
	allow := flag.String("allow", "", "allowlist (JSON) of Discard sites the analysis cannot classify, with justification")
	flag.Parse()
	var err error
	if repo, err = filepath.Abs(*repoFlag); err != nil {
		fatal("%v", err)
	}
	mod, err := os.ReadFile(filepath.Join(repo, "go.mod"))
	if err != nil {
		fatal("%v", err)
	}
	for _, l := range strings.Split(string(mod), "\n") {
		if strings.HasPrefix(l, "module ") {
			modPath = strings.TrimSpace(strings.TrimPrefix(l, "module "))
			break
		}
	}
	if modPath == "" {
		fatal("no module line in go.mod")
	}
	if *allow != "" {
		if a, err := filepath.Abs(*allow); err == nil {
			*allow = a
		}
	}
	if a, err := filepath.Abs(*out); err == nil {
		*out = a
	}
	if err := os.Chdir(repo); err != nil {
		fatal("%v", err)
	}
	build.Default.Dir = repo
	imp = importer.ForCompiler(fset, "source", nil)

	// which packages call Discard at all?  (syntactic pre-scan of the whole tree)
	pkgSet := map[string]bool{"lib/value": true, "lib/query": true}
	filepath.Walk(repo, func(path string, fi os.FileInfo, err error) error {
		if err != nil {
			return nil
		}
		if fi.IsDir() {
			n := fi.Name()
			if path != repo && (strings.HasPrefix(n, ".") || n == "testdata" || n == "docs" || n == "vendor") {
				return filepath.SkipDir
			}
			return nil
		}
		if !strings.HasSuffix(path, ".go") || strings.HasSuffix(path, "_test.go") {
			return nil
		}
		src, err := os.ReadFile(path)
		if err == nil && strings.Contains(string(src), "value.Discard(") {
			rel, _ := filepath.Rel(repo, filepath.Dir(path))
			pkgSet[rel] = true
		}
		return nil
	})
	var rels []string
	for r := range pkgSet {
		rels = append(rels, r)
	}
	sort.Strings(rels)

	facts := &Facts{Repo: repo, Pkgs: rels}
	// lib/value first: constructor table
	vp := loadPkg("lib/value")
	analyseCtors(vp, facts)
	vp.analyseSites(facts)
	for _, r := range rels {
		if r == "lib/value" {
			continue
		}
		qp := loadPkg(r)
		qp.analyseSites(facts)
		qp.analyseWrites(facts)
	}
	sort.SliceStable(facts.Sites, func(i, j int) bool {
		a, b := facts.Sites[i], facts.Sites[j]
		return a.File < b.File || a.File == b.File && a.Line < b.Line
	})
	for i := range facts.Sites {
		facts.Sites[i].ID = i + 1
	}
	sort.SliceStable(facts.AWrites, func(i, j int) bool {
		a, b := facts.AWrites[i], facts.AWrites[j]
		return a.File < b.File || a.File == b.File && a.Line < b.Line
	})
	for i := range facts.AWrites {
		facts.AWrites[i].ID = 1001 + i
	}

	if *allow != "" {
		raw, err := os.ReadFile(*allow)
		if err != nil {
			fatal("%v", err)
		}
		var al struct {
			Sites []AllowEntry `json:"sites"`
		}
		if err := json.Unmarshal(raw, &al); err != nil {
			fatal("allowlist: %v", err)
		}
		used := map[int]bool{}
		for i := range facts.Sites {
			s := &facts.Sites[i]
			for j, a := range al.Sites {
				if a.Identity == s.Identity && a.Sig == s.Sig && strings.TrimSpace(a.Justification) != "" {
					s.Allow = a.Justification
					used[j] = true
				}
			}
		}
		for j, a := range al.Sites {
			if !used[j] {
				facts.Notes = append(facts.Notes, "allowlist entry matches no site with these facts any more: "+a.Identity+" ["+a.Sig+"]")
			}
		}
	}

	if err := os.MkdirAll(*out, 0755); err != nil {
		fatal("%v", err)
	}
	if err := os.WriteFile(filepath.Join(*out, "Sites.v"), []byte(emitCoq(facts)), 0644); err != nil {
		fatal("%v", err)
	}
	js, _ := json.MarshalIndent(facts, "", " ")
	if err := os.WriteFile(filepath.Join(*out, "sites.json"), js, 0644); err != nil {
		fatal("%v", err)
	}
	fmt.Printf("translator: %d constructors, %d Discard sites, %d writes through parser values, %d cell writes\n",
		len(facts.Ctors), len(facts.Sites), len(facts.AWrites), len(facts.CWrites))
}
