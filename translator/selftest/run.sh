#!/bin/sh
# Self-test of the C14 translator's classification: a file with 22 Discard shapes and 8 tree-write
# shapes (shapes.go.txt; every line says what is expected) is added to a scratch worktree of /repo,
# the translator is run on it and its verdicts are compared with expected.txt.
# Usage: translator/selftest/run.sh   (from anywhere; needs build/translator or builds it)
set -e
here="$(cd "$(dirname "$0")" && pwd)"
root="$(cd "$here/../.." && pwd)"
export GOFLAGS=-mod=mod GOPROXY=off GOSUMDB=off GOTOOLCHAIN=local
wt="$(mktemp -d)/repo"
out="$(mktemp -d)"
trap 'git -C /repo worktree remove --force "$wt" >/dev/null 2>&1; git -C /repo worktree prune; rm -rf "$out" "$(dirname "$wt")"' EXIT
git -C /repo worktree add -f "$wt" HEAD >/dev/null 2>&1
cp "$here/shapes.go.txt" "$wt/lib/query/zz_c14_shapes.go"
mkdir -p "$root/build"
( cd "$root/translator" && timeout 300 go build -o "$root/build/translator" . )
( cd "$root/translator" && timeout 300 "$root/build/translator" -repo "$wt" -out "$out" -allow allowlist_c14.json >/dev/null )
python3 - "$out/sites.json" > "$out/got.txt" <<'PY'
import json, sys
f = json.load(open(sys.argv[1]))
for s in f['sites']:
    if 'zz_c14' in s['file']:
        ok = s['shape'] != 'other' and all(d['kind'] in ('ctor', 'nil') for d in s['defs']) and not s['escapes'] and not s['use_after']
        print(s['func'], s['var'], 'ok' if ok else 'BAD', 'escapes=%d' % len(s['escapes'] or []), 'after=%d' % len(s['use_after'] or []),
              ','.join(d['kind'] for d in s['defs']))
for w in f['awrites']:
    if 'zz_c14' in w['file']:
        print('write', w['lhs'], w['class'])
PY
if diff -u "$here/expected.txt" "$out/got.txt"; then echo "translator selftest: ok"; else echo "translator selftest: MISMATCH"; exit 1; fi
