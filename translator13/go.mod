module veriftranslator

go 1.18
