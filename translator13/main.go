// translator: re-extracts from the csvq sources the fact base the C13 access summaries were written
// for.  Standard library only (go/ast, go/parser, go/token).
//
//	translator -repo /repo -out gen/C13/Sites.v [-json gen/C13/sites.json]
//
// For every goroutine body in lib/query and lib/cli -- the body of a `go` statement (function
// literal, local closure variable or named function/method of the package), every closure handed
// to GoroutineTaskManager.Run and to EvaluateSequentially, and the methods of the task manager --
// it lists the access paths rooted in variables shared with other goroutines (captured variables;
// parameters and receiver of named functions) that are ASSIGNED in the body, every other occurrence
// of such a path in the body, how each occurrence is indexed (by the goroutine's own record index,
// by the goroutine number, under which mutex, under an `if index == 0` guard, not at all, or by
// something else), and the task-manager methods and captured closures the body calls.  For `go`
// statements it also lists the accesses of the enclosing function to those paths after the go
// statement (before or after a Wait()).
package main

import (
	"encoding/json"
	"flag"
	"fmt"
	"go/ast"
	"go/parser"
	"go/printer"
	"go/token"
	"os"
	"path/filepath"
	"sort"
	"strings"
)

type Fact struct {
	Path  string `json:"path"`
	Mode  string `json:"mode"`  // R | W
	Shape string `json:"shape"` // idx | worker | locked:<m> | guard0 | direct | other:<expr>
}

type Site struct {
	Key   string   `json:"key"`
	Kind  string   `json:"kind"` // go | run | evalseq | method | parent
	Pos   string   `json:"pos"`  // file:line (informational; not part of the fact base)
	Facts []Fact   `json:"facts"`
	Calls []string `json:"calls"`
}

var fset = token.NewFileSet()

func text(n ast.Node) string {
	var b strings.Builder
	_ = printer.Fprint(&b, fset, n)
	return strings.Join(strings.Fields(b.String()), " ")
}

type pkgInfo struct {
	files []*ast.File
	names []string
	funcs map[string]*ast.FuncDecl // "name" or "Recv.name"
}

func loadPkg(dir string) *pkgInfo {
	p := &pkgInfo{funcs: map[string]*ast.FuncDecl{}}
	ents, err := os.ReadDir(dir)
	if err != nil {
		panic(err)
	}
	for _, e := range ents {
		n := e.Name()
		if e.IsDir() || !strings.HasSuffix(n, ".go") || strings.HasSuffix(n, "_test.go") {
			continue
		}
		f, err := parser.ParseFile(fset, filepath.Join(dir, n), nil, 0)
		if err != nil {
			panic(err)
		}
		p.files = append(p.files, f)
		p.names = append(p.names, n)
		for _, d := range f.Decls {
			if fd, ok := d.(*ast.FuncDecl); ok {
				p.funcs[funcName(fd)] = fd
			}
		}
	}
	return p
}

func recvType(fd *ast.FuncDecl) string {
	if fd.Recv == nil || len(fd.Recv.List) == 0 {
		return ""
	}
	t := fd.Recv.List[0].Type
	if s, ok := t.(*ast.StarExpr); ok {
		t = s.X
	}
	if id, ok := t.(*ast.Ident); ok {
		return id.Name
	}
	return text(t)
}

func funcName(fd *ast.FuncDecl) string {
	if r := recvType(fd); r != "" {
		return r + "." + fd.Name.Name
	}
	return fd.Name.Name
}

// ---- analysis of one goroutine body -----------------------------------------------------------------
type access struct {
	path  string
	mode  string
	shape string
	pos   token.Pos
}

type bodyCtx struct {
	pkg      *pkgInfo
	lo, hi   token.Pos       // source range of the body: identifiers declared inside are local
	shared   map[string]bool // parameter / receiver names treated as shared (named functions)
	own      map[string]bool // identifiers holding the goroutine's own record index
	worker   map[string]bool // identifiers holding the goroutine number
	accesses []access
	calls    map[string]bool
	encl     *ast.FuncDecl // enclosing function (to find local closures)
	inlined  map[*ast.FuncLit]bool
}

func (c *bodyCtx) isShared(id *ast.Ident) bool {
	if id.Name == "_" || id.Name == "nil" || id.Name == "true" || id.Name == "false" {
		return false
	}
	if c.shared[id.Name] {
		return true
	}
	if id.Obj == nil {
		return false // other file's package-level object or universe: not resolvable without types
	}
	if id.Obj.Kind != ast.Var {
		return false
	}
	p := id.Obj.Pos()
	return p < c.lo || p >= c.hi
}

// chain decomposes an expression made of selectors / indexes / slices / derefs over an identifier:
// path = root.sel.sel (up to the first index), first = first index expression (nil if none)
func chain(e ast.Expr) (root *ast.Ident, path string, first ast.Expr, ok bool) {
	switch x := e.(type) {
	case *ast.Ident:
		return x, x.Name, nil, true
	case *ast.ParenExpr:
		return chain(x.X)
	case *ast.StarExpr:
		return chain(x.X)
	case *ast.SelectorExpr:
		r, p, f, ok := chain(x.X)
		if !ok {
			return nil, "", nil, false
		}
		if f == nil {
			p = p + "." + x.Sel.Name
		}
		return r, p, f, true
	case *ast.IndexExpr:
		r, p, f, ok := chain(x.X)
		if !ok {
			return nil, "", nil, false
		}
		if f == nil {
			f = x.Index
		}
		return r, p, f, true
	case *ast.SliceExpr:
		return chain(x.X)
	}
	return nil, "", nil, false
}

type region struct {
	lock   string // mutex expression text when inside Lock..Unlock
	guard0 bool
}

func isMapExpr(e ast.Expr) bool {
	switch x := e.(type) {
	case *ast.CallExpr:
		if id, ok := x.Fun.(*ast.Ident); ok && id.Name == "make" && len(x.Args) > 0 {
			_, isMap := x.Args[0].(*ast.MapType)
			return isMap
		}
	case *ast.CompositeLit:
		_, isMap := x.Type.(*ast.MapType)
		return isMap
	}
	return false
}

// isMapRoot: the root identifier is declared (in this file) as a map -- indexing a map by the own
// record index is NOT an access to a private element
func isMapRoot(root *ast.Ident, path string) bool {
	if root == nil || root.Obj == nil || path != root.Name {
		return false
	}
	switch d := root.Obj.Decl.(type) {
	case *ast.AssignStmt:
		for i, l := range d.Lhs {
			if id, ok := l.(*ast.Ident); ok && id.Name == root.Name && i < len(d.Rhs) {
				return isMapExpr(d.Rhs[i])
			}
		}
	case *ast.ValueSpec:
		if _, ok := d.Type.(*ast.MapType); ok {
			return true
		}
		for i, n := range d.Names {
			if n.Name == root.Name && i < len(d.Values) {
				return isMapExpr(d.Values[i])
			}
		}
	case *ast.Field:
		_, ok := d.Type.(*ast.MapType)
		return ok
	}
	return false
}

func (c *bodyCtx) shapeOf(root *ast.Ident, path string, first ast.Expr, rg region) string {
	if rg.lock != "" {
		return "locked:" + rg.lock
	}
	if first != nil && isMapRoot(root, path) {
		return "other:map[" + text(first) + "]"
	}
	if first != nil {
		if id, ok := first.(*ast.Ident); ok {
			if c.own[id.Name] {
				return "idx"
			}
			if c.worker[id.Name] {
				return "worker"
			}
		}
		if rg.guard0 {
			return "guard0"
		}
		return "other:" + text(first)
	}
	if rg.guard0 {
		return "guard0"
	}
	return "direct"
}

func (c *bodyCtx) record(e ast.Expr, mode string, rg region) {
	root, path, first, ok := chain(e)
	if !ok {
		return
	}
	if c.isShared(root) {
		c.accesses = append(c.accesses, access{path, mode, c.shapeOf(root, path, first, rg), e.Pos()})
	}
}

// expr visits an expression in read position
func (c *bodyCtx) expr(e ast.Expr, rg region) {
	if e == nil {
		return
	}
	switch x := e.(type) {
	case *ast.Ident, *ast.SelectorExpr, *ast.IndexExpr, *ast.SliceExpr, *ast.StarExpr, *ast.ParenExpr:
		if _, _, _, ok := chain(e); ok {
			c.record(e, "R", rg)
			c.indexes(e, rg)
			return
		}
		// not a pure chain (e.g. f(x).y[i]): visit the parts
		switch y := e.(type) {
		case *ast.SelectorExpr:
			c.expr(y.X, rg)
		case *ast.IndexExpr:
			c.expr(y.X, rg)
			c.expr(y.Index, rg)
		case *ast.SliceExpr:
			c.expr(y.X, rg)
			c.expr(y.Low, rg)
			c.expr(y.High, rg)
			c.expr(y.Max, rg)
		case *ast.StarExpr:
			c.expr(y.X, rg)
		case *ast.ParenExpr:
			c.expr(y.X, rg)
		}
	case *ast.CallExpr:
		c.call(x, rg)
	case *ast.BinaryExpr:
		c.expr(x.X, rg)
		c.expr(x.Y, rg)
	case *ast.UnaryExpr:
		c.expr(x.X, rg)
	case *ast.KeyValueExpr:
		c.expr(x.Key, rg)
		c.expr(x.Value, rg)
	case *ast.CompositeLit:
		for _, el := range x.Elts {
			c.expr(el, rg)
		}
	case *ast.TypeAssertExpr:
		c.expr(x.X, rg)
	case *ast.FuncLit:
		c.block(x.Body, rg)
	}
}

// indexes visits the index sub-expressions of a chain (they are reads)
func (c *bodyCtx) indexes(e ast.Expr, rg region) {
	switch x := e.(type) {
	case *ast.ParenExpr:
		c.indexes(x.X, rg)
	case *ast.StarExpr:
		c.indexes(x.X, rg)
	case *ast.SelectorExpr:
		c.indexes(x.X, rg)
	case *ast.IndexExpr:
		c.indexes(x.X, rg)
		c.expr(x.Index, rg)
	case *ast.SliceExpr:
		c.indexes(x.X, rg)
		c.expr(x.Low, rg)
		c.expr(x.High, rg)
		c.expr(x.Max, rg)
	}
}

var tmMethods = map[string]bool{"HasError": true, "SetError": true, "Done": true, "RecordRange": true, "Release": true, "AssignRoutineNumber": true}

func (c *bodyCtx) call(x *ast.CallExpr, rg region) {
	switch f := x.Fun.(type) {
	case *ast.SelectorExpr:
		if root, path, _, ok := chain(f.X); ok {
			if c.isShared(root) && tmMethods[f.Sel.Name] {
				c.calls[path+"."+f.Sel.Name] = true
			}
			// the receiver expression is read (its own state is the callee's business)
			c.indexes(f.X, rg)
		} else {
			c.expr(f.X, rg)
		}
	case *ast.Ident:
		// a captured local closure: analyse its body as part of this goroutine
		if f.Obj != nil && f.Obj.Kind == ast.Var && c.isShared(f) {
			if lit := closureOf(f.Obj); lit != nil {
				c.calls["call:"+f.Name] = true
				if !c.inlined[lit] {
					c.inlined[lit] = true
					c.block(lit.Body, region{})
				}
			} else {
				c.calls["call:"+f.Name] = true
			}
		}
	default:
		c.expr(x.Fun, rg)
	}
	// append(p, ...) assigned back to p is handled by the assignment; arguments are reads
	for _, a := range x.Args {
		c.expr(a, rg)
	}
}

func closureOf(obj *ast.Object) *ast.FuncLit {
	switch d := obj.Decl.(type) {
	case *ast.AssignStmt:
		for i, l := range d.Lhs {
			if id, ok := l.(*ast.Ident); ok && id.Name == obj.Name && i < len(d.Rhs) {
				if lit, ok := d.Rhs[i].(*ast.FuncLit); ok {
					return lit
				}
			}
		}
	case *ast.ValueSpec:
		for i, n := range d.Names {
			if n.Name == obj.Name && i < len(d.Values) {
				if lit, ok := d.Values[i].(*ast.FuncLit); ok {
					return lit
				}
			}
		}
	}
	return nil
}

func lockCall(s ast.Stmt, name string) (string, bool) {
	var call *ast.CallExpr
	switch x := s.(type) {
	case *ast.ExprStmt:
		call, _ = x.X.(*ast.CallExpr)
	case *ast.DeferStmt:
		if name == "Unlock" {
			call = x.Call
		}
	}
	if call == nil {
		return "", false
	}
	sel, ok := call.Fun.(*ast.SelectorExpr)
	if !ok || sel.Sel.Name != name || len(call.Args) != 0 {
		return "", false
	}
	return text(sel.X), true
}

func (c *bodyCtx) block(b *ast.BlockStmt, rg region) {
	if b == nil {
		return
	}
	c.stmts(b.List, rg)
}

func (c *bodyCtx) stmts(list []ast.Stmt, rg region) {
	cur := rg
	for _, s := range list {
		if m, ok := lockCall(s, "Lock"); ok {
			cur.lock = m
			continue
		}
		if m, ok := lockCall(s, "Unlock"); ok {
			if _, isDefer := s.(*ast.DeferStmt); !isDefer && cur.lock == m {
				cur.lock = rg.lock
			}
			continue
		}
		c.stmt(s, cur)
	}
}

func (c *bodyCtx) isOwnZero(e ast.Expr) bool {
	b, ok := e.(*ast.BinaryExpr)
	if !ok || b.Op != token.EQL {
		return false
	}
	id, ok1 := b.X.(*ast.Ident)
	lit, ok2 := b.Y.(*ast.BasicLit)
	return ok1 && ok2 && c.own[id.Name] && lit.Value == "0"
}

func (c *bodyCtx) stmt(s ast.Stmt, rg region) {
	switch x := s.(type) {
	case *ast.AssignStmt:
		for _, r := range x.Rhs {
			c.expr(r, rg)
		}
		for _, l := range x.Lhs {
			if x.Tok == token.DEFINE {
				if id, ok := l.(*ast.Ident); ok && !c.isShared(id) {
					continue
				}
			}
			c.record(l, "W", rg)
			if x.Tok != token.ASSIGN && x.Tok != token.DEFINE {
				c.record(l, "R", rg) // op=
			}
			c.indexes(l, rg)
		}
	case *ast.IncDecStmt:
		c.record(x.X, "R", rg)
		c.record(x.X, "W", rg)
		c.indexes(x.X, rg)
	case *ast.ExprStmt:
		c.expr(x.X, rg)
	case *ast.SendStmt:
		c.expr(x.Chan, rg)
		c.expr(x.Value, rg)
	case *ast.ReturnStmt:
		for _, r := range x.Results {
			c.expr(r, rg)
		}
	case *ast.DeferStmt:
		if lit, ok := x.Call.Fun.(*ast.FuncLit); ok {
			c.block(lit.Body, region{})
		} else {
			c.call(x.Call, rg)
		}
	case *ast.GoStmt:
		// nested goroutines are sites of their own
	case *ast.BlockStmt:
		c.block(x, rg)
	case *ast.IfStmt:
		if x.Init != nil {
			c.stmt(x.Init, rg)
		}
		c.expr(x.Cond, rg)
		inner := rg
		if c.isOwnZero(x.Cond) {
			inner.guard0 = true
		}
		c.block(x.Body, inner)
		if x.Else != nil {
			c.stmt(x.Else, rg)
		}
	case *ast.ForStmt:
		if x.Init != nil {
			c.stmt(x.Init, rg)
		}
		c.expr(x.Cond, rg)
		if x.Post != nil {
			c.stmt(x.Post, rg)
		}
		c.block(x.Body, rg)
	case *ast.RangeStmt:
		c.expr(x.X, rg)
		if x.Tok == token.ASSIGN {
			if x.Key != nil {
				c.record(x.Key, "W", rg)
			}
			if x.Value != nil {
				c.record(x.Value, "W", rg)
			}
		}
		c.block(x.Body, rg)
	case *ast.SwitchStmt:
		if x.Init != nil {
			c.stmt(x.Init, rg)
		}
		c.expr(x.Tag, rg)
		c.block(x.Body, rg)
	case *ast.TypeSwitchStmt:
		if x.Init != nil {
			c.stmt(x.Init, rg)
		}
		c.stmt(x.Assign, rg)
		c.block(x.Body, rg)
	case *ast.CaseClause:
		for _, e := range x.List {
			c.expr(e, rg)
		}
		c.stmts(x.Body, rg)
	case *ast.SelectStmt:
		c.block(x.Body, rg)
	case *ast.CommClause:
		if x.Comm != nil {
			c.stmt(x.Comm, rg)
		}
		c.stmts(x.Body, rg)
	case *ast.LabeledStmt:
		c.stmt(x.Stmt, rg)
	case *ast.DeclStmt:
		if gd, ok := x.Decl.(*ast.GenDecl); ok {
			for _, sp := range gd.Specs {
				if vs, ok := sp.(*ast.ValueSpec); ok {
					for _, v := range vs.Values {
						c.expr(v, rg)
					}
				}
			}
		}
	}
}

// findIndexIdents: start, end := X.RecordRange(w) marks w as the goroutine number, and the loop
// variable of `for i := start; ...` as the own record index
func (c *bodyCtx) findIndexIdents(body *ast.BlockStmt) {
	starts := map[string]bool{}
	ast.Inspect(body, func(n ast.Node) bool {
		switch x := n.(type) {
		case *ast.AssignStmt:
			if len(x.Rhs) == 1 {
				if call, ok := x.Rhs[0].(*ast.CallExpr); ok {
					if sel, ok := call.Fun.(*ast.SelectorExpr); ok && sel.Sel.Name == "RecordRange" && len(call.Args) == 1 {
						if id, ok := call.Args[0].(*ast.Ident); ok {
							c.worker[id.Name] = true
						}
						if len(x.Lhs) == 2 {
							if id, ok := x.Lhs[0].(*ast.Ident); ok {
								starts[id.Name] = true
							}
						}
					}
				}
			}
		case *ast.ForStmt:
			if as, ok := x.Init.(*ast.AssignStmt); ok && as.Tok == token.DEFINE && len(as.Lhs) == 1 && len(as.Rhs) == 1 {
				if r, ok := as.Rhs[0].(*ast.Ident); ok && starts[r.Name] {
					if l, ok := as.Lhs[0].(*ast.Ident); ok {
						c.own[l.Name] = true
					}
				}
			}
		}
		return true
	})
}

func newCtx(pkg *pkgInfo, lo, hi token.Pos) *bodyCtx {
	return &bodyCtx{pkg: pkg, lo: lo, hi: hi, shared: map[string]bool{}, own: map[string]bool{}, worker: map[string]bool{}, calls: map[string]bool{}, inlined: map[*ast.FuncLit]bool{}}
}

func paramNames(ft *ast.FuncType) []string {
	var out []string
	if ft.Params == nil {
		return out
	}
	for _, f := range ft.Params.List {
		for _, n := range f.Names {
			out = append(out, n.Name)
		}
	}
	return out
}

func isIntType(e ast.Expr) bool {
	id, ok := e.(*ast.Ident)
	return ok && id.Name == "int"
}

func intParams(ft *ast.FuncType) []string {
	var out []string
	if ft.Params == nil {
		return out
	}
	for _, f := range ft.Params.List {
		if isIntType(f.Type) {
			for _, n := range f.Names {
				out = append(out, n.Name)
			}
		}
	}
	return out
}

// ---- site extraction ----------------------------------------------------------------------------------
func finish(key, kind string, pos token.Pos, c *bodyCtx, written map[string]bool) Site {
	seen := map[Fact]bool{}
	facts := []Fact{}
	for _, a := range c.accesses {
		if !written[a.path] {
			continue
		}
		f := Fact{a.path, a.mode, a.shape}
		if !seen[f] {
			seen[f] = true
			facts = append(facts, f)
		}
	}
	sort.Slice(facts, func(i, j int) bool {
		if facts[i].Path != facts[j].Path {
			return facts[i].Path < facts[j].Path
		}
		if facts[i].Mode != facts[j].Mode {
			return facts[i].Mode < facts[j].Mode
		}
		return facts[i].Shape < facts[j].Shape
	})
	calls := []string{}
	for k := range c.calls {
		calls = append(calls, k)
	}
	sort.Strings(calls)
	p := fset.Position(pos)
	return Site{Key: key, Kind: kind, Pos: fmt.Sprintf("%s:%d", filepath.Base(p.Filename), p.Line), Facts: facts, Calls: calls}
}

func writtenPaths(c *bodyCtx) map[string]bool {
	w := map[string]bool{}
	for _, a := range c.accesses {
		if a.mode == "W" {
			w[a.path] = true
		}
	}
	return w
}

func extract(pkg *pkgInfo, pkgName string) []Site {
	var sites []Site
	for fi, file := range pkg.files {
		base := pkgName + "/" + pkg.names[fi]
		for _, d := range file.Decls {
			fd, ok := d.(*ast.FuncDecl)
			if !ok || fd.Body == nil {
				continue
			}
			fname := funcName(fd)
			// methods of the task manager
			if r := recvType(fd); r == "GoroutineTaskManager" || r == "GoroutineManager" {
				c := newCtx(pkg, fd.Body.Pos(), fd.Body.End())
				c.encl = fd
				if len(fd.Recv.List[0].Names) > 0 {
					c.shared[fd.Recv.List[0].Names[0].Name] = true
				}
				c.block(fd.Body, region{})
				w := writtenPaths(c)
				// for methods every field access of the receiver matters, written here or not
				if len(fd.Recv.List[0].Names) > 0 {
					rn := fd.Recv.List[0].Names[0].Name + "."
					for _, a := range c.accesses {
						if strings.HasPrefix(a.path, rn) {
							w[a.path] = true
						}
					}
					for p := range w {
						if !strings.HasPrefix(p, rn) {
							delete(w, p)
						}
					}
				}
				sites = append(sites, finish(base+":"+fname, "method", fd.Pos(), c, w))
			}

			counters := map[string]int{}
			var goCtxs []*bodyCtx
			var goKeys []string
			var goPos []token.Pos
			var firstGo token.Pos
			var goRanges [][2]token.Pos
			var goLits []*ast.FuncLit
			ast.Inspect(fd.Body, func(n ast.Node) bool {
				switch x := n.(type) {
				case *ast.GoStmt:
					key := fmt.Sprintf("%s:%s:go#%d", base, fname, counters["go"])
					counters["go"]++
					if firstGo == 0 {
						firstGo = x.Pos()
					}
					var c *bodyCtx
					switch f := x.Call.Fun.(type) {
					case *ast.FuncLit:
						c = newCtx(pkg, f.Pos(), f.End())
						c.findIndexIdents(f.Body)
						c.block(f.Body, region{})
						goRanges = append(goRanges, [2]token.Pos{f.Pos(), f.End()})
						goLits = append(goLits, f)
					case *ast.Ident:
						if f.Obj != nil {
							if lit := closureOf(f.Obj); lit != nil {
								c = newCtx(pkg, lit.Pos(), lit.End())
								c.findIndexIdents(lit.Body)
								c.block(lit.Body, region{})
								goRanges = append(goRanges, [2]token.Pos{lit.Pos(), lit.End()})
								goLits = append(goLits, lit)
							}
						}
						if c == nil {
							if callee, ok := pkg.funcs[f.Name]; ok && callee.Body != nil {
								c = namedFuncCtx(pkg, callee)
								key += "=" + f.Name
							}
						}
					case *ast.SelectorExpr:
						// method of the package: find by name
						for name, callee := range pkg.funcs {
							if strings.HasSuffix(name, "."+f.Sel.Name) && callee.Body != nil {
								c = namedFuncCtx(pkg, callee)
								key += "=" + name
								break
							}
						}
					}
					if c == nil {
						c = newCtx(pkg, x.Pos(), x.End())
						c.calls["unresolved:"+text(x.Call.Fun)] = true
					}
					goCtxs = append(goCtxs, c)
					goKeys = append(goKeys, key)
					goPos = append(goPos, x.Pos())
					return false
				case *ast.CallExpr:
					if sel, ok := x.Fun.(*ast.SelectorExpr); ok && sel.Sel.Name == "Run" && len(x.Args) == 2 {
						if lit, ok := x.Args[1].(*ast.FuncLit); ok {
							if ip := intParams(lit.Type); len(ip) == 1 {
								c := newCtx(pkg, lit.Pos(), lit.End())
								c.own[ip[0]] = true
								c.block(lit.Body, region{})
								key := fmt.Sprintf("%s:%s:run#%d", base, fname, counters["run"])
								counters["run"]++
								sites = append(sites, finish(key, "run", lit.Pos(), c, writtenPaths(c)))
							}
						}
					}
					if id, ok := x.Fun.(*ast.Ident); ok && id.Name == "EvaluateSequentially" && len(x.Args) == 4 {
						if lit, ok := x.Args[3].(*ast.FuncLit); ok {
							c := newCtx(pkg, lit.Pos(), lit.End())
							if ip := intParams(lit.Type); len(ip) == 1 {
								c.own[ip[0]] = true
							}
							c.block(lit.Body, region{})
							key := fmt.Sprintf("%s:%s:evalseq#%d", base, fname, counters["evalseq"])
							counters["evalseq"]++
							sites = append(sites, finish(key, "evalseq", lit.Pos(), c, writtenPaths(c)))
						}
					}
				}
				return true
			})
			if len(goCtxs) > 0 {
				// paths written by any goroutine of this function are shared between all of them
				written := map[string]bool{}
				for _, c := range goCtxs {
					for p := range writtenPaths(c) {
						written[p] = true
					}
				}
				for i, c := range goCtxs {
					sites = append(sites, finish(goKeys[i], "go", goPos[i], c, written))
				}
				// the enclosing function's own accesses to those paths after the first go statement
				pc := newCtx(pkg, 0, 0)
				pc.lo, pc.hi = fd.Body.End(), fd.Body.End() // every local of the function counts as shared here
				for _, l := range goLits {
					pc.inlined[l] = true // the one-goroutine path calls the body inline: not concurrent
				}
				waitPos := token.Pos(0)
				ast.Inspect(fd.Body, func(n ast.Node) bool {
					if call, ok := n.(*ast.CallExpr); ok {
						if sel, ok := call.Fun.(*ast.SelectorExpr); ok && sel.Sel.Name == "Wait" && call.Pos() > firstGo {
							if waitPos == 0 || call.Pos() < waitPos {
								waitPos = call.Pos()
							}
						}
					}
					return true
				})
				parentStmts(pc, fd.Body, firstGo, goRanges)
				var facts []Fact
				seen := map[Fact]bool{}
				for _, a := range pc.accesses {
					if !written[a.path] {
						continue
					}
					when := "concurrent"
					if waitPos != 0 && a.pos > waitPos {
						when = "after-wait"
					}
					shape := "other:" + when
					if strings.HasPrefix(a.shape, "locked:") {
						shape = a.shape
					}
					f := Fact{a.path, a.mode, shape}
					if !seen[f] {
						seen[f] = true
						facts = append(facts, f)
					}
				}
				if len(facts) > 0 {
					sort.Slice(facts, func(i, j int) bool {
						if facts[i].Path != facts[j].Path {
							return facts[i].Path < facts[j].Path
						}
						if facts[i].Mode != facts[j].Mode {
							return facts[i].Mode < facts[j].Mode
						}
						return facts[i].Shape < facts[j].Shape
					})
					p := fset.Position(fd.Pos())
					sites = append(sites, Site{Key: base + ":" + fname + ":parent", Kind: "parent", Pos: fmt.Sprintf("%s:%d", filepath.Base(p.Filename), p.Line), Facts: facts, Calls: []string{}})
				}
			}
		}
	}
	sort.Slice(sites, func(i, j int) bool { return sites[i].Key < sites[j].Key })
	return sites
}

// parentStmts records the accesses of the statements of the enclosing function that come after the
// first go statement and are not inside a goroutine body or a deferred/other closure definition
func parentStmts(pc *bodyCtx, body *ast.BlockStmt, firstGo token.Pos, skip [][2]token.Pos) {
	inSkip := func(p token.Pos) bool {
		for _, r := range skip {
			if p >= r[0] && p < r[1] {
				return true
			}
		}
		return false
	}
	var walk func(list []ast.Stmt, rg region)
	walk = func(list []ast.Stmt, rg region) {
		cur := rg
		for _, s := range list {
			if m, ok := lockCall(s, "Lock"); ok {
				cur.lock = m
				continue
			}
			if m, ok := lockCall(s, "Unlock"); ok {
				if _, isDefer := s.(*ast.DeferStmt); !isDefer && cur.lock == m {
					cur.lock = rg.lock
				}
				continue
			}
			if s.End() <= firstGo {
				continue
			}
			switch x := s.(type) {
			case *ast.GoStmt:
				continue
			case *ast.AssignStmt:
				// closure definitions (var f = func...) are analysed where they run
				allLits := len(x.Rhs) > 0
				for _, r := range x.Rhs {
					if _, ok := r.(*ast.FuncLit); !ok {
						allLits = false
					}
				}
				if allLits {
					continue
				}
			case *ast.IfStmt:
				if x.Init != nil {
					walk([]ast.Stmt{x.Init}, cur)
				}
				pc.expr(x.Cond, cur)
				walk(x.Body.List, cur)
				if x.Else != nil {
					walk([]ast.Stmt{x.Else}, cur)
				}
				continue
			case *ast.BlockStmt:
				walk(x.List, cur)
				continue
			case *ast.ForStmt:
				if x.Pos() < firstGo {
					// the loop that contains the go statement: its header runs concurrently
					walk(x.Body.List, cur)
					continue
				}
			}
			if inSkip(s.Pos()) {
				continue
			}
			pc.stmt(s, cur)
		}
	}
	walk(body.List, region{})
}

func namedFuncCtx(pkg *pkgInfo, callee *ast.FuncDecl) *bodyCtx {
	c := newCtx(pkg, callee.Body.Pos(), callee.Body.End())
	for _, n := range paramNames(callee.Type) {
		c.shared[n] = true
	}
	if callee.Recv != nil && len(callee.Recv.List) > 0 && len(callee.Recv.List[0].Names) > 0 {
		c.shared[callee.Recv.List[0].Names[0].Name] = true
	}
	c.findIndexIdents(callee.Body)
	for w := range c.worker {
		delete(c.shared, w)
	}
	c.block(callee.Body, region{})
	return c
}

// ---- output ---------------------------------------------------------------------------------------------
func coqString(s string) string { return "\"" + strings.ReplaceAll(s, "\"", "\"\"") + "\"" }

func coqShape(s string) string {
	switch {
	case s == "idx":
		return "ShIdx"
	case s == "worker":
		return "ShWorker"
	case s == "guard0":
		return "ShGuard0"
	case s == "direct":
		return "ShDirect"
	case strings.HasPrefix(s, "locked:"):
		return "(ShLocked " + coqString(strings.TrimPrefix(s, "locked:")) + ")"
	}
	return "(ShOther " + coqString(strings.TrimPrefix(s, "other:")) + ")"
}

func coqSites(name string, sites []Site) string {
	var b strings.Builder
	fmt.Fprintf(&b, "Definition %s : list site := [\n", name)
	for i, s := range sites {
		var fs []string
		for _, f := range s.Facts {
			m := "Rd"
			if f.Mode == "W" {
				m = "Wr"
			}
			fs = append(fs, fmt.Sprintf("mkFact %s %s %s", coqString(f.Path), m, coqShape(f.Shape)))
		}
		var cs []string
		for _, c := range s.Calls {
			cs = append(cs, coqString(c))
		}
		sep := ";"
		if i == len(sites)-1 {
			sep = ""
		}
		fmt.Fprintf(&b, "  mkSite %s %s\n    [%s]\n    [%s]%s\n", coqString(s.Key), coqString(s.Kind), strings.Join(fs, ";\n     "), strings.Join(cs, "; "), sep)
	}
	b.WriteString("].\n")
	return b.String()
}

func main() {
	repo := flag.String("repo", "/repo", "csvq source tree")
	out := flag.String("out", "", "Coq output file (definition `sites`)")
	jsonOut := flag.String("json", "", "JSON output file")
	defName := flag.String("name", "sites", "name of the Coq definition")
	bare := flag.Bool("bare", false, "emit only the definition (no Require header)")
	flag.Parse()
	var sites []Site
	for _, p := range []string{"lib/query", "lib/cli"} {
		sites = append(sites, extract(loadPkg(filepath.Join(*repo, p)), p)...)
	}
	if *jsonOut != "" {
		b, _ := json.MarshalIndent(sites, "", " ")
		if err := os.WriteFile(*jsonOut, b, 0644); err != nil {
			panic(err)
		}
	}
	var b strings.Builder
	if !*bare {
		b.WriteString("(* generated by /verif/translator from the csvq sources -- do not edit *)\nFrom Coq Require Import List String.\nRequire Import Csvq.Model.Access.\nImport ListNotations.\nOpen Scope string_scope.\n")
	}
	b.WriteString(coqSites(*defName, sites))
	if *out == "" {
		fmt.Print(b.String())
	} else if err := os.WriteFile(*out, []byte(b.String()), 0644); err != nil {
		panic(err)
	}
}
